#!/usr/bin/env python3
"""Rebuilds DESIGN.md = tools/design_part1_draft.md (with the seeded table substituted) + Part II
(the round-0 design, kept verbatim in tools/design_part2_round0.md)."""
import os, subprocess
HERE = os.path.dirname(os.path.abspath(__file__))
ROOT = os.path.dirname(HERE)
p1 = open(os.path.join(HERE, 'design_part1_draft.md')).read()
p2 = open(os.path.join(HERE, 'design_part2_round0.md')).read()
table = subprocess.run(['python3', os.path.join(HERE, 'seeded_table.py')], capture_output=True, text=True).stdout
open(os.path.join(ROOT, 'DESIGN.md'), 'w').write(p1.replace('SEEDED_TABLE_PLACEHOLDER', table) + p2)
print('DESIGN.md: %d lines' % len(open(os.path.join(ROOT, 'DESIGN.md')).read().splitlines()))
