#!/usr/bin/env python3
"""Regenerates MANIFEST.json from tools/manifest_table.json (one entry per built check).
Properties without an entry are listed under not_applicable with the reason 'not built yet'."""
import json, os
HERE = os.path.dirname(os.path.abspath(__file__))
ROOT = os.path.dirname(HERE)
table = json.load(open(os.path.join(HERE, 'manifest_table.json')))
props = [json.loads(l)['id'] for l in open(os.path.join(ROOT, 'properties.jsonl'))]
checks, na = [], []
for p in props:
    t = table['checks'].get(p)
    if t is None:
        na.append({'property_id': p, 'reason': table.get('not_applicable', {}).get(
            p, 'no check registered yet: model/theorems/correspondence for this property are still being built (see DESIGN.md section 6)')})
        continue
    checks.append({
        'property_id': p,
        'quick_cmd': './check %s --tier quick' % p,
        'thorough_cmd': './check %s --tier thorough' % p,
        'evidence_file': 'evidence/%s.json' % p,
        'replay_cmd_template': './check %s --replay {path}' % p,
        'engine': 'lean',
        'level_claimed': {'category': t.get('category', 'proof'), 'text': t['text'],
                          'design_ref': 'DESIGN.md section 6, ' + p},
        'level_note': t['note'],
        'technique': t['technique'],
    })
served = [c['property_id'] for c in checks]
m = {
    'version': 1,
    'setup_cmd': './check --setup',
    'hooks': table['hooks'],
    'engines': [
        {'name': 'lean', 'path': 'lean/', 'serves_properties': served,
         'kind_free_text': 'Lean 4 library: executable models (Model/), regenerated models (Gen/), helper lemmas (Lemmas/), property theorems (Props/), stdin line drivers (Drivers/)'},
        {'name': 'translator', 'path': 'translator/', 'serves_properties': [p for p in served if table['checks'][p].get('translated')],
         'kind_free_text': 'Python-AST to Lean translator regenerating Gen/*.lean from /repo on every run'},
        {'name': 'harness', 'path': 'harness/', 'serves_properties': served,
         'kind_free_text': 'Python harness driving the real plinio classes: correspondence with the Lean drivers, property oracles, failing-input search, evidence'},
    ],
    'checks': checks,
    'not_applicable': na,
    'notes': table.get('notes', ''),
}
json.dump(m, open(os.path.join(ROOT, 'MANIFEST.json'), 'w'), indent=1)
print('MANIFEST.json: %d checks, %d not claimed' % (len(checks), len(na)))
