#!/bin/bash
# usage: tools/scratch_repo.sh DIR [--at COMMIT] [--revert COMMIT]... [--apply PATCH]...
# Makes a scratch copy of /repo's HEAD (committed state) under DIR (must be outside /repo and /verif),
# optionally with fix commits reverted or patches applied. Use it with  PLINIO_SRC=DIR ./check Cxx ...
# (evidence and replays then go to $VERIF_OUT, default DIR/verif_out, never to /verif). Remove DIR when done.
set -e
d="$1"; shift
at=HEAD
if [ "$1" = "--at" ]; then at="$2"; shift 2; fi
case "$d" in /repo*|/verif*) echo "scratch dir must be outside /repo and /verif" >&2; exit 2;; esac
rm -rf "$d"; mkdir -p "$d"
git -C /repo archive "$at" | tar -x -C "$d"
while [ $# -gt 0 ]; do
  case "$1" in
    --revert) git -C /repo show "$2" | (cd "$d" && patch -R -p1 -s); shift 2;;
    --apply) (cd "$d" && patch -p1 -s < "$2"); shift 2;;
    *) echo "unknown arg $1" >&2; exit 2;;
  esac
done
echo "$d"
