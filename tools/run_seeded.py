#!/usr/bin/env python3
"""Development aid: run checks against the seeded changes under /verif/seeded/<id>_<i>/ on scratch
copies of /repo (never on /repo itself).  usage: tools/run_seeded.py [name ...] [--checks C01,C04]
Writes seeded/<name>/result.json {demo_fails_with_change, checks: {Cxx: {rc, lines}}}."""
import json, os, subprocess, sys, shutil
ROOT = os.path.dirname(os.path.dirname(os.path.abspath(__file__)))
names = [a for a in sys.argv[1:] if not a.startswith('--')]
checks_override = None
for a in sys.argv[1:]:
    if a.startswith('--checks='):
        checks_override = a.split('=', 1)[1].split(',')
if not names:
    names = sorted(d for d in os.listdir(os.path.join(ROOT, 'seeded')) if os.path.isdir(os.path.join(ROOT, 'seeded', d)))
for name in names:
    sd = os.path.join(ROOT, 'seeded', name)
    meta = json.load(open(os.path.join(sd, 'meta.json')))
    prop = meta['property']
    checks = checks_override or meta.get('also_checks', []) + [prop]
    scratch = '/tmp/seeded_run_' + name
    base = ['--at', meta['base']] if meta.get('base') else []
    subprocess.run([os.path.join(ROOT, 'tools', 'scratch_repo.sh'), scratch] + base + ['--apply', os.path.join(sd, 'patch.diff')],
                   check=True, capture_output=True)
    env = dict(os.environ, PYTHONPATH=scratch, OMP_NUM_THREADS='2')
    d = subprocess.run(['/venv/bin/python', os.path.join(sd, 'demo.py')], cwd=scratch, env=env, capture_output=True, text=True, timeout=900)
    res = {'demo_rc_with_change': d.returncode, 'demo_tail': (d.stdout + d.stderr)[-400:], 'checks': {}}
    for c in checks:
        e = dict(os.environ, PLINIO_SRC=scratch)
        p = subprocess.run([os.path.join(ROOT, 'check'), c, '--tier', 'quick'], cwd=ROOT, env=e, capture_output=True, text=True, timeout=3000)
        lines = [l for l in p.stdout.splitlines() if l.startswith(('VIOLATION', 'KNOWN-FINDING', c + ' '))]
        keys = []
        rd = os.path.join(scratch, 'verif_out', 'replays')
        if os.path.isdir(rd):
            for f in sorted(os.listdir(rd)):
                if f.startswith(c + '-'):
                    try:
                        j = json.load(open(os.path.join(rd, f)))
                        keys.append(j.get('key') or 'no-failing-input-found: ' + '; '.join(j.get('no_longer_checks', []))[:300])
                    except Exception:
                        pass
        res['checks'][c] = {'rc': p.returncode, 'violation_keys': keys, 'summary': lines[-1] if lines else p.stdout[-300:]}
        print(name, c, 'rc', p.returncode, keys[:4], flush=True)
    json.dump(res, open(os.path.join(sd, 'result.json'), 'w'), indent=1)
    shutil.rmtree(scratch, ignore_errors=True)
