#!/usr/bin/env python3
"""Prints the markdown table of seeded changes (seeded/*/meta.json + result.json + history.json)."""
import json, os
ROOT = os.path.dirname(os.path.dirname(os.path.abspath(__file__)))
rows = []
for name in sorted(os.listdir(os.path.join(ROOT, 'seeded'))):
    d = os.path.join(ROOT, 'seeded', name)
    if not os.path.isdir(d):
        continue
    meta = json.load(open(os.path.join(d, 'meta.json')))
    res = json.load(open(os.path.join(d, 'result.json'))) if os.path.exists(os.path.join(d, 'result.json')) else {}
    hist = meta.get('first_run', '')
    cells = []
    for c, r in res.get('checks', {}).items():
        keys = [k.split(':', 1)[1] if ':' in k else k for k in r['violation_keys'][:2]]
        cells.append('%s %s%s' % (c, 'RED' if r['rc'] == 1 else ('green' if r['rc'] == 0 else 'rc%d' % r['rc']),
                                  (' (' + '; '.join(keys) + ')') if keys else ''))
    summ = (meta.get('summary') or '').replace('\n', ' ').replace('|', '/')
    if len(summ) > 170:
        summ = summ[:167] + '…'
    rows.append('| %s | %s | %s | %s |' % (name, summ, '; '.join(cells), hist))
print('| change | what it does | checks (final) | first run |')
print('|---|---|---|---|')
print('\n'.join(rows))
