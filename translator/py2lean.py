#!/usr/bin/env python3
"""Python-AST -> Lean 4 translator for the arithmetic subset of PLiNIO (C16, C19; reused by C12).

What is translated (sources are read from the tree in env PLINIO_SRC, default /repo):

* every top-level function of ``plinio/cost/{params,params_no_bias,params_bit,ops,ops_no_bias,
  ops_bit,gap8_latency,mpic_latency,mpic_energy,diana_latency,ne16_latency}.py`` (cost functions
  ``f(spec)`` and their numeric helpers), the MPIC look-up table (dictionary literal), and the
  registrations ``cost_spec[Pattern] = fn``                                   -> ``Gen/Cost.lean``
* every ``torch.autograd.Function`` of those modules, ``forward`` AND ``backward`` staticmethods
                                                                               -> ``Gen/Ste.lean``
* ``BaseRegularizer.__call__`` and ``DUCCIO.__call__`` (derived final strengths, the loop body
  with the strength schedule, the accumulation)                               -> ``Gen/Reg.lean``

Every function ``f`` becomes two total Lean definitions over an arbitrary ``CostNum α``
(``lean/PlinioVerif/Model/CostNum.lean``): ``f.val`` (the returned number) and ``f.ok : Bool``
(``false`` iff the Python raises -- ``assert``, ``raise``, index out of range, tuple-unpack of the
wrong length, key outside a table -- or divides by zero).

Hand-modelled, tied by correspondence instead of translation (see ``HAND_FUNCS``/``HAND_FORWARD``):
the class ``Ne16PerfModel`` with ``Ne16PerfModel_generalized`` (``Model/NE16.lean``) and the
``forward`` of DIANA's ``ComputeOxUnrollSTE`` (``Model/CostHand.lean``).

A construct outside the subset raises ``TranslationError`` naming file, function and line.  The
function concerned is then emitted as a stub (``val = 0``, ``ok = false``) so that the rest of the
file and the line driver still build; the error is reported to the caller (``harness/regen.py``),
which records it as a broken obligation.
"""
import ast
import hashlib
import os
import sys
from fractions import Fraction

COST_MODULES = ['params', 'params_no_bias', 'params_bit', 'ops', 'ops_no_bias', 'ops_bit',
                'gap8_latency', 'mpic_latency', 'mpic_energy', 'diana_latency', 'ne16_latency']

# keys of the layer description (fields of `LSpec`)
NUM_KEYS = ['in_channels', 'out_channels', 'in_features', 'out_features', 'groups', 'w_precision',
            'in_precision', 'a_precision', 'w_theta_alpha']
LIST_KEYS = ['kernel_size', 'output_shape']
PRESENCE_FLAGS = {'a_precision': 'has_a_precision'}

# functions modelled by hand (Lean name of value / guard, parameter names and kinds, result kind)
HAND_FUNCS = {
    ('ne16_latency', 'Ne16PerfModel_generalized'): dict(
        val='PlinioVerif.NE16.generalized', ok='PlinioVerif.NE16.generalizedOk',
        params=[('name', 'str'), ('ks', 'list'), ('depthwise', 'bool'), ('weights_bitwidth', 'num'),
                ('layer', 'list')],
        ret=('list', 3)),
}
# autograd.Function classes whose `forward` is modelled by hand (list-of-values form)
HAND_FORWARD = {
    ('diana_latency', 'ComputeOxUnrollSTE'): 'PlinioVerif.Hand.oxUnrollL',
}
# plain classes modelled by hand (skipped by the translator)
HAND_CLASSES = {('ne16_latency', 'Ne16PerfModel')}

LEAN_KEYWORDS = {'end', 'in', 'at', 'from', 'fun', 'open', 'let', 'have', 'show', 'then', 'else', 'if',
                 'do', 'def', 'theorem', 'by', 'with', 'match', 'where', 'instance', 'class',
                 'structure', 'namespace', 'section', 'variable', 'universe', 'import', 'for',
                 'return', 'mut', 'true', 'false', 'Type', 'Prop', 'Sort', 's', 'deriving', 'local'}


class TranslationError(Exception):
    def __init__(self, file, func, line, msg):
        self.file, self.func, self.line, self.msg = file, func, line, msg
        super().__init__('%s: %s: line %s: %s' % (file, func, line, msg))


# --------------------------------------------------------------------------- values
class V:
    """A translated Python expression: kind, Lean term, guards (Bool terms that must hold for the
    Python expression to evaluate to a finite number without raising)."""
    def __init__(self, kind, code, guards=(), const=None, length=None, extra=None):
        self.kind, self.code, self.guards = kind, code, list(guards)
        self.const, self.length, self.extra = const, length, extra


def rat_lit(fr):
    fr = Fraction(fr)
    if fr < 0:
        return '(-(%s))' % rat_lit(-fr)
    return '%d' % fr.numerator if fr.denominator == 1 else '(%d/%d)' % (fr.numerator, fr.denominator)


def frac_of_number(v):
    """exact decimal reading of a Python numeric literal"""
    if isinstance(v, bool):
        raise ValueError
    if isinstance(v, int):
        return Fraction(v)
    return Fraction(repr(v))


def num_lit(fr):
    fr = Fraction(fr)
    if fr < 0:
        return '(CostNum.neg (CostNum.ofRat %s))' % rat_lit(-fr)
    return '(CostNum.ofRat %s)' % rat_lit(fr)


def lean_name(n):
    if n in LEAN_KEYWORDS or n == '_':
        return n + '_'
    return n


# --------------------------------------------------------------------------- statement trees
# ('let', name, code, body) ('guard', code, body) ('if', cond, a, b) ('ret', code) ('fail',)
def render_val(t, ind):
    k = t[0]
    if k == 'let':
        return '%slet %s := %s\n%s' % (ind, t[1], t[2], render_val(t[3], ind))
    if k == 'guard':
        return render_val(t[2], ind)
    if k == 'if':
        return '%sif %s then\n%s\n%selse\n%s' % (ind, t[1], render_val(t[2], ind + '  '), ind,
                                                  render_val(t[3], ind + '  '))
    if k == 'ret':
        return ind + t[1]
    if k == 'fail':
        return ind + '(CostNum.ofRat 0)'
    raise AssertionError(k)


def ok_tree(t):
    """reduce a statement tree to its guard tree; returns True/False or a tree"""
    k = t[0]
    if k == 'let':
        b = ok_tree(t[3])
        return b if isinstance(b, bool) else ('let', t[1], t[2], b)
    if k == 'guard':
        b = ok_tree(t[2])
        if b is False:
            return False
        return ('guard', t[1], b)
    if k == 'if':
        a, b = ok_tree(t[2]), ok_tree(t[3])
        if a is True and b is True:
            return True
        if a is False and b is False:
            return False
        return ('if', t[1], a, b)
    if k == 'ret':
        return True
    if k == 'fail':
        return False
    raise AssertionError(k)


def render_ok(t, ind):
    if t is True:
        return ind + 'true'
    if t is False:
        return ind + 'false'
    k = t[0]
    if k == 'let':
        return '%slet %s := %s\n%s' % (ind, t[1], t[2], render_ok(t[3], ind))
    if k == 'guard':
        if t[2] is True:
            return ind + t[1]
        return '%s%s && (\n%s)' % (ind, t[1], render_ok(t[2], ind + '  '))
    if k == 'if':
        return '%sif %s then\n%s\n%selse\n%s' % (ind, t[1], render_ok(t[2], ind + '  '), ind,
                                                  render_ok(t[3], ind + '  '))
    raise AssertionError(k)


def terminates(stmts):
    if not stmts:
        return False
    last = stmts[-1]
    if isinstance(last, (ast.Return, ast.Raise)):
        return True
    if isinstance(last, ast.If):
        return terminates(last.body) and bool(last.orelse) and terminates(last.orelse)
    return False


# --------------------------------------------------------------------------- module table
class Module:
    def __init__(self, root, relpath):
        self.relpath = relpath
        self.name = os.path.basename(relpath)[:-3]
        self.path = os.path.join(root, relpath)
        self.src = open(self.path).read()
        try:
            self.tree = ast.parse(self.src)
        except SyntaxError as e:
            raise TranslationError(relpath, '<module>', e.lineno, 'syntax error: %s' % e.msg)
        self.funcs, self.classes, self.imports = {}, {}, {}
        for st in self.tree.body:
            if isinstance(st, ast.FunctionDef):
                self.funcs[st.name] = st
            elif isinstance(st, ast.ClassDef):
                self.classes[st.name] = st
            elif isinstance(st, ast.ImportFrom) and st.level == 1 and st.module:
                for a in st.names:
                    self.imports[a.asname or a.name] = (st.module, a.name)

    def is_ste(self, cname):
        c = self.classes.get(cname)
        return c is not None and any(ast.unparse(b).endswith('autograd.Function') for b in c.bases)

    def segment(self, node):
        return ast.get_source_segment(self.src, node) or ''


def fn_signature(fdef, skip_first=0):
    """[(name, default-node-or-None)]"""
    args = fdef.args.args[skip_first:]
    defaults = [None] * (len(args) - len(fdef.args.defaults)) + list(fdef.args.defaults)
    return [(a.arg, d) for a, d in zip(args, defaults)]


def is_spec_param(name):
    return name == 'spec' or name.endswith('_spec')


# --------------------------------------------------------------------------- function translator
class FnTr:
    def __init__(self, ctx, mod, fname, line0):
        self.ctx, self.mod, self.fname, self.line0 = ctx, mod, fname, line0
        self.deps = set()            # (module, function) / (module, class) referenced
        self.tables = []             # (lean name, lean code) of look-up tables to emit first
        self.saved = None            # expressions given to ctx.save_for_backward (forward)
        self.saved_in = None         # for backward: list of V bound to ctx.saved_tensors
        self.tmp = 0

    def err(self, node, msg):
        raise TranslationError(self.mod.relpath, self.fname, getattr(node, 'lineno', self.line0), msg)

    # ---- pure rational constant expressions (table entries)
    def const_rat(self, e):
        if isinstance(e, ast.Constant) and isinstance(e.value, (int, float)) and not isinstance(e.value, bool):
            return '(%s : Rat)' % rat_lit(frac_of_number(e.value))
        if isinstance(e, ast.UnaryOp) and isinstance(e.op, ast.USub):
            return '(-%s)' % self.const_rat(e.operand)
        if isinstance(e, ast.BinOp) and type(e.op) in (ast.Add, ast.Sub, ast.Mult, ast.Div):
            op = {ast.Add: '+', ast.Sub: '-', ast.Mult: '*', ast.Div: '/'}[type(e.op)]
            return '(%s %s %s)' % (self.const_rat(e.left), op, self.const_rat(e.right))
        self.err(e, 'table entry is not a constant arithmetic expression: %s' % ast.unparse(e)[:60])

    def const_key(self, e):
        if isinstance(e, ast.Constant) and isinstance(e.value, (int, float)) and not isinstance(e.value, bool):
            return '(%s : Rat)' % rat_lit(frac_of_number(e.value))
        self.err(e, 'table key is not a number')

    # ---- conditions
    def as_bool(self, v, node):
        if v.kind == 'bool':
            return v
        if v.kind == 'num':     # truthiness of a number
            return V('bool', '(CostNum.nz %s)' % v.code, v.guards)
        self.err(node, 'expression of kind %s used as a condition' % v.kind)

    def as_num(self, v, node):
        if v.kind == 'num':
            return v
        if v.kind == 'bool':
            return V('num', '(CostNum.ofBool %s)' % v.code, v.guards)
        self.err(node, 'expression of kind %s used as a number: %s' % (v.kind, ast.unparse(node)[:60]))

    def compare(self, op, l, r, node):
        l, r = self.as_num(l, node), self.as_num(r, node)
        g = l.guards + r.guards
        a, b = l.code, r.code
        t = {ast.Eq: '(CostNum.eqv %s %s)' % (a, b), ast.NotEq: '(CostNum.nev %s %s)' % (a, b),
             ast.Lt: '(CostNum.ltv %s %s)' % (a, b), ast.LtE: '(CostNum.lev %s %s)' % (a, b),
             ast.Gt: '(CostNum.ltv %s %s)' % (b, a), ast.GtE: '(CostNum.lev %s %s)' % (b, a)}.get(type(op))
        if t is None:
            self.err(node, 'comparison operator %s' % type(op).__name__)
        return V('bool', t, g)

    # ---- expressions
    def expr(self, e, env):
        if isinstance(e, ast.Constant):
            v = e.value
            if isinstance(v, bool):
                return V('bool', 'true' if v else 'false')
            if isinstance(v, (int, float)):
                fr = frac_of_number(v)
                return V('num', num_lit(fr), const=fr)
            if isinstance(v, str):
                return V('str', '"%s"' % v.replace('\\', '\\\\').replace('"', '\\"'))
            if v is None:
                return V('none', 'none')
            self.err(e, 'constant %r' % (v,))
        if isinstance(e, ast.JoinedStr):
            return V('str', None)
        if isinstance(e, ast.Name):
            if e.id in env:
                return env[e.id]
            self.err(e, 'unknown name %r' % e.id)
        if isinstance(e, ast.BinOp):
            l, r = self.expr(e.left, env), self.expr(e.right, env)
            if isinstance(e.op, ast.Add) and l.kind == 'list' and r.kind == 'list':
                ln = l.length + r.length if l.length is not None and r.length is not None else None
                return V('list', '(%s ++ %s)' % (l.code, r.code), l.guards + r.guards, length=ln)
            l, r = self.as_num(l, e), self.as_num(r, e)
            g = l.guards + r.guards
            sym = {ast.Add: '+ᶜ', ast.Sub: '-ᶜ', ast.Mult: '*ᶜ', ast.Div: '/ᶜ', ast.FloorDiv: '//ᶜ',
                   ast.Mod: '%ᶜ'}.get(type(e.op))
            if sym is None:
                self.err(e, 'binary operator %s' % type(e.op).__name__)
            const = None
            if l.const is not None and r.const is not None:
                try:
                    const = {ast.Add: lambda a, b: a + b, ast.Sub: lambda a, b: a - b,
                             ast.Mult: lambda a, b: a * b, ast.Div: lambda a, b: a / b}.get(
                                 type(e.op), lambda a, b: None)(l.const, r.const)
                except ZeroDivisionError:
                    const = None
            if isinstance(e.op, (ast.Div, ast.FloorDiv, ast.Mod)) and not (r.const is not None and r.const != 0):
                g = g + ['(CostNum.nz %s)' % r.code]
            return V('num', '(%s %s %s)' % (l.code, sym, r.code), g, const=const)
        if isinstance(e, ast.UnaryOp):
            if isinstance(e.op, ast.USub):
                v = self.as_num(self.expr(e.operand, env), e)
                return V('num', '(CostNum.neg %s)' % v.code, v.guards, const=None if v.const is None else -v.const)
            if isinstance(e.op, ast.Not):
                v = self.as_bool(self.expr(e.operand, env), e)
                return V('bool', '(!%s)' % v.code, v.guards)
            self.err(e, 'unary operator')
        if isinstance(e, ast.BoolOp):
            vs = [self.as_bool(self.expr(x, env), e) for x in e.values]
            op = ' && ' if isinstance(e.op, ast.And) else ' || '
            # Python short-circuits: guards of later operands only matter when they are evaluated
            code, guards = vs[0].code, list(vs[0].guards)
            for v in vs[1:]:
                for gd in v.guards:
                    guards.append('(%s%s || %s)' % ('!' if isinstance(e.op, ast.And) else '', code, gd))
                code = '(%s%s%s)' % (code, op, v.code)
            return V('bool', code, guards)
        if isinstance(e, ast.Compare):
            if len(e.ops) != 1:
                self.err(e, 'chained comparison')
            op, le, re_ = e.ops[0], e.left, e.comparators[0]
            if isinstance(op, (ast.Is, ast.IsNot)):
                if not (isinstance(re_, ast.Constant) and re_.value is None):
                    self.err(e, '`is` with something else than None')
                l = self.expr(le, env)
                if l.kind == 'optflag':
                    return V('bool', l.code if isinstance(op, ast.IsNot) else '(!%s)' % l.code, l.guards)
                self.err(e, '`is None` on an expression that is not a modelled optional')
            if isinstance(op, (ast.In, ast.NotIn)):
                if isinstance(le, ast.Constant) and isinstance(le.value, str):
                    r = self.expr(re_, env)
                    if r.kind == 'spec' and le.value in PRESENCE_FLAGS:
                        c = '%s.%s' % (r.code, PRESENCE_FLAGS[le.value])
                        return V('bool', c if isinstance(op, ast.In) else '(!%s)' % c)
                    if r.kind == 'newspec':
                        c = 'true' if le.value in r.extra else 'false'
                        return V('bool', c if isinstance(op, ast.In) else '(!%s)' % c)
                    self.err(e, 'key-presence test on %r is not modelled' % le.value)
                if isinstance(re_, (ast.List, ast.Tuple)):
                    l = self.as_num(self.expr(le, env), e)
                    ks = [self.const_key(x)[1:-7] for x in re_.elts]   # strip "( : Rat)"
                    c = '(CostNum.memRat %s [%s])' % (l.code, ', '.join(ks))
                    return V('bool', c if isinstance(op, ast.In) else '(!%s)' % c, l.guards)
                self.err(e, '`in` with a non-literal container')
            return self.compare(op, self.expr(le, env), self.expr(re_, env), e)
        if isinstance(e, ast.IfExp):
            c = self.as_bool(self.expr(e.test, env), e)
            a, b = self.expr(e.body, env), self.expr(e.orelse, env)
            if a.kind == 'bool' and b.kind == 'bool':
                kind = 'bool'
            elif a.kind == 'list' and b.kind == 'list':
                kind = 'list'
            else:
                a, b = self.as_num(a, e), self.as_num(b, e)
                kind = 'num'
            g = list(c.guards)
            g += ['(!%s || %s)' % (c.code, x) for x in a.guards] + ['(%s || %s)' % (c.code, x) for x in b.guards]
            ln = a.length if kind == 'list' and a.length == b.length else None
            return V(kind, '(if %s then %s else %s)' % (c.code, a.code, b.code), g, length=ln)
        if isinstance(e, (ast.Tuple, ast.List)):
            vs = [self.expr(x, env) for x in e.elts]
            if any(v.kind == 'none' for v in vs):       # gradient tuple of a backward
                items = ['none' if v.kind == 'none' else '(some %s)' % self.as_num(v, e).code for v in vs]
                return V('optlist', '[%s]' % ', '.join(items), sum((v.guards for v in vs), []), length=len(vs))
            vs = [self.as_num(v, e) for v in vs]
            return V('list', '[%s]' % ', '.join(v.code for v in vs), sum((v.guards for v in vs), []),
                     length=len(vs))
        if isinstance(e, ast.Subscript):
            return self.subscript(e, env)
        if isinstance(e, ast.Attribute):
            if e.attr == 'data':
                return self.expr(e.value, env)
            if e.attr == 'saved_tensors' and isinstance(e.value, ast.Name) and e.value.id == 'ctx':
                if self.saved_in is None:
                    self.err(e, 'ctx.saved_tensors outside a backward, or forward saved nothing')
                return V('list', '[%s]' % ', '.join(v.code for v in self.saved_in), length=len(self.saved_in))
            if e.attr == 'device':
                return V('str', None)
            self.err(e, 'attribute %s' % ast.unparse(e)[:60])
        if isinstance(e, ast.Call):
            return self.call(e, env)
        self.err(e, 'expression %s' % type(e).__name__)

    def subscript(self, e, env):
        base = self.expr(e.value, env)
        sl = e.slice
        if base.kind in ('spec', 'newspec'):
            if not (isinstance(sl, ast.Constant) and isinstance(sl.value, str)):
                self.err(e, 'layer description indexed by a non-literal key')
            key = sl.value
            if base.kind == 'newspec':
                if key not in base.extra:
                    self.err(e, 'key %r read from a dictionary that does not have it' % key)
                return base.extra[key]
            if key in NUM_KEYS:
                return V('num', '%s.%s' % (base.code, key))
            if key in LIST_KEYS:
                return V('list', '%s.%s' % (base.code, key))
            if key == '_parameters':
                return V('paramdict', base.code)
            self.err(e, 'layer-description key %r is not modelled' % key)
        if base.kind == 'paramdict':
            if isinstance(sl, ast.Constant) and sl.value == 'bias':
                return V('optflag', '%s.hasBias' % base.code)
            self.err(e, "only spec['_parameters']['bias'] is modelled")
        if base.kind == 'dict':
            k = self.as_num(self.expr(sl, env), e)
            return V('dictrow', base.code, k.guards, extra=k.code)
        if base.kind == 'dictrow':
            k = self.as_num(self.expr(sl, env), e)
            return V('num', '(CostNum.lut2 %s %s %s)' % (base.code, base.extra, k.code),
                     base.guards + k.guards + ['(CostNum.lut2ok %s %s %s)' % (base.code, base.extra, k.code)])
        if base.kind == 'list':
            if isinstance(sl, ast.Constant) and isinstance(sl.value, int) and not isinstance(sl.value, bool) and sl.value >= 0:
                g = list(base.guards)
                if base.length is None:
                    g.append('(decide (%d < %s.length))' % (sl.value, base.code))
                elif sl.value >= base.length:
                    self.err(e, 'constant index %d out of range' % sl.value)
                return V('num', '(CostNum.idx %s %d)' % (base.code, sl.value), g)
            if isinstance(sl, ast.Slice) and sl.upper is None and sl.step is None and \
                    isinstance(sl.lower, ast.Constant) and isinstance(sl.lower.value, int) and sl.lower.value >= 0:
                ln = None if base.length is None else max(0, base.length - sl.lower.value)
                return V('list', '(%s.drop %d)' % (base.code, sl.lower.value), base.guards, length=ln)
            self.err(e, 'list index/slice %s' % ast.unparse(sl)[:40])
        self.err(e, 'subscript on an expression of kind %s' % base.kind)

    IDENTITY_CALLS = {'torch.as_tensor', 'torch.tensor', 'float', 'int'}
    IDENTITY_METHODS = {'item', 'float', 'clone', 'detach', 'double'}

    def call(self, e, env):
        fn = ast.unparse(e.func)
        args = e.args
        # methods on translated values
        if isinstance(e.func, ast.Attribute):
            meth = e.func.attr
            if meth in self.IDENTITY_METHODS and not args and not fn.startswith(('torch.', 'math.')):
                v = self.expr(e.func.value, env)
                return self.as_num(v, e) if v.kind in ('num', 'bool') else self.err(e, '.%s() on %s' % (meth, v.kind))
            if meth == 'mean' and not args:
                v = self.expr(e.func.value, env)
                if v.kind != 'list':
                    self.err(e, '.mean() of something that is not a literal vector')
                return V('num', '(CostNum.mean %s)' % v.code, v.guards + (['(decide (0 < %s.length))' % v.code] if v.length is None else []))
            if meth in ('le', 'lt', 'ge', 'gt', 'eq', 'ne') and len(args) == 1 and not fn.startswith(('torch.', 'math.')):
                op = {'le': ast.LtE, 'lt': ast.Lt, 'ge': ast.GtE, 'gt': ast.Gt, 'eq': ast.Eq, 'ne': ast.NotEq}[meth]()
                return self.compare(op, self.expr(e.func.value, env), self.expr(args[0], env), e)
            if meth == 'apply' and isinstance(e.func.value, ast.Name):
                return self.ste_apply(e, env)
        if fn in self.IDENTITY_CALLS and len(args) >= 1:
            v = self.expr(args[0], env)
            if v.kind == 'list':
                return v
            return self.as_num(v, e)
        if fn in ('math.floor', 'torch.floor') and len(args) == 1:
            v = self.as_num(self.expr(args[0], env), e)
            return V('num', '(CostNum.floor %s)' % v.code, v.guards)
        if fn in ('abs', 'torch.abs', 'math.fabs') and len(args) == 1:
            v = self.as_num(self.expr(args[0], env), e)
            return V('num', '(CostNum.abs %s)' % v.code, v.guards)
        if fn == 'torch.floor_divide' and len(args) == 2:
            a, b = (self.as_num(self.expr(x, env), e) for x in args)
            g = a.guards + b.guards + ([] if (b.const is not None and b.const != 0) else ['(CostNum.nz %s)' % b.code])
            return V('num', '(%s //ᶜ %s)' % (a.code, b.code), g)
        if fn in ('max', 'torch.maximum', 'torch.max', 'min', 'torch.minimum', 'torch.min') and len(args) == 2 \
                and not e.keywords:
            a, b = (self.as_num(self.expr(x, env), e) for x in args)
            op = 'max' if 'max' in fn else 'min'
            return V('num', '(CostNum.%s %s %s)' % (op, a.code, b.code), a.guards + b.guards)
        if fn == 'tuple' and len(args) == 1:
            v = self.expr(args[0], env)
            if v.kind == 'list':
                return v
        # module-level functions (this module or imported from a sibling module)
        if isinstance(e.func, ast.Name):
            tgt = None
            if e.func.id in self.mod.funcs:
                tgt = (self.mod.name, e.func.id)
            elif e.func.id in self.mod.imports:
                tgt = self.mod.imports[e.func.id]
            if tgt is not None:
                return self.call_function(tgt, e, env)
        self.err(e, 'call to %s is outside the translated subset' % fn[:60])

    def bind_args(self, sig, e, env, what):
        """positional + keyword + default arguments -> list of V in signature order"""
        out = {}
        if len(e.args) > len(sig):
            self.err(e, 'too many arguments for %s' % what)
        for (name, _), a in zip(sig, e.args):
            out[name] = self.expr(a, env)
        for kw in e.keywords:
            if kw.arg is None or kw.arg not in [n for n, _ in sig] or kw.arg in out:
                self.err(e, 'keyword argument %r for %s' % (kw.arg, what))
            out[kw.arg] = self.expr(kw.value, env)
        res = []
        for name, default in sig:
            if name in out:
                res.append(out[name])
            elif default is not None:
                res.append(self.expr(default, {}))
            else:
                self.err(e, 'missing argument %r for %s' % (name, what))
        return res

    def spec_code(self, v, node):
        if v.kind == 'spec':
            return v.code
        if v.kind == 'newspec':
            fields = []
            for k, x in v.extra.items():
                if k in NUM_KEYS:
                    fields.append('%s := %s' % (k, self.as_num(x, node).code))
                    if k in PRESENCE_FLAGS:
                        fields.append('%s := true' % PRESENCE_FLAGS[k])
                elif k in LIST_KEYS:
                    if x.kind != 'list':
                        self.err(node, 'key %r must hold a tuple' % k)
                    fields.append('%s := %s' % (k, x.code))
                else:
                    self.err(node, 'layer-description key %r is not modelled' % k)
            return '({ (LSpec.empty : LSpec α) with %s })' % ', '.join(fields) if fields else '(LSpec.empty : LSpec α)'
        self.err(node, 'argument of kind %s where a layer description is expected' % v.kind)

    def call_function(self, tgt, e, env):
        mname, fname = tgt
        if tgt in HAND_FUNCS:
            h = HAND_FUNCS[tgt]
            vs = self.bind_args([(n, None) for n, _ in h['params']], e, env, fname)
            codes, guards = [], []
            for (pname, kind), v in zip(h['params'], vs):
                if kind == 'num':
                    v = self.as_num(v, e)
                elif kind == 'bool':
                    v = self.as_bool(v, e)
                elif v.kind != kind or v.code is None:
                    self.err(e, 'argument %r of %s must be of kind %s' % (pname, fname, kind))
                codes.append(v.code)
                guards += v.guards
            self.deps.add(('HAND',) + tgt)
            a = ' '.join(codes)
            return V(h['ret'][0], '(%s %s)' % (h['val'], a), guards + ['(%s %s)' % (h['ok'], a)], length=h['ret'][1])
        m = self.ctx.modules.get(mname)
        if m is None or fname not in m.funcs:
            self.err(e, 'call to %s.%s which is not a translated function' % tgt)
        fdef = m.funcs[fname]
        sig = fn_signature(fdef)
        vs = self.bind_args(sig, e, env, fname)
        codes, guards = [], []
        for (pname, _), v in zip(sig, vs):
            if is_spec_param(pname):
                codes.append(self.spec_code(v, e))
            else:
                codes.append(self.as_num(v, e).code)
            guards += v.guards
        self.deps.add(tgt)
        a = ' '.join(codes)
        return V('num', '(Gen.%s.%s.val %s)' % (mname, fname, a), guards + ['(Gen.%s.%s.ok %s)' % (mname, fname, a)])

    def ste_apply(self, e, env):
        cname = e.func.value.id
        if cname in self.mod.classes and self.mod.is_ste(cname):
            tgt = (self.mod.name, cname)
        elif cname in self.mod.imports and self.ctx.modules.get(self.mod.imports[cname][0]) is not None \
                and self.ctx.modules[self.mod.imports[cname][0]].is_ste(self.mod.imports[cname][1]):
            tgt = self.mod.imports[cname]
        else:
            self.err(e, '%s.apply: %s is not a torch.autograd.Function of a translated module' % (cname, cname))
        m = self.ctx.modules[tgt[0]]
        fwd = [f for f in m.classes[tgt[1]].body if isinstance(f, ast.FunctionDef) and f.name == 'forward']
        if not fwd:
            self.err(e, 'class %s has no forward' % cname)
        sig = fn_signature(fwd[0], skip_first=1)
        if e.keywords:
            self.err(e, 'keyword arguments in %s.apply' % cname)
        vs = [self.as_num(v, e) for v in self.bind_args(sig, e, env, cname + '.apply')]
        guards = sum((v.guards for v in vs), [])
        self.deps.add(('STE',) + tgt)
        q = 'Gen.%s.%s' % tgt
        lst = '[%s]' % ', '.join(v.code for v in vs)
        if tgt in HAND_FORWARD:
            code = '(CostNum.ste "%s" %s %s.bwdL %s)' % (tgt[1], HAND_FORWARD[tgt], q, lst)
        else:
            code = '(CostNum.ste "%s" %s.fwdL %s.bwdL %s)' % (tgt[1], q, q, lst)
            guards.append('(%s.forward.ok %s)' % (q, ' '.join(v.code for v in vs)))
        return V('num', code, guards)

    # ---- statements
    def fresh(self, base):
        self.tmp += 1
        return '%s_%d' % (base, self.tmp)

    def wrap_guards(self, guards, tree):
        for g in reversed(guards):
            tree = ('guard', g, tree)
        return tree

    def block(self, stmts, env, ret_kind):
        if not stmts:
            raise TranslationError(self.mod.relpath, self.fname, self.line0,
                                   'a path through the function ends without `return`')
        st, rest = stmts[0], stmts[1:]
        if isinstance(st, ast.Expr) and isinstance(st.value, ast.Constant) and isinstance(st.value.value, str):
            return self.block(rest, env, ret_kind)                       # docstring
        if isinstance(st, ast.Pass):
            return self.block(rest, env, ret_kind)
        if isinstance(st, ast.Return):
            if st.value is None:
                self.err(st, 'bare return')
            v = self.expr(st.value, env)
            if ret_kind == 'num':
                v = self.as_num(v, st)
            elif ret_kind == 'optlist':
                if v.kind == 'num':
                    v = V('optlist', '[some %s]' % v.code, v.guards, length=1)
                elif v.kind == 'list':
                    v = V('optlist', '(%s.map some)' % v.code, v.guards, length=v.length)
                elif v.kind != 'optlist':
                    self.err(st, 'backward must return a tuple of gradients')
            return self.wrap_guards(v.guards, ('ret', v.code))
        if isinstance(st, ast.Raise):
            return ('fail',)
        if isinstance(st, ast.Assert):
            c = self.as_bool(self.expr(st.test, env), st)
            return self.wrap_guards(c.guards + [c.code], self.block(rest, env, ret_kind))
        if isinstance(st, ast.If):
            c = self.as_bool(self.expr(st.test, env), st)
            ta, tb = terminates(st.body), bool(st.orelse) and terminates(st.orelse)
            a = self.block(list(st.body) + ([] if ta else rest), dict(env), ret_kind)
            b = self.block(list(st.orelse) + ([] if tb else rest), dict(env), ret_kind)
            return self.wrap_guards(c.guards, ('if', c.code, a, b))
        if isinstance(st, ast.AugAssign):
            if not isinstance(st.target, ast.Name):
                self.err(st, 'augmented assignment to a non-name')
            st = ast.copy_location(ast.Assign(targets=[st.target], value=ast.copy_location(
                ast.BinOp(left=ast.Name(id=st.target.id, ctx=ast.Load()), op=st.op, right=st.value), st)), st)
        if isinstance(st, ast.Assign):
            if len(st.targets) != 1:
                self.err(st, 'chained assignment')
            tgt = st.targets[0]
            # fresh dictionary `x = {}` and `x['key'] = value`
            if isinstance(tgt, ast.Name) and isinstance(st.value, ast.Dict) and not st.value.keys:
                env = dict(env)
                env[tgt.id] = V('newspec', None, extra={})
                return self.block(rest, env, ret_kind)
            if isinstance(tgt, ast.Subscript) and isinstance(tgt.value, ast.Name) and \
                    tgt.value.id in env and env[tgt.value.id].kind == 'newspec':
                if not (isinstance(tgt.slice, ast.Constant) and isinstance(tgt.slice.value, str)):
                    self.err(st, 'dictionary key must be a string literal')
                v = self.expr(st.value, env)
                name = lean_name(self.fresh(tgt.value.id + '_' + tgt.slice.value))
                env = dict(env)
                d = dict(env[tgt.value.id].extra)
                d[tgt.slice.value] = V(v.kind, name, length=v.length)
                env[tgt.value.id] = V('newspec', None, extra=d)
                if v.kind not in ('num', 'list'):
                    self.err(st, 'dictionary value of kind %s' % v.kind)
                return self.wrap_guards(v.guards, ('let', name, v.code, self.block(rest, env, ret_kind)))
            # look-up table literal
            if isinstance(tgt, ast.Name) and isinstance(st.value, ast.Dict):
                rows = []
                for k, row in zip(st.value.keys, st.value.values):
                    if not isinstance(row, ast.Dict):
                        self.err(st, 'only two-level tables of numbers are supported')
                    ents = ', '.join('(%s, %s)' % (self.const_key(k2), self.const_rat(v2))
                                     for k2, v2 in zip(row.keys, row.values))
                    rows.append('(%s, [%s])' % (self.const_key(k), ents))
                tname = 'Gen.%s.%s.%s' % (self.mod.name, self.fname, tgt.id)
                self.tables.append((tname, 'def %s : List (Rat × List (Rat × Rat)) :=\n  [%s]'
                                    % (tname.split('.', 2)[2], ',\n   '.join(rows))))
                env = dict(env)
                env[tgt.id] = V('dict', tname)
                return self.block(rest, env, ret_kind)
            v = self.expr(st.value, env)
            if isinstance(tgt, ast.Name):
                env = dict(env)
                if v.kind in ('str', 'none', 'optflag', 'paramdict', 'spec', 'newspec', 'dict'):
                    env[tgt.id] = v
                    return self.wrap_guards(v.guards, self.block(rest, env, ret_kind))
                if v.kind not in ('num', 'list', 'bool'):
                    self.err(st, 'assignment of a value of kind %s' % v.kind)
                name = lean_name(tgt.id)
                env[tgt.id] = V(v.kind, name, const=v.const if v.kind == 'num' else None, length=v.length)
                return self.wrap_guards(v.guards, ('let', name, v.code, self.block(rest, env, ret_kind)))
            if isinstance(tgt, (ast.Tuple, ast.List)):
                if v.kind != 'list':
                    self.err(st, 'tuple-unpacking of a value of kind %s' % v.kind)
                n = len(tgt.elts)
                guards = list(v.guards)
                if v.length is None:
                    guards.append('(decide (%s.length = %d))' % (v.code, n))
                elif v.length != n:
                    self.err(st, 'tuple-unpacking %d values into %d names' % (v.length, n))
                tmp = lean_name(self.fresh('t'))
                env = dict(env)
                inner_lets = []
                for i, t in enumerate(tgt.elts):
                    if not isinstance(t, ast.Name):
                        self.err(st, 'nested unpacking target')
                    if t.id == '_':
                        continue
                    name = lean_name(t.id)
                    env[t.id] = V('num', name)
                    inner_lets.append((name, '(CostNum.idx %s %d)' % (tmp, i)))
                body = self.block(rest, env, ret_kind)
                for name, code in reversed(inner_lets):
                    body = ('let', name, code, body)
                return self.wrap_guards(guards, ('let', tmp, v.code, body))
            self.err(st, 'assignment target %s' % type(tgt).__name__)
        if isinstance(st, ast.Expr) and isinstance(st.value, ast.Call) and isinstance(st.value.func, ast.Attribute):
            c = st.value
            recv, meth = c.func.value, c.func.attr
            if isinstance(recv, ast.Name) and recv.id == 'ctx' and meth == 'save_for_backward':
                self.saved = [self.as_num(self.expr(a, env), st) for a in c.args]
                return self.block(rest, env, ret_kind)
            if meth == 'masked_fill_' and isinstance(recv, ast.Name) and recv.id in env and len(c.args) == 2:
                cur = self.as_num(env[recv.id], st)
                cond = self.as_bool(self.expr(c.args[0], env), st)
                val = self.as_num(self.expr(c.args[1], env), st)
                name = lean_name(recv.id)
                env = dict(env)
                env[recv.id] = V('num', name)
                return self.wrap_guards(cond.guards + val.guards,
                                        ('let', name, '(if %s then %s else %s)' % (cond.code, val.code, cur.code),
                                         self.block(rest, env, ret_kind)))
        self.err(st, 'statement %s is outside the translated subset: %s'
                 % (type(st).__name__, ast.unparse(st).splitlines()[0][:70]))


# --------------------------------------------------------------------------- emitted items
class Item:
    """one generated definition group (a function, an STE class, ...)"""
    def __init__(self, key, namespace, code, deps, error=None):
        self.key, self.namespace, self.code, self.deps, self.error = key, namespace, code, deps, error


HEADER = '''/-
GENERATED by /verif/translator/py2lean.py from the Python sources of plinio -- DO NOT EDIT.
Regenerated on every run of the checks that depend on it (harness/regen.py).
source tree digest of the translated files: %s
-/
'''


class Context:
    def __init__(self, root):
        self.root = root
        self.modules = {}
        self.errors = []       # TranslationError
        self.module_errors = []
        for m in COST_MODULES:
            rel = os.path.join('plinio', 'cost', m + '.py')
            try:
                self.modules[m] = Module(root, rel)
            except (TranslationError, OSError) as ex:
                if isinstance(ex, OSError):
                    ex = TranslationError(rel, '<module>', 0, 'cannot read: %s' % ex)
                self.module_errors.append(ex)
        self.patterns = self.read_patterns()

    def read_patterns(self):
        out = {}
        rel = os.path.join('plinio', 'cost', 'pattern.py')
        try:
            tree = ast.parse(open(os.path.join(self.root, rel)).read())
        except (OSError, SyntaxError) as ex:
            self.module_errors.append(TranslationError(rel, '<module>', 0, 'cannot read patterns: %s' % ex))
            return out
        for st in tree.body:
            if isinstance(st, ast.Assign) and len(st.targets) == 1 and isinstance(st.targets[0], ast.Name) \
                    and isinstance(st.value, ast.Tuple) and len(st.value.elts) == 2:
                lt, c = st.value.elts
                if isinstance(lt, ast.Attribute):
                    cn = '' if (isinstance(c, ast.Constant) and c.value is None) else ast.unparse(c)
                    out[st.targets[0].id] = (lt.attr, cn)
        return out

    def digest(self, rels):
        h = hashlib.sha256()
        for r in sorted(rels):
            try:
                h.update(open(os.path.join(self.root, r), 'rb').read())
            except OSError:
                h.update(b'<missing>')
        return h.hexdigest()[:16]

    # ---- cost functions
    def translate_function(self, mod, fdef):
        sig = fn_signature(fdef)
        key = (mod.name, fdef.name)
        params = ' '.join('(%s : %s)' % ('s' if is_spec_param(n) else lean_name(n),
                                         'LSpec α' if is_spec_param(n) else 'α') for n, _ in sig)
        q = fdef.name
        doc = '/-- `%s:%d` `%s` -/' % (mod.relpath, fdef.lineno, fdef.name)
        tr = FnTr(self, mod, fdef.name, fdef.lineno)
        try:
            env = {}
            nspec = 0
            for n, _ in sig:
                if is_spec_param(n):
                    env[n] = V('spec', 's')
                    nspec += 1
                else:
                    env[n] = V('num', lean_name(n))
            if nspec > 1:
                tr.err(fdef, 'more than one layer-description parameter')
            tree = tr.block(list(fdef.body), env, 'num')
            code = ''.join(c + '\n' for _, c in tr.tables)
            code += '%s\ndef %s.val %s : α :=\n%s\n' % (doc, q, params, render_val(tree, '  '))
            code += 'def %s.ok %s : Bool :=\n%s\n' % (q, params, render_ok(ok_tree(tree), '  '))
            return Item(key, mod.name, code, tr.deps)
        except TranslationError as ex:
            self.errors.append(ex)
            code = '%s\n-- NOT TRANSLATED: %s\ndef %s.val %s : α := CostNum.ofRat 0\ndef %s.ok %s : Bool := false\n' \
                   % (doc, str(ex).replace('\n', ' '), q, params, q, params)
            return Item(key, mod.name, code, set(), error=ex)

    # ---- autograd.Function classes
    def translate_ste(self, mod, cdef):
        key = ('STE', mod.name, cdef.name)
        meths = {f.name: f for f in cdef.body if isinstance(f, ast.FunctionDef)}
        out, deps, err = '', set(), None
        fwd, bwd = meths.get('forward'), meths.get('backward')
        q = cdef.name
        if fwd is None or bwd is None:
            ex = TranslationError(mod.relpath, cdef.name, cdef.lineno, 'autograd.Function without forward/backward')
            self.errors.append(ex)
            return Item(key, mod.name, '-- NOT TRANSLATED: %s\n' % ex, set(), error=ex)
        sig = fn_signature(fwd, skip_first=1)
        names = [lean_name(n) for n, _ in sig]
        params = ' '.join('(%s : α)' % n for n in names)
        getl = ' '.join('(l.getD %d 0)' % i for i in range(len(names)))
        saved = None
        hand = (mod.name, cdef.name) in HAND_FORWARD
        if not hand:
            tr = FnTr(self, mod, cdef.name + '.forward', fwd.lineno)
            try:
                env = {n: V('num', lean_name(n)) for n, _ in sig}
                tree = tr.block(list(fwd.body), env, 'num')
                if tr.deps or tr.tables:
                    tr.err(fwd, 'forward of an autograd.Function may only use arithmetic primitives')
                for v in (tr.saved or []):
                    if v.code not in names:
                        tr.err(fwd, 'ctx.save_for_backward of something that is not an input')
                saved = tr.saved
                out += '/-- `%s:%d` `%s.forward` -/\ndef %s.forward.val %s : α :=\n%s\n' % (
                    mod.relpath, fwd.lineno, cdef.name, q, params, render_val(tree, '  '))
                out += 'def %s.forward.ok %s : Bool :=\n%s\n' % (q, params, render_ok(ok_tree(tree), '  '))
            except TranslationError as ex:
                self.errors.append(ex)
                err = ex
                out += '-- NOT TRANSLATED: %s\ndef %s.forward.val %s : α := CostNum.ofRat 0\ndef %s.forward.ok %s : Bool := false\n' % (
                    str(ex).replace('\n', ' '), q, params, q, params)
            out += 'def %s.fwdL (l : List Rat) : Rat := %s.forward.val (α := Rat) %s\n' % (q, q, getl)
        else:
            out += '-- forward of %s is modelled by hand: %s (tied by correspondence)\n' % (
                cdef.name, HAND_FORWARD[(mod.name, cdef.name)])
        tr = FnTr(self, mod, cdef.name + '.backward', bwd.lineno)
        bsig = fn_signature(bwd, skip_first=1)
        bparams = params + ' ' + ' '.join('(%s : α)' % lean_name(n) for n, _ in bsig)
        try:
            if len(bsig) != 1:
                tr.err(bwd, 'backward with %d gradient arguments' % len(bsig))
            env = {n: V('num', lean_name(n)) for n, _ in bsig}
            tr.saved_in = saved
            tree = tr.block(list(bwd.body), env, 'optlist')
            if tr.deps or tr.tables:
                tr.err(bwd, 'backward of an autograd.Function may only use arithmetic primitives')
            out += '/-- `%s:%d` `%s.backward` (gradient per input of `forward`, `none` = Python `None`; ' \
                   'division by zero not guarded) -/\ndef %s.backward %s : List (Option α) :=\n%s\n' % (
                       mod.relpath, bwd.lineno, cdef.name, q, bparams, render_val(tree, '  '))
        except TranslationError as ex:
            self.errors.append(ex)
            err = err or ex
            out += '-- NOT TRANSLATED: %s\ndef %s.backward %s : List (Option α) := []\n' % (
                str(ex).replace('\n', ' '), q, bparams)
        out += 'def %s.bwdL (l : List Rat) (g : Rat) : List (Option Rat) := %s.backward (α := Rat) %s g\n' % (q, q, getl)
        return Item(key, mod.name, out, deps, error=err)

    # ---- registrations
    def registrations(self, mod):
        """[(spec object, pattern name, function name, line)] from `x = CostSpec(...)`, `x[P] = f`"""
        specs, regs = set(), []
        for st in mod.tree.body:
            if isinstance(st, ast.Assign) and len(st.targets) == 1:
                t, v = st.targets[0], st.value
                if isinstance(t, ast.Name) and isinstance(v, ast.Call) and ast.unparse(v.func) == 'CostSpec':
                    specs.add(t.id)
                elif isinstance(t, ast.Subscript) and isinstance(t.value, ast.Name) and t.value.id in specs:
                    if isinstance(t.slice, ast.Name) and isinstance(v, ast.Name):
                        regs.append((t.value.id, t.slice.id, v.id, st.lineno))
                    else:
                        self.errors.append(TranslationError(mod.relpath, '<registrations>', st.lineno,
                                                            'registration is not `spec[PatternName] = function_name`'))
        return regs


def topo(items):
    """order items so that dependencies come first (stable)"""
    by_key = {it.key: it for it in items}
    done, out = set(), []

    def visit(it, stack):
        if it.key in done:
            return
        if it.key in stack:
            return          # recursion is outside the subset; Lean will reject it
        for d in sorted(it.deps, key=str):
            if d in by_key:
                visit(by_key[d], stack | {it.key})
        done.add(it.key)
        out.append(it)
    for it in items:
        visit(it, frozenset())
    return out


def emit(items, imports, digest, trailer=''):
    out = [HEADER % digest]
    for i in imports:
        out.append('import %s\n' % i)
    out.append('\nset_option linter.unusedVariables false\n')
    cur = None
    for it in items:
        if it.namespace != cur:
            if cur is not None:
                out.append('end PlinioVerif.Gen.%s\n' % cur)
            out.append('\nnamespace PlinioVerif.Gen.%s\nopen PlinioVerif\nopen scoped PlinioVerif.CostNum\n'
                       'variable {α : Type} [CostNum α]\n' % it.namespace)
            cur = it.namespace
        out.append('\n' + it.code)
    if cur is not None:
        out.append('end PlinioVerif.Gen.%s\n' % cur)
    out.append(trailer)
    return ''.join(out)


def _move_header(text):
    """Lean wants `import` first: move the header comment after the imports"""
    lines = text.splitlines(keepends=True)
    imps = [l for l in lines if l.startswith('import ')]
    rest = [l for l in lines if not l.startswith('import ')]
    return ''.join(imps) + ''.join(rest)


def generate_cost(root):
    """-> {'Ste.lean': text, 'Cost.lean': text}, [TranslationError]"""
    ctx = Context(root)
    ste_items, fn_items, regs = [], [], []
    for mname in COST_MODULES:
        mod = ctx.modules.get(mname)
        if mod is None:
            continue
        for cname, cdef in mod.classes.items():
            if mod.is_ste(cname):
                ste_items.append(ctx.translate_ste(mod, cdef))
            elif (mname, cname) not in HAND_CLASSES:
                ctx.errors.append(TranslationError(mod.relpath, cname, cdef.lineno,
                                                   'class is neither an autograd.Function nor hand-modelled'))
        for fname, fdef in mod.funcs.items():
            if (mname, fname) in HAND_FUNCS:
                continue
            fn_items.append(ctx.translate_function(mod, fdef))
        for (sobj, pat, fn, line) in ctx.registrations(mod):
            if pat not in ctx.patterns:
                ctx.errors.append(TranslationError(mod.relpath, '<registrations>', line, 'unknown pattern %s' % pat))
                continue
            tgt = (mname, fn) if fn in mod.funcs else mod.imports.get(fn)
            if tgt is None or tgt[0] not in ctx.modules or tgt[1] not in ctx.modules[tgt[0]].funcs:
                ctx.errors.append(TranslationError(mod.relpath, '<registrations>', line, 'unknown function %s' % fn))
                continue
            regs.append((sobj, ctx.patterns[pat][0], ctx.patterns[pat][1], tgt))
    rels = [os.path.join('plinio', 'cost', m + '.py') for m in COST_MODULES] + [os.path.join('plinio', 'cost', 'pattern.py')]
    digest = ctx.digest(rels)
    ste_text = _move_header(emit(ste_items, ['PlinioVerif.Model.CostNum'], digest))
    # dispatch tables for the line driver, registry for the theorems
    spec_rows, arg_rows, bwd_rows = [], [], []
    for it in fn_items:
        mname, fname = it.key
        sig = fn_signature(ctx.modules[mname].funcs[fname])
        q = 'Gen.%s.%s' % (mname, fname)
        nspec = [is_spec_param(n) for n, _ in sig]
        if nspec and nspec[0] and not any(nspec[1:]):
            extra, ok = [], True
            for n, d in sig[1:]:
                try:
                    extra.append(num_lit(frac_of_number(ast.literal_eval(d))))
                except Exception:
                    ok = False
            if ok:
                a = ' '.join(['s'] + extra)
                spec_rows.append('  | "%s", "%s" => some fun s => (%s.ok %s, %s.val %s)' % (mname, fname, q, a, q, a))
        elif not any(nspec):
            a = ' '.join('(l.getD %d 0)' % i for i in range(len(sig)))
            arg_rows.append('  | "%s", "%s" => some (%d, fun l => (%s.ok (α := Rat) %s, %s.val (α := Rat) %s))'
                            % (mname, fname, len(sig), q, a, q, a))
    for it in ste_items:
        _, mname, cname = it.key
        q = 'Gen.%s.%s' % (mname, cname)
        if (mname, cname) not in HAND_FORWARD:
            fwd = [f for f in ctx.modules[mname].classes[cname].body
                   if isinstance(f, ast.FunctionDef) and f.name == 'forward']
            arity = len(fn_signature(fwd[0], skip_first=1)) if fwd else 0
            getl = ' '.join('(l.getD %d 0)' % i for i in range(arity))
            arg_rows.append('  | "%s", "%s.forward" => some (%d, fun l => (%s.forward.ok (α := Rat) %s, %s.fwdL l))'
                            % (mname, cname, arity, q, getl, q))
        bwd_rows.append('  | "%s", "%s" => some %s.bwdL' % (mname, cname, q))
    reg_rows = ['  { spec := "%s", layer := "%s", constr := "%s", fn := "%s",\n    val := Gen.%s.%s.val, ok := Gen.%s.%s.ok }'
                % (sobj, layer, constr, tgt[1], tgt[0], tgt[1], tgt[0], tgt[1]) for (sobj, layer, constr, tgt) in regs]
    trailer = '''
namespace PlinioVerif.Gen
open PlinioVerif

/-- every registration `cost_spec[(LayerType, constraint)] = fn` of the built-in cost specifications -/
def registry {α : Type} [CostNum α] : List (RegEntry α) := [
%s]

/-- value reading of a cost function `f(spec)` by Python module and name (line driver) -/
def dispatchSpec : String → String → Option (LSpec Rat → Bool × Rat)
%s
  | _, _ => none

/-- value reading of a numeric helper `f(a, b, …)` / `X.forward(a, b, …)`: arity and function -/
def dispatchArgs : String → String → Option (Nat × (List Rat → Bool × Rat))
%s
  | _, _ => none

/-- `X.backward` by module and class: input values, incoming gradient ↦ gradients -/
def dispatchBwd : String → String → Option (List Rat → Rat → List (Option Rat))
%s
  | _, _ => none

end PlinioVerif.Gen
''' % (',\n'.join(reg_rows), '\n'.join(spec_rows), '\n'.join(arg_rows), '\n'.join(bwd_rows))
    cost_text = _move_header(emit(topo(fn_items), ['PlinioVerif.Model.CostNum', 'PlinioVerif.Model.CostHand',
                                                   'PlinioVerif.Gen.Ste', 'PlinioVerif.Model.NE16'], digest, trailer))
    return {'Ste.lean': ste_text, 'Cost.lean': cost_text}, ctx.module_errors + ctx.errors


# --------------------------------------------------------------------------- regularizers
def generate_reg(root):
    """BaseRegularizer.__call__ and DUCCIO.__call__ -> {'Reg.lean': text}, [TranslationError]"""
    errors = []
    items = []
    rels = [os.path.join('plinio', 'regularizers', 'base_regularizer.py'),
            os.path.join('plinio', 'regularizers', 'duccio.py')]

    def stub(ns, name, params, ex, with_ok=True):
        errors.append(ex)
        c = '-- NOT TRANSLATED: %s\ndef %s.val %s : α := CostNum.ofRat 0\n' % (str(ex).replace('\n', ' '), name, params)
        if with_ok:
            c += 'def %s.ok %s : Bool := false\n' % (name, params)
        return Item((ns, name), ns, c, set(), error=ex)

    def find_call(mod, cname):
        c = mod.classes.get(cname)
        if c is None:
            raise TranslationError(mod.relpath, cname, 0, 'class %s not found' % cname)
        for f in c.body:
            if isinstance(f, ast.FunctionDef) and f.name == '__call__':
                return f
        raise TranslationError(mod.relpath, cname, c.lineno, '%s has no __call__' % cname)

    class RegTr(FnTr):
        """`self.x` is the parameter `x`; `model.get_cost(<name>)` is the parameter bound to that name"""
        def __init__(self, ctx, mod, fname, line0, cost_of):
            super().__init__(ctx, mod, fname, line0)
            self.cost_of = cost_of          # name expression (unparsed) -> V
            self.used_self = []

        def expr(self, e, env):
            if isinstance(e, ast.Attribute) and isinstance(e.value, ast.Name) and e.value.id == 'self':
                if ('self.' + e.attr) in env:
                    return env['self.' + e.attr]
                self.err(e, 'attribute self.%s is not a numeric input of the translated expression' % e.attr)
            if isinstance(e, ast.Call) and ast.unparse(e.func) == 'model.get_cost' and len(e.args) == 1 and not e.keywords:
                k = ast.unparse(e.args[0])
                if k in self.cost_of:
                    return self.cost_of[k]
                self.err(e, 'model.get_cost(%s): not the metric of the current term' % k)
            return super().expr(e, env)

    class Ctx0:
        modules = {}

    # ---- BaseRegularizer
    ns = 'base_regularizer'
    try:
        mod = Module(root, rels[0])
        f = find_call(mod, 'BaseRegularizer')
        tr = RegTr(Ctx0, mod, 'BaseRegularizer.__call__', f.lineno, {'self.cost_name': V('num', 'cost')})
        env = {'self.strength': V('num', 'strength')}
        tree = tr.block(list(f.body), env, 'num')
        code = '/-- `%s:%d` `BaseRegularizer.__call__`; `cost` is `model.get_cost(self.cost_name)` -/\n' % (mod.relpath, f.lineno)
        code += 'def call.val (cost strength : α) : α :=\n%s\n' % render_val(tree, '  ')
        code += 'def call.ok (cost strength : α) : Bool :=\n%s\n' % render_ok(ok_tree(tree), '  ')
        items.append(Item((ns, 'call'), ns, code, set()))
    except TranslationError as ex:
        items.append(stub(ns, 'call', '(cost strength : α)', ex))
    except OSError as ex:
        items.append(stub(ns, 'call', '(cost strength : α)', TranslationError(rels[0], '<module>', 0, str(ex))))

    # ---- DUCCIO
    ns = 'duccio'
    P_DER = '(task_loss c0 t : α)'
    P_STEP = '(acc c target strength epoch n_epochs : α)'
    try:
        mod = Module(root, rels[1])
        f = find_call(mod, 'DUCCIO')
        sig = [n for n, _ in fn_signature(f, skip_first=1)]
        if sig != ['model', 'epoch', 'n_epochs']:
            raise TranslationError(mod.relpath, 'DUCCIO.__call__', f.lineno, 'signature changed: %s' % sig)
        body = [s for s in f.body if not (isinstance(s, ast.Expr) and isinstance(s.value, ast.Constant))]
        # flatten `with torch.no_grad():`
        flat = []
        for s in body:
            if isinstance(s, ast.With) and all(ast.unparse(i.context_expr) == 'torch.no_grad()' for i in s.items):
                flat += s.body
            else:
                flat.append(s)
        if len(flat) != 4:
            raise TranslationError(mod.relpath, 'DUCCIO.__call__', f.lineno,
                                   'expected: lazy initialisation, accumulator, loop, return (%d statements found)' % len(flat))
        init, acc0, loop, ret = flat
        # 1. lazy initialisation of the final strengths
        ok_shape = isinstance(init, ast.If) and ast.unparse(init.test) == 'self.final_strengths is None' \
            and not init.orelse and len(init.body) == 1 and isinstance(init.body[0], ast.Assign) \
            and ast.unparse(init.body[0].targets[0]) == 'self.final_strengths'
        gen = None
        if ok_shape:
            v = init.body[0].value
            if isinstance(v, ast.Call) and ast.unparse(v.func) == 'tuple' and len(v.args) == 1 and isinstance(v.args[0], ast.GeneratorExp):
                gen = v.args[0]
            elif isinstance(v, (ast.GeneratorExp, ast.ListComp)):
                gen = v
        if gen is None or len(gen.generators) != 1 or gen.generators[0].ifs \
                or ast.unparse(gen.generators[0].iter) != 'self.targets.items()' \
                or not isinstance(gen.generators[0].target, ast.Tuple) or len(gen.generators[0].target.elts) != 2:
            raise TranslationError(mod.relpath, 'DUCCIO.__call__', init.lineno,
                                   'lazy initialisation of final_strengths is not `tuple(expr for n, t in self.targets.items())`')
        nvar, tvar = (x.id for x in gen.generators[0].target.elts)
        tr = RegTr(Ctx0, mod, 'DUCCIO.__call__', init.lineno, {nvar: V('num', 'c0')})
        v = tr.as_num(tr.expr(gen.elt, {tvar: V('num', 't'), 'self.task_loss': V('num', 'task_loss')}), gen.elt)
        tree = tr.wrap_guards(v.guards, ('ret', v.code))
        code = '/-- `%s:%d` derived final strength of one metric (`c0` = `model.get_cost(name)` at the first call) -/\n' % (mod.relpath, init.lineno)
        code += 'def derived_strength.val %s : α :=\n%s\n' % (P_DER, render_val(tree, '  '))
        code += 'def derived_strength.ok %s : Bool :=\n%s\n' % (P_DER, render_ok(ok_tree(tree), '  '))
        items.append(Item((ns, 'derived_strength'), ns, code, set()))
        # 2. accumulator
        if not (isinstance(acc0, ast.Assign) and len(acc0.targets) == 1 and isinstance(acc0.targets[0], ast.Name)):
            raise TranslationError(mod.relpath, 'DUCCIO.__call__', acc0.lineno, 'accumulator initialisation expected')
        accname = acc0.targets[0].id
        tr = RegTr(Ctx0, mod, 'DUCCIO.__call__', acc0.lineno, {})
        v0 = tr.as_num(tr.expr(acc0.value, {}), acc0)
        if v0.guards:
            tr.err(acc0, 'guarded accumulator initialisation')
        # 3. loop over the metrics
        if not (isinstance(loop, ast.For) and not loop.orelse
                and ast.unparse(loop.iter) == 'zip(self.targets.items(), self.final_strengths)'
                and isinstance(loop.target, ast.Tuple) and len(loop.target.elts) == 2
                and isinstance(loop.target.elts[0], ast.Tuple) and len(loop.target.elts[0].elts) == 2
                and all(isinstance(x, ast.Name) for x in list(loop.target.elts[0].elts) + [loop.target.elts[1]])):
            raise TranslationError(mod.relpath, 'DUCCIO.__call__', loop.lineno,
                                   'loop is not `for (name, target), strength in zip(self.targets.items(), self.final_strengths)`')
        namevar, targetvar = (x.id for x in loop.target.elts[0].elts)
        strengthvar = loop.target.elts[1].id
        tr = RegTr(Ctx0, mod, 'DUCCIO.__call__', loop.lineno, {namevar: V('num', 'c')})
        env = {accname: V('num', 'acc'), targetvar: V('num', 'target'), strengthvar: V('num', 'strength'),
               'epoch': V('num', 'epoch'), 'n_epochs': V('num', 'n_epochs')}
        retstmt = ast.copy_location(ast.Return(value=ast.Name(id=accname, ctx=ast.Load())), loop)
        for s in loop.body:
            if not isinstance(s, (ast.Assign, ast.AugAssign)):
                tr.err(s, 'loop body may only assign')
        tree = tr.block(list(loop.body) + [retstmt], env, 'num')
        code = '/-- `%s:%d` one iteration of the loop over the constrained metrics: new value of the accumulator `%s`\n' \
               '(`c` = `model.get_cost(name)`) -/\n' % (mod.relpath, loop.lineno, accname)
        code += 'def step.val %s : α :=\n%s\n' % (P_STEP, render_val(tree, '  '))
        code += 'def step.ok %s : Bool :=\n%s\n' % (P_STEP, render_ok(ok_tree(tree), '  '))
        # 4. return
        if not (isinstance(ret, ast.Return) and isinstance(ret.value, ast.Name) and ret.value.id == accname):
            raise TranslationError(mod.relpath, 'DUCCIO.__call__', ret.lineno, 'must return the accumulator')
        code += '/-- `DUCCIO.__call__`: fold of `step` over the metrics `(cost, target, final strength)` -/\n'
        code += 'def call.val (ms : List (α × α × α)) (epoch n_epochs : α) : α :=\n' \
                '  ms.foldl (fun acc m => step.val acc m.1 m.2.1 m.2.2 epoch n_epochs) %s\n' % v0.code
        code += 'def call.ok (ms : List (α × α × α)) (epoch n_epochs : α) : Bool :=\n' \
                '  (ms.foldl (fun (st : Bool × α) m => (st.1 && step.ok st.2 m.1 m.2.1 m.2.2 epoch n_epochs,\n' \
                '      step.val st.2 m.1 m.2.1 m.2.2 epoch n_epochs)) (true, %s)).1\n' % v0.code
        items.append(Item((ns, 'step'), ns, code, set()))
    except (TranslationError, OSError) as ex:
        if isinstance(ex, OSError):
            ex = TranslationError(rels[1], '<module>', 0, str(ex))
        if (ns, 'derived_strength') not in {it.key for it in items}:
            items.append(stub(ns, 'derived_strength', P_DER, ex))        # records the error
        elif ex not in errors:
            errors.append(ex)
        c = '-- NOT TRANSLATED: %s\ndef step.val %s : α := CostNum.ofRat 0\ndef step.ok %s : Bool := false\n' % (
            str(ex).replace('\n', ' '), P_STEP, P_STEP)
        c += 'def call.val (ms : List (α × α × α)) (epoch n_epochs : α) : α := CostNum.ofRat 0\n'
        c += 'def call.ok (ms : List (α × α × α)) (epoch n_epochs : α) : Bool := false\n'
        items.append(Item((ns, 'step'), ns, c, set(), error=ex))
    h = hashlib.sha256()
    for r in rels:
        try:
            h.update(open(os.path.join(root, r), 'rb').read())
        except OSError:
            h.update(b'<missing>')
    text = _move_header(emit(items, ['PlinioVerif.Model.CostNum'], h.hexdigest()[:16]))
    return {'Reg.lean': text}, errors


def main():
    root = os.environ.get('PLINIO_SRC', '/repo')
    files, errs = generate_cost(root)
    f2, e2 = generate_reg(root)
    files.update(f2)
    outdir = sys.argv[1] if len(sys.argv) > 1 else None
    for name, text in files.items():
        if outdir:
            with open(os.path.join(outdir, name), 'w') as fh:
                fh.write(text)
        else:
            print('-- ==== %s ====' % name)
            print(text)
    for ex in errs + e2:
        print('TranslationError: %s' % ex, file=sys.stderr)
    return 1 if (errs or e2) else 0


if __name__ == '__main__':
    sys.exit(main())
