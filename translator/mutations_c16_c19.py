#!/usr/bin/env python3
"""Development aid (not a registered command): realistic semantic edits and harmless rewrites of the cost models
/ regularizers, each applied to a scratch copy of /repo and run through ./check C16|C19 --tier quick.
    /venv/bin/python translator/mutations_c16_c19.py NAME...        (names: keys of MUT)"""
import json, os, re, subprocess, sys, shutil
MUT = {
 # name: (property, file, [(old, new)], description)
 'M1_tile_const': ('C16','plinio/cost/gap8_latency.py',[("matmul = FloorSTE.apply(ch_out, 4) *","matmul = FloorSTE.apply(ch_out, 8) *")],'gap8 conv2d: output-channel tile 4 -> 8'),
 'M2_drop_bias': ('C16','plinio/cost/ops.py',[("    cost = cout * (cin * k[0] * k[1] + (1 if spec['_parameters']['bias'] is not None else 0))\n    cost = cost * out_shape[2] * out_shape[3]","    cost = cout * (cin * k[0] * k[1])\n    cost = cost * out_shape[2] * out_shape[3]")],'ops conv2d generic: bias term dropped'),
 'M3_floor_to_round': ('C16','plinio/cost/gap8_latency.py',[("return torch.floor(torch.as_tensor((ch + N - 1) / N))","return torch.round(torch.as_tensor((ch + N - 1) / N))")],'gap8 FloorSTE: floor -> round'),
 'M4_gate_gt': ('C16','plinio/cost/diana_latency.py',[("return (ch >= th).float()","return (ch > th).float()")],'DIANA GateSTE: >= -> >'),
 'M5_extrapolate': ('C16','plinio/cost/diana_latency.py',[("    else:\n        raise ValueError(f'Unsupported weights/activations precision: {spec[\"w_precision\"]} / {a_precision}')","    else:\n        return _digital_cycles(spec)")],'DIANA: unsupported precision silently uses the digital model'),
 'M6_local_nonmono': ('C16','plinio/cost/gap8_latency.py',[("    _latency = FloorSTE.apply(ch_in, 2) * FloorSTE.apply(ch_out, 4)\n","    _latency = FloorSTE.apply(ch_in, 2) * FloorSTE.apply(ch_out, 4) - (7 if ch_out == 64 else 0)\n")],'gap8 linear: 7 cycles cheaper exactly at 64 output features'),
 'M7_dw_bias': ('C16','plinio/cost/params.py',[("    cost = cin * (k[0] + (1 if spec['_parameters']['bias'] is not None else 0))","    cost = cin * (k[0] + 1)")],'params conv1d depthwise: bias always charged'),
 'M8_ne16_fifo': ('C16','plinio/cost/ne16_latency.py',[("    FIFO_LATENCY = 6","    FIFO_LATENCY = 7")],'NE16 class constant FIFO_LATENCY 6 -> 7'),
 'M9_ne16_partial_tile': ('C16','plinio/cost/ne16_latency.py',[("        total_latency = n_spatial * (n_out_body * iteration_latency(k_out_body) +\n                                     (iteration_latency(k_out_rem) if k_out_rem != 0 else 0))","        total_latency = n_spatial * (n_out_body * iteration_latency(k_out_body) +\n                                     (2 * iteration_latency(k_out_rem) if k_out_rem != 0 else 0))")],'NE16: partial tile charged twice (dearer than a full tile)'),
 'M10_ox_const': ('C16','plinio/cost/diana_latency.py',[("mask_out = ox_unroll * ch_eff <= 512","mask_out = ox_unroll * ch_eff <= 256")],'DIANA ox_unroll: output constraint 512 -> 256'),
 'M11_mpic_lut': ('C16','plinio/cost/mpic_latency.py',[("4: {0: 0., 2: 1/3.9, 4: 1/3.5, 8: 1/2.1},","4: {0: 0., 2: 1/3.9, 4: 1/2.0, 8: 1/2.1},")],'MPIC LUT: (a=4,w=4) 1/3.5 -> 1/2.0 (no longer monotone in w)'),
 'M12_mpic_extrapolate': ('C16','plinio/cost/mpic_latency.py',[("    return _MPIC_LUT[a_bit][w_bit]","    return _MPIC_LUT.get(a_bit, _MPIC_LUT[8]).get(w_bit, 1/2.0)"),("    assert (a_bit in [2,4,8]) and (w_bit in [0,2,4,8]), \\\n        \"MPIC model defined only for activation precisions {2,4,8} and weight precisions {0,2,4,8}\"\n","")],'MPIC: no assert, unknown precisions fall back to a default'),
 'M13_block_grad': ('C16','plinio/cost/ne16_latency.py',[("class DivAndCeilSTE(torch.autograd.Function):\n    @staticmethod\n    def forward(ctx, a, b):\n        return ((a - 1) // b) + 1\n\n    @staticmethod\n    def backward(ctx, grad_output):\n        return grad_output, None","class DivAndCeilSTE(torch.autograd.Function):\n    @staticmethod\n    def forward(ctx, a, b):\n        return ((a - 1) // b) + 1\n\n    @staticmethod\n    def backward(ctx, grad_output):\n        return grad_output * 0, None")],'NE16 DivAndCeilSTE.backward blocks the gradient'),
 'M14_divceil_floor': ('C16','plinio/cost/ne16_latency.py',[("        return ((a - 1) // b) + 1","        return (a // b) + 1")],'NE16 DivAndCeilSTE: (a-1)//b+1 -> a//b+1 (wrong on exact multiples)'),
 'H1_reorder': ('C16','plinio/cost/ops_bit.py',[("    cost = k[0] * k[1] * cin * cout * w_prec * in_prec * out_shape[2] * out_shape[3]\n    return cost\n\n\ndef _ops_bit_conv1d_dw","    cost = out_shape[3] * out_shape[2] * in_prec * w_prec * cout * cin * k[1] * k[0]\n    return cost\n\n\ndef _ops_bit_conv1d_dw")],'harmless: ops_bit conv2d factors reordered'),
 'H2_distribute': ('C16','plinio/cost/params.py',[("    cost = cout * (cin * k[0] * k[1] + (1 if spec['_parameters']['bias'] is not None else 0))","    bias_term = cout * (1 if spec['_parameters']['bias'] is not None else 0)\n    cost = cout * cin * k[0] * k[1] + bias_term")],'harmless: params conv2d bias term distributed, new local'),
 'H3_gap8_rewrite': ('C16','plinio/cost/gap8_latency.py',[("return torch.floor(torch.as_tensor((ch + N - 1) / N))","return torch.floor(torch.as_tensor((ch - 1 + N) / N))"),("* (6 + 8) + 10)","* 14 + 10)")],'harmless: gap8 (ch-1+N)/N and 6+8 -> 14'),
 'R1_one_percent': ('C19','plinio/regularizers/duccio.py',[("torch.min(strength/100 + epoch","torch.min(strength/10 + epoch")],'DUCCIO schedule: start at 10% instead of 1%'),
 'R2_half': ('C19','plinio/regularizers/duccio.py',[("/ (n_epochs / 2), strength)","/ (n_epochs), strength)")],'DUCCIO schedule: ramp over the whole schedule, not half'),
 'R3_no_relu': ('C19','plinio/regularizers/duccio.py',[("cost += (eff_strength * torch.maximum(torch.tensor(0.0), model.get_cost(cost_name) - target))","cost += (eff_strength * (model.get_cost(cost_name) - target))")],'DUCCIO: relu removed'),
 'R4_base': ('C19','plinio/regularizers/base_regularizer.py',[("return model.get_cost(self.cost_name) * self.strength","return model.get_cost(self.cost_name) * self.strength * self.strength")],'BaseRegularizer: strength squared'),
 'R5_99': ('C19','plinio/regularizers/duccio.py',[("(strength*99/100)","(strength*90/100)")],'DUCCIO schedule: 99 -> 90 (final strength reached later)'),
 'H4_commute': ('C19','plinio/regularizers/duccio.py',[("torch.min(strength/100 + epoch * (strength*99/100) / (n_epochs / 2), strength)","torch.min(epoch * (strength*99/100) / (n_epochs / 2) + strength/100, strength)")],'harmless: schedule summands commuted'),
}
def main(name):
    prop, rel, edits, desc = MUT[name]
    d = '/tmp/mut_' + name
    subprocess.run(['/verif/tools/scratch_repo.sh', d], check=True, capture_output=True)
    p = os.path.join(d, rel); s = open(p).read()
    for old, new in edits:
        assert old in s, (name, old[:40])
        s = s.replace(old, new)
    open(p, 'w').write(s)
    env = dict(os.environ, PLINIO_SRC=d, VERIF_SEED=os.environ.get('VERIF_SEED','0'))
    r = subprocess.run(['./check', prop, '--tier', 'quick'], cwd='/verif', env=env, capture_output=True, text=True)
    out = [l for l in (r.stdout + r.stderr).splitlines() if l.startswith(('VIOLATION', 'KNOWN', prop + ' quick', 'INFRA'))]
    ev = json.load(open(os.path.join(d, 'verif_out', 'evidence', prop + '.json')))
    cov = ev['coverage']
    legs = []
    if any('translation' in b for b in cov['proof_or_correspondence_broken']): legs.append('translation')
    if any('lake build' in b or 'theorem' in b for b in cov['proof_or_correspondence_broken']): legs.append('proof')
    if cov['correspondence_disagreements']: legs.append('correspondence(%d)' % cov['correspondence_disagreements'])
    keys = []
    rd = os.path.join(d, 'verif_out', 'replays')
    for f in sorted(os.listdir(rd)):
        j = json.load(open(os.path.join(rd, f)))
        if 'key' in j:
            keys.append(j['key']); 
            if j['key'] != 'C19:derived:c0==target': legs.append('oracle')
    print('%-22s %-4s rc=%d  legs=%s\n    %s\n    keys=%s\n    %s' % (name, prop, r.returncode, sorted(set(legs)), desc, keys, ' | '.join(out)))
    broken = cov['proof_or_correspondence_broken']
    if broken: print('    broken:', ' || '.join(b[:260] for b in broken[:3]))
    shutil.rmtree(d)
if __name__ == '__main__':
    for n in sys.argv[1:]:
        main(n)
