"""Non-mutating fingerprints of a PLiNIO NAS wrapper (shared by C17 and C18).

`raw(w)`      pure read-out of the wrapper's state (no PLiNIO code is run): per-module training flags,
              state_dict tensors (bit-exact hashes), sampled coefficients `theta_alpha`, tensors that a
              forward recomputes (weight ranges, bias scales), `requires_grad` flags, the *set* of
              instance attributes of every module, the values of plain scalar attributes, the torch
              RNG state, the identity of the cost specification.
`probe(w,x)`  the statement's observables obtained through PLiNIO's own API (cost values, summary,
              outputs on a fixed input under a fixed RNG seed) with everything snapshotted before
              and restored afterwards (buffers in place, tensor attributes, sampled coefficients,
              training flags, added attributes, RNG), so that it leaves `raw(w)` unchanged even
              when an observer under test misbehaves.
`net_fingerprint(m)`  structure + tensors of an exported network.
"""
import hashlib
import random as _pyrandom

_SKIP = {'_parameters', '_buffers', '_modules', '_non_persistent_buffers_set', 'training',
         '_backward_hooks', '_backward_pre_hooks', '_forward_hooks', '_forward_pre_hooks',
         '_forward_hooks_with_kwargs', '_forward_pre_hooks_with_kwargs', '_forward_hooks_always_called',
         '_state_dict_hooks', '_state_dict_pre_hooks', '_load_state_dict_pre_hooks',
         '_load_state_dict_post_hooks', '_is_full_backward_hook', '_compiled_call_impl'}


def thash(t):
    """bit-exact hash of a tensor (dtype, shape, bytes)"""
    import torch
    try:
        t = t.detach()
        if t.dtype == torch.bool:
            t = t.to(torch.uint8)
        b = t.contiguous().cpu().numpy().tobytes()
    except RuntimeError:
        # e.g. a dead `torch.vmap` batched tensor left behind in an attribute (MPSAdd.get_cost)
        return 'unreadable-tensor'
    return hashlib.sha1(repr((str(t.dtype), tuple(t.shape))).encode() + b).hexdigest()[:16]


def canon(v, owner=None):
    """Canonical string of a plain attribute value; None when the value is not a simple one."""
    import torch
    import types
    if isinstance(v, (bool, int, float, str, type(None))):
        return repr(v)
    if isinstance(v, torch.Size):
        return 'Size' + repr(tuple(v))
    if isinstance(v, torch.Tensor):
        return 'T:' + thash(v)
    if isinstance(v, (tuple, list)):
        parts = [canon(e, owner) for e in v]
        if any(p is None for p in parts):
            return None
        return ('(%s)' if isinstance(v, tuple) else '[%s]') % ','.join(parts)
    if isinstance(v, types.MethodType) and owner is not None and v.__self__ is owner:
        return 'self.' + v.__name__
    if isinstance(v, type):
        return 'class:' + v.__name__
    return None


def plain_attrs(m):
    """instance attributes that live outside parameters / buffers / sub-modules"""
    return {k: v for k, v in vars(m).items() if k not in _SKIP}


def raw(w, spec_slots=None):
    import torch
    r = {}
    mods = list(w.named_modules())
    r['modes'] = tuple((n, m.training) for n, m in mods)
    state, theta = {}, {}
    for k, v in w.state_dict().items():
        (theta if k.endswith('theta_alpha') else state)[k] = thash(v)
    rec, attrs, vals, containers = {}, {}, {}, {}
    for n, m in mods:
        for k in m._non_persistent_buffers_set:      # buffers the state_dict does not show
            v = m._buffers.get(k)
            if v is not None:
                (theta if k == 'theta_alpha' else state)['np:' + n + '.' + k] = thash(v)
        pa = plain_attrs(m)
        names = sorted(set(pa) | set(m._parameters) | set(m._buffers) | set(m._modules))
        attrs[n] = tuple(names)
        for k, v in pa.items():
            if isinstance(v, torch.Tensor):
                # plain tensor attributes: sampled coefficients of SuperNet combiners, and what a
                # forward recomputes (weight ranges, bias scales)
                (theta if k == 'theta_alpha' else rec)[n + '.' + k] = thash(v)
            elif isinstance(v, (dict, list, set)) and k not in ('_cost_fn_map', '_cost_specification'):
                # caches and other containers (contents may change in place): shallow signature
                containers[n + '.' + k] = container_sig(v)
            else:
                c = canon(v, m)
                if c is not None and not k.startswith('_input_example'):
                    vals[n + '.' + k] = c
    r['state'], r['theta'], r['rec'], r['attrs'], r['vals'] = state, theta, rec, attrs, vals
    r['containers'] = containers
    r['reqgrad'] = tuple((n, p.requires_grad) for n, p in w.named_parameters())
    r['nonpersistent'] = tuple(sorted(n + '.' + k for n, m in mods for k in m._non_persistent_buffers_set))
    r['rng'] = thash(torch.get_rng_state()) + ':' + hashlib.sha1(repr(_pyrandom.getstate()).encode()).hexdigest()[:8]
    cs = w.cost_specification
    if spec_slots is not None:
        r['spec'] = next((k for k, v in spec_slots.items() if _same_spec(v, cs)), 'other')
    else:
        r['spec'] = str(id(cs))
    r['cost_fn_map'] = _fnmap_sig(getattr(w, '_cost_fn_map', None))
    return r


def container_sig(v, depth=0):
    """shallow, order-insensitive signature of a dict / list / set attribute"""
    import torch

    def one(x):
        if isinstance(x, torch.Tensor):
            return 'T:' + thash(x)
        if isinstance(x, (bool, int, float, str, type(None))):
            return repr(x)
        if isinstance(x, (dict, list, set, tuple)) and depth < 2:
            return container_sig(x, depth + 1)
        return getattr(x, '__name__', None) or type(x).__name__
    if isinstance(v, dict):
        return 'dict{' + ','.join(sorted('%s:%s' % (str(k), one(x)) for k, x in v.items())) + '}'
    return type(v).__name__ + '[' + ','.join(one(x) for x in (sorted(v, key=str) if isinstance(v, set) else v)) + ']'


def _same_spec(a, b):
    if isinstance(a, dict) and isinstance(b, dict):
        return a.keys() == b.keys() and all(a[k] is b[k] for k in a)
    return a is b


def _fnmap_sig(m):
    if isinstance(m, dict):
        return tuple(sorted((str(k), _fnmap_sig(v)) for k, v in m.items()))
    return getattr(m, '__name__', type(m).__name__)


COMPONENTS = ('modes', 'state', 'theta', 'rec', 'attrs', 'vals', 'reqgrad', 'nonpersistent', 'rng', 'spec',
              'cost_fn_map', 'containers')


def changed(a, b):
    """names of the raw components that differ, with a short description of the first difference"""
    out = {}
    for c in COMPONENTS:
        x, y = a[c], b[c]
        if c in ('vals', 'rec', 'containers'):
            # values of attributes present on both sides; additions / removals are in `attrs`
            common_keys = set(x) & set(y)
            x = {k: x[k] for k in common_keys}
            y = {k: y[k] for k in common_keys}
        if x != y:
            out[c] = _first_diff(x, y)
    return out


def _first_diff(a, b):
    if isinstance(a, dict) and isinstance(b, dict):
        for k in sorted(set(a) | set(b)):
            if a.get(k) != b.get(k):
                if isinstance(a.get(k), tuple) and isinstance(b.get(k), tuple):
                    return '%s: +%s -%s' % (k, sorted(set(b[k]) - set(a[k])), sorted(set(a[k]) - set(b[k])))
                return '%s: %s -> %s' % (k, a.get(k), b.get(k))
    if isinstance(a, tuple) and isinstance(b, tuple):
        for x, y in zip(a, b):
            if x != y:
                return '%s -> %s' % (x, y)
        return 'length %d -> %d' % (len(a), len(b))
    return '%s -> %s' % (a, b)


class _Snapshot:
    """Everything a forward / an observer could disturb, remembered by object and by value.
    `restore` re-binds the remembered objects and, where an object was modified in place (BatchNorm
    statistics), copies the remembered value back."""
    def __init__(self, w):
        import torch
        self.rng = torch.get_rng_state().clone()
        self.pyrng = _pyrandom.getstate()
        self.mods = list(w.modules())
        self.training = [m.training for m in self.mods]
        def keep(v):
            if not isinstance(v, torch.Tensor):
                return (v, None, None)
            try:
                return (v, v.detach().clone(), thash(v))
            except RuntimeError:
                return (v, None, None)
        self.bufs = [{k: keep(v) for k, v in m._buffers.items()} for m in self.mods]
        self.params = [{k: keep(v) + (None if v is None else v.requires_grad,) for k, v in m._parameters.items()}
                       for m in self.mods]
        self.attrs = [{k: keep(v) for k, v in plain_attrs(m).items()} for m in self.mods]
        # containers an observer may fill in place (caches): shallow copies, restored in place
        self.containers = []
        for m in self.mods:
            for k, v in plain_attrs(m).items():
                if type(v) in (dict, list, set):
                    self.containers.append((v, type(v)(v)))

    @staticmethod
    def _put_back(obj, val, h):
        if val is not None and thash(obj) != h:
            obj.data.copy_(val)

    def restore(self):
        import torch
        with torch.no_grad():
            for m, tr, bufs, params, attrs in zip(self.mods, self.training, self.bufs, self.params, self.attrs):
                m.training = tr
                for k in list(m._buffers):
                    if k not in bufs:
                        del m._buffers[k]
                for k, (obj, val, h) in bufs.items():
                    m._buffers[k] = obj
                    self._put_back(obj, val, h)
                for k, (obj, val, h, rg) in params.items():
                    m._parameters[k] = obj
                    if obj is not None:
                        self._put_back(obj, val, h)
                        obj.requires_grad = rg
                for k in list(plain_attrs(m)):
                    if k not in attrs:
                        del vars(m)[k]
                for k, (obj, val, h) in attrs.items():
                    vars(m)[k] = obj
                    self._put_back(obj, val, h)
        for obj, saved in self.containers:
            if isinstance(obj, list):
                obj[:] = saved
            else:
                obj.clear()
                obj.update(saved)
        torch.set_rng_state(self.rng)
        _pyrandom.setstate(self.pyrng)


_MISSING = object()


def probe(w, x, names, seed=12345, with_summary=True):
    """The statement's observables via the public API, leaving the wrapper untouched."""
    import torch
    snap = _Snapshot(w)
    out = {}
    try:
        costs = []
        for n in names:
            try:
                c = w.cost if n is None else w.get_cost(n)
                costs.append(thash(c) + '=' + repr(float(c)))
            except AssertionError:
                costs.append('err:assert')
        out['cost'] = tuple(costs)
        if with_summary:
            out['summary'] = summary_str(w.summary())
        torch.manual_seed(seed)
        with torch.no_grad():
            y = w(x)
        out['y'] = thash(y)
    finally:
        snap.restore()
    return out


def summary_str(s):
    """canonical, bit-exact rendering of a (nested) summary dictionary"""
    import torch
    if isinstance(s, dict):
        return '{' + ','.join('%s:%s' % (k, summary_str(s[k])) for k in sorted(s, key=str)) + '}'
    if isinstance(s, (list, tuple)):
        return '[' + ','.join(summary_str(e) for e in s) + ']'
    if isinstance(s, torch.Tensor):
        return 'T:' + thash(s)
    if isinstance(s, float):
        return float(s).hex()
    return repr(s)


def net_fingerprint(m):
    """Structure and tensors of an exported network: fx graph (op, target, argument names), type and
    hyper-parameters of every sub-module, bit-exact hashes of every state_dict tensor."""
    import torch.fx as fx
    fp = {}
    if isinstance(m, fx.GraphModule):
        fp['graph'] = tuple((n.op, str(n.target) if n.op != 'call_function' else getattr(n.target, '__name__', str(n.target)),
                             tuple(str(a) for a in n.args), tuple(sorted((k, str(v)) for k, v in n.kwargs.items())))
                            for n in m.graph.nodes)
    fp['modules'] = tuple((n, type(s).__name__, s.extra_repr() if type(s).__module__.startswith('torch.nn') else '')
                          for n, s in m.named_modules())
    fp['tensors'] = tuple((k, thash(v)) for k, v in sorted(m.state_dict().items()))
    return fp


def net_diff(a, b):
    for k in ('graph', 'modules', 'tensors'):
        if a.get(k) != b.get(k):
            xa, xb = a.get(k) or (), b.get(k) or ()
            for i, (p, q) in enumerate(zip(xa, xb)):
                if p != q:
                    return '%s[%d]: %s != %s' % (k, i, p, q)
            return '%s: length %d != %d' % (k, len(xa), len(xb))
    return None


def shares_storage(a, b):
    """names of tensors of network `a` that share storage with a tensor of `b`"""
    ptrs = {}
    for k, v in list(b.named_parameters()) + list(b.named_buffers()):
        ptrs[v.data_ptr()] = k
    return sorted(k for k, v in list(a.named_parameters()) + list(a.named_buffers()) if v.data_ptr() in ptrs and v.numel() > 0)
