"""Small PIT / MPS / SuperNet models shared by the C17 (checkpoint) and C18 (observer) checks.

A *spec* is a plain JSON-able dict (so that it can travel to pool workers and into replay files):

    {'kind': 'pit1d'|'pit2d'|'pitcat'|'mpsl'|'mpsc'|'sn', 'seed': int, 'ch': int, 'k': int,
     'dropout': bool, 'gumbel': bool, 'hard': bool, 'full_cost': bool, 'discrete_cost': bool,
     'cost': 'single'|'dict', optionally 'temperature': int|float (MPS constructor argument)}

`build(spec)` returns `(wrapper, input_shape)`; two calls with the same spec give two wrappers of the
*same seed network* (same initial weights) built with the *same constructor arguments*.
"""
import copy
import random


KINDS = ('pit1d', 'pit2d', 'pitcat', 'mpsl', 'mpsc', 'sn')
METHOD = {'pit1d': 'pit', 'pit2d': 'pit', 'pitcat': 'pit', 'mpsl': 'mps', 'mpsc': 'mps', 'sn': 'sn'}


def random_spec(rng: random.Random, kind=None, **force):
    kind = kind or rng.choice(KINDS)
    s = {'kind': kind, 'seed': rng.randrange(1 << 20), 'ch': rng.choice([3, 4, 5, 6]),
         'k': rng.choice([2, 3, 4, 5, 6]), 'dropout': rng.random() < 0.4,
         'gumbel': rng.random() < 0.5, 'hard': rng.random() < 0.3,
         'full_cost': rng.random() < 0.5, 'discrete_cost': rng.random() < 0.3,
         'cost': rng.choice(['single', 'dict'])}
    s.update(force)
    return s


def input_shape(spec):
    return (3, 8) if spec['kind'] == 'pit1d' else (3, 8, 8)


def _seed_net(spec):
    """The user's network; deterministic in spec['seed']."""
    import torch
    import torch.nn as nn
    import torch.nn.functional as F
    from plinio.methods.supernet import SuperNetModule
    kind, C, K = spec['kind'], spec['ch'], spec['k']
    drop = spec['dropout']

    class Net1d(nn.Module):
        def __init__(s):
            super().__init__()
            s.pad = nn.ConstantPad1d((K - 1, 0), 0)
            s.c0 = nn.Conv1d(3, C, K)
            s.bn0 = nn.BatchNorm1d(C)
            s.c1 = nn.Conv1d(C, C, 1)
            s.d = nn.Dropout(0.25) if drop else nn.Identity()
            s.pool = nn.AvgPool1d(2)
            s.fc = nn.Linear(C * 4, 3)

        def forward(s, x):
            x = F.relu(s.bn0(s.c0(s.pad(x))))
            x = x + F.relu(s.c1(x))
            return s.fc(s.d(s.pool(x)).flatten(1))

    class Net2d(nn.Module):
        def __init__(s):
            super().__init__()
            s.c0 = nn.Conv2d(3, C, 3, padding=1)
            s.bn0 = nn.BatchNorm2d(C)
            s.c1 = nn.Conv2d(C, C, 3, padding=1)
            s.d = nn.Dropout(0.25) if drop else nn.Identity()
            s.pool = nn.MaxPool2d(2)
            s.fc = nn.Linear(C * 16, 3)
            if kind == 'sn':
                s.sn = SuperNetModule([nn.Conv2d(C, C, 3, padding=1), nn.Identity(),
                                       nn.Sequential(nn.Conv2d(C, C, 1), nn.BatchNorm2d(C), nn.ReLU())],
                                      gumbel_softmax=spec['gumbel'], hard_softmax=spec['hard'])
            else:
                s.sn = None

        def forward(s, x):
            x = F.relu(s.bn0(s.c0(x)))
            x = x + F.relu(s.c1(x))
            if s.sn is not None:
                x = F.relu(s.sn(x))
            return s.fc(s.d(s.pool(x)).flatten(1))

    class NetCat(nn.Module):
        """channel concat of a searchable conv, a fixed-width pooled input and another conv
        (exercises Concat/Const feature calculators and their prefixed buffers)"""
        def __init__(s):
            super().__init__()
            s.c0 = nn.Conv2d(3, C, 3, padding=1)
            s.bn0 = nn.BatchNorm2d(C)
            s.c1 = nn.Conv2d(3, C + 1, 1)
            s.cx = nn.Conv2d(3, 4, 1)          # excluded from the search: a second fixed-width operand
            s.c2 = nn.Conv2d(2 * C + 1 + 3 + 4, C, 3, padding=1)
            s.pool = nn.AvgPool2d(2)
            s.fc = nn.Linear(C * 16, 3)

        def forward(s, x):
            a = F.relu(s.bn0(s.c0(x)))
            b = F.relu(s.c1(x))
            y = torch.cat((a, x, s.cx(x), b), dim=1)
            y = F.relu(s.c2(y))
            return s.fc(s.pool(y).flatten(1))

    torch.manual_seed(spec['seed'])
    net = {'pit1d': Net1d, 'pitcat': NetCat}.get(kind, Net2d)()
    # non-trivial BatchNorm statistics and affine parameters
    g = torch.Generator().manual_seed(spec['seed'] + 1)
    for m in net.modules():
        if isinstance(m, (nn.BatchNorm1d, nn.BatchNorm2d)):
            with torch.no_grad():
                m.running_mean.copy_(torch.randn(m.running_mean.shape, generator=g))
                m.running_var.copy_(torch.rand(m.running_var.shape, generator=g) + 0.5)
                m.weight.copy_(torch.randn(m.weight.shape, generator=g))
                m.bias.copy_(torch.randn(m.bias.shape, generator=g))
    return net


def cost_specs(spec, slot=0):
    """The cost specification in slot 0 (constructor) or 1 (the one switched to)."""
    from plinio.cost import params, ops, params_bit, ops_bit
    a, b = (params_bit, ops_bit) if METHOD[spec['kind']] == 'mps' else (params, ops)
    if slot == 1:
        a, b = b, a
    return a if spec['cost'] == 'single' else {'a': a, 'b': b}


def cost_names(spec):
    return [None] if spec['cost'] == 'single' else ['a', 'b']


def build(spec, seednet=None):
    """A freshly constructed wrapper around (a deep copy of) the seed network."""
    import warnings
    import torch
    warnings.filterwarnings('ignore')
    from plinio.methods import PIT, SuperNet
    from plinio.methods.mps import MPS, MPSType, get_default_qinfo
    net = copy.deepcopy(seednet) if seednet is not None else _seed_net(spec)
    net.train()
    kind = spec['kind']
    shape = input_shape(spec)
    # the wrapper draws a random input example for tracing: pin it to the spec
    torch.manual_seed(spec['seed'] + 2)
    cost = cost_specs(spec, 0)
    if METHOD[kind] == 'pit':
        w = PIT(net, input_shape=shape, cost=cost, full_cost=spec['full_cost'],
                discrete_cost=spec['discrete_cost'], exclude_names=('cx',) if kind == 'pitcat' else ())
    elif METHOD[kind] == 'mps':
        per_ch = kind == 'mpsc'
        w = MPS(net, input_shape=shape, cost=cost, full_cost=spec['full_cost'],
                qinfo=get_default_qinfo((0, 2, 4, 8) if per_ch else (2, 4, 8), (4, 8)),
                w_search_type=MPSType.PER_CHANNEL if per_ch else MPSType.PER_LAYER,
                gumbel_softmax=spec['gumbel'], hard_softmax=spec['hard'],
                # optional constructor temperature, given as written by the user: a Python int (1, 5) or a float
                **({'temperature': spec['temperature']} if spec.get('temperature') is not None else {}))
    else:
        w = SuperNet(net, input_shape=shape, cost=cost, full_cost=spec['full_cost'])
    return w, shape


def randomize_nas(w, seed):
    """Random, tie-free architecture parameters (deterministic in `seed`)."""
    import torch
    g = torch.Generator().manual_seed(seed)
    with torch.no_grad():
        for _, p in w.named_nas_parameters():
            p.copy_(torch.rand(p.shape, generator=g) * 1.2)


def data(shape, seed, batch=3):
    import torch
    g = torch.Generator().manual_seed(seed)
    return torch.rand((batch,) + tuple(shape), generator=g)
