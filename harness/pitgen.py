"""Grammar nets for the PIT properties (C01, C04, C07, C08, C09): random SSA programs rendered both
as a real `nn.Module` (so that torch.fx traces real code) and as a request line for the Lean
driver `Drivers/PITNet.lean`, plus the probes that read the real PIT objects.

Everything random derives from the `random.Random` passed in.  Tensors are tiny; the theorems
carry the unbounded sizes.
"""
import random
from fractions import Fraction

import torch
import torch.nn as nn
import torch.nn.functional as F

MODULE_OPS = ('conv', 'dw', 'lin', 'bn', 'pad', 'pool', 'flatm', 'gap')


class Prog(list):
    """SSA program; `extra_out`: a second tensor the network returns; `out_form`: how the two are returned
    ('tuple': (a, b); 'dict': {'out': (a, b)}; 'nested': [(a, b)])."""
    extra_out = None
    out_form = 'tuple'


def merge_out(y):
    """The value(s) a network returns as one 2-D tensor (a tuple is flattened and concatenated)."""
    def leaves(z):
        if isinstance(z, dict):
            return [t for k in z for t in leaves(z[k])]
        if isinstance(z, (tuple, list)):
            return [t for e in z for t in leaves(e)]
        return [z]
    if isinstance(y, (tuple, list, dict)):
        return torch.cat([t.flatten(1) for t in leaves(y)], 1)
    return y


class GNet(nn.Module):
    """Interpreter of an SSA program; node i holds its module (if any) as attribute n<i>."""

    def __init__(self, prog, n_inputs=1):
        super().__init__()
        self.prog = prog
        self.n_inputs = n_inputs
        for i, ins in enumerate(prog):
            if ins[0] in MODULE_OPS:
                setattr(self, 'n%d' % i, ins[-1])

    def run(self, inputs, record=None):
        v = []
        for i, ins in enumerate(self.prog):
            op = ins[0]
            if op == 'input':
                r = inputs[ins[1]]
            elif op in MODULE_OPS:
                r = getattr(self, 'n%d' % i)(v[ins[1]])
            elif op == 'reuse':
                r = getattr(self, 'n%d' % ins[2])(v[ins[1]])
            elif op == 'relu':
                r = F.relu(v[ins[1]])
            elif op == 'add':
                form = ins[3] if len(ins) > 3 else None      # the residual sum written in several ways
                a_, b_ = v[ins[1]], v[ins[2]]
                r = (a_ + b_ if form is None else a_ - b_ if form == 'sub' else torch.add(a_, b_) if form == 'tadd'
                     else torch.sub(a_, b_) if form == 'tsub' else torch.add(a_, b_, alpha=2))
            elif op == 'cat':
                ts = [v[j] for j in ins[1]]
                var = ins[2] if len(ins) > 2 else None      # the features axis named in three ways
                r = torch.cat(ts, dim=1) if var is None else (torch.cat(ts, axis=1) if var == 'axis' else torch.cat(ts, var))
            elif op == 'tcat':
                r = torch.cat([v[j] for j in ins[1]], dim=2 if len(ins) < 3 else ins[2])
            elif op == 'flatf':
                se = ins[2] if len(ins) > 2 else (1,)
                r = torch.flatten(v[ins[1]], *se) if se[0] != 'method' else v[ins[1]].flatten(*se[1:])
            elif op == 'squeeze':
                r = v[ins[1]].squeeze(ins[2] if len(ins) > 2 else -1)
            else:
                raise ValueError(op)
            v.append(r)
            if record is not None:
                record.append(tuple(r.shape))
        if getattr(self.prog, 'extra_out', None) is not None:
            pair = (v[-1], v[self.prog.extra_out])
            form = getattr(self.prog, 'out_form', 'tuple')
            return pair if form == 'tuple' else ({'out': pair} if form == 'dict' else [pair])
        return v[-1]


class GNet1(GNet):
    def forward(self, x):
        return self.run([x])


class GNet2(GNet):
    def forward(self, x, y):
        return self.run([x, y])


class Builder:
    def __init__(self, rng, dim, opts):
        self.rng, self.dim, self.o = rng, dim, opts
        self.prog, self.ch, self.sp, self.taint = Prog(), [], [], []

    def add(self, ins, c, s):
        self.prog.append(ins)
        self.ch.append(c)
        self.sp.append(s)
        op = ins[0]
        if op in ('cat', 'flatm', 'flatf'):
            t = True
        elif op in ('conv', 'lin', 'input', 'reuse'):
            t = False
        elif op == 'add':
            t = self.taint[ins[1]] or self.taint[ins[2]]
        elif op == 'tcat':
            t = any(self.taint[j] for j in ins[1])
        else:
            t = self.taint[ins[1]]
        self.taint.append(t)
        return len(self.prog) - 1

    def conv(self, src, cout=None, dw=False, keep_size=False, k_choices=None, p_bn=None, pad_value=0., groups=1):
        rng, dim = self.rng, self.dim
        cin = self.ch[src]
        cout = cin if dw else (cout or rng.choice([2, 3, 4, 5, 6]))
        bias = rng.random() < .7
        unit = bool(self.o.get('unit'))    # channel-level nets: every kernel 1, every spatial size 1
        if dim == 1:
            K = 1 if unit else rng.choice(k_choices or [1, 2, 3, 4, 5, 6, 7, 9])
            d = 1 if unit else rng.choice([1, 1, 2, 3])
            s = 1 if (keep_size or unit) else rng.choice([1, 1, 1, 2])
            p = self.add(('pad', src, nn.ConstantPad1d(((K - 1) * d, 0), pad_value)), cin, self.sp[src])
            m = nn.Conv1d(cin, cout, K, stride=s, dilation=d, groups=cin if dw else groups, bias=bias)
        else:
            K = 1 if unit else rng.choice([1, 3])
            s = 1 if (keep_size or unit) else rng.choice([1, 1, 2])
            p = src
            m = nn.Conv2d(cin, cout, K, stride=s, padding=K // 2, groups=cin if dw else groups, bias=bias)
        so = (self.sp[src] - 1) // s + 1
        n = self.add(('dw' if dw else 'conv', p, m), cout, so)
        if rng.random() < (self.o.get('p_bn', .5) if p_bn is None else p_bn):
            BN = nn.BatchNorm1d if dim == 1 else nn.BatchNorm2d
            n = self.add(('bn', n, BN(cout, affine=rng.random() > .15)), cout, so)
        n = self.add(('relu', n), cout, so)
        return n


def gen_program(rng, dim, opts=None):
    """Returns (prog, input_shapes).  opts: p_bn, unsupported ('add_cat' | 'dw_cat' | 'reuse_cat' | None),
    two_inputs, tcat, squeeze."""
    o = dict(opts or {})
    b = Builder(rng, dim, o)
    C0 = rng.choice([2, 3])
    T = rng.choice([8, 12]) if dim == 1 else rng.choice([6, 8])
    if o.get('unit'):
        T = 1
    shape = (C0, T) if dim == 1 else (C0, T, T)
    if o.get('mlp_res'):
        # residual MLP on the flattened network input: relu(fc(f)) + f, f = flatten(x); everything tied to the
        # input stays unpruned, and the masker of fc has fc's width (not the input's)
        x0 = b.add(('input', 0), C0, T)
        feat = C0 * (T if dim == 1 else T * T)
        f = b.add(('flatf', x0, (1,)), feat, 1)
        l1 = b.add(('lin', f, nn.Linear(feat, feat, bias=rng.random() < .8)), feat, 1)
        r1 = b.add(('relu', l1), feat, 1)
        cur = b.add(('add', r1, f) if rng.random() < .5 else ('add', f, r1), feat, 1)
        h = rng.choice([3, 4, 5])
        l2 = b.add(('lin', cur, nn.Linear(feat, h)), h, 1)
        r2 = b.add(('relu', l2), h, 1)
        b.add(('lin', r2, nn.Linear(h, rng.choice([2, 3]))), 0, 1)
        return b.prog, [shape]
    two = bool(o.get('two_inputs'))
    x0 = b.add(('input', 0), C0, T)
    C1 = rng.choice([2, 3, 4])          # the second input has its own width
    shape1 = (C1,) + shape[1:]
    if two:
        x1 = b.add(('input', 1), C1, T)
        if rng.random() < .5:
            a0 = b.conv(x0, cout=4, keep_size=True)
            a1 = b.conv(x1, cout=4, keep_size=True)
            cur = b.add(('add', a0, a1), 4, T)
        else:
            cur = b.add(('cat', [x0, x1]), C0 + C1, T)
            cur = b.conv(cur)
    else:
        # (the network input is never pruned: its causal padding may use any constant)
        cur = b.conv(x0, pad_value=0. if o.get('unit') else rng.choice([0., 0., 0., -1., .5]))
    for _ in range(rng.randint(1, 4) if o.get('reuse') != 'pool' else rng.randint(0, 1)):
        r = rng.random()
        if r < .30:
            cur = b.conv(cur)
        elif r < .45:
            if not b.taint[cur]:
                cur = b.conv(cur, dw=True)
            else:
                cur = b.conv(cur)
        elif r < .65:
            if not b.taint[cur]:   # residual: branch keeps channels and size
                br = b.conv(cur, cout=b.ch[cur], keep_size=True, k_choices=[1, 3])
                form = None if o.get('unit') else rng.choice([None, None, 'sub', 'tadd', 'tsub', 'alpha'])
                ab = (cur, br) if rng.random() < .5 else (br, cur)
                cur = b.add(('add',) + ab if form is None else ('add',) + ab + (form,), b.ch[cur], b.sp[cur])
            else:
                cur = b.conv(cur)
        elif r < .85:   # channel concat with up to 2 earlier tensors of the same size
            cands = [j for j in range(len(b.prog)) if b.sp[j] == b.sp[cur] and j != cur and
                     b.prog[j][0] in ('relu', 'input', 'pool', 'add', 'cat')]
            if cands:
                others = rng.sample(cands, min(len(cands), rng.choice([1, 1, 2])))
                lst = others + [cur]
                if rng.random() < .15:
                    lst.append(rng.choice(lst))     # the same tensor twice: torch.cat((a, b, a), 1)
                rng.shuffle(lst)
                var = rng.choice([None, None, 'axis', 1 - (dim + 2)])     # dim=1, axis=1, or counted from the end
                cur = b.add(('cat', lst) if var is None else ('cat', lst, var), sum(b.ch[j] for j in lst), b.sp[cur])
            else:
                cur = b.conv(cur)
        elif r < .92 and o.get('tcat', True) and dim == 1 and not b.taint[cur]:
            # time-axis concat of two branches sharing one masker
            br = b.conv(cur, cout=b.ch[cur], keep_size=True, k_choices=[1, 3])
            cur = b.add(('tcat', [cur, br]) if rng.random() < .5 else ('tcat', [cur, br], -1), b.ch[cur], 2 * b.sp[cur])
        elif r < .92 and o.get('tcat', True) and dim == 2 and not b.taint[cur]:
            # 2-D: concat of two branches along the height or the width (named from either end), then back to a
            # square map by adaptive average pooling
            br = b.conv(cur, cout=b.ch[cur], keep_size=True)
            t = b.add(('tcat', [cur, br], rng.choice([2, -2, 3, -1])), b.ch[cur], b.sp[cur])
            cur = b.add(('pool', t, nn.AdaptiveAvgPool2d(b.sp[cur])), b.ch[cur], b.sp[cur])
        else:
            if b.sp[cur] >= 4:
                m = nn.AvgPool1d(2) if dim == 1 else (nn.MaxPool2d(2) if rng.random() < .5 else nn.AvgPool2d(2))
                cur = b.add(('pool', cur, m), b.ch[cur], b.sp[cur] // 2)
    if o.get('reuse') and not b.taint[cur] and (b.sp[cur] < 4 or (o.get('reuse') != 'pool' and rng.random() < .6)):
        # one layer invoked twice on two *different* tensors u, v (their features must be tied: the layer
        # slices its weights by one input mask), its two outputs joining two residual sums or a concat
        C = b.ch[cur]
        resid = rng.random() < .5
        u = b.conv(cur, cout=C, keep_size=True)
        v = b.conv(cur, cout=C, keep_size=True)
        g = b.conv(u, cout=C if resid else None, keep_size=True, k_choices=[1, 3])
        gnode = g
        while b.prog[gnode][0] != 'conv':
            gnode -= 1
        src2 = v
        if dim == 1 and rng.random() < .5:   # the block is pad + conv (+ BatchNorm): the padding module is applied again too
            src2 = b.add(('reuse', v, gnode - 1), C, b.sp[v])
            b.taint[-1] = b.taint[v]
        elif dim == 1:                       # ... or the second call site has a padding module of its own
            m = b.prog[gnode][-1]
            src2 = b.add(('pad', v, nn.ConstantPad1d(((m.kernel_size[0] - 1) * m.dilation[0], 0), 0.)), C, b.sp[v])
        g2 = b.add(('reuse', src2, gnode), b.ch[g], b.sp[g])
        if b.prog[gnode + 1][0] == 'bn':       # the block is conv + BatchNorm: both are applied again
            g2 = b.add(('reuse', g2, gnode + 1), b.ch[g], b.sp[g])
        g2 = b.add(('relu', g2), b.ch[g], b.sp[g])
        if resid:
            p_ = b.add(('add', g, u), C, b.sp[g])
            q_ = b.add(('add', v, g2), C, b.sp[g])
        else:
            p_, q_ = g, g2
        cur = b.add(('cat', [p_, q_]), b.ch[p_] + b.ch[q_], b.sp[g])
        cur = b.conv(cur)
    elif o.get('reuse') and not b.taint[cur] and b.sp[cur] >= 4:
        # one layer invoked twice per forward, on a tensor and on its pooled version (same producer,
        # hence same mask): per-invocation metrics must charge each call site its own output shape
        g = b.conv(cur, keep_size=True, k_choices=[1, 3])
        gnode = g - 1 if b.prog[g - 1][0] == 'conv' else g - 2     # node of the conv itself
        while b.prog[gnode][0] != 'conv':
            gnode -= 1
        pooled = b.add(('pool', cur, nn.AvgPool1d(2) if dim == 1 else nn.AvgPool2d(2)), b.ch[cur], b.sp[cur] // 2)
        src2 = pooled
        if dim == 1:
            src2 = b.add(('reuse', pooled, gnode - 1), b.ch[cur], b.sp[pooled])
            b.taint[-1] = b.taint[pooled]
        g2 = b.add(('reuse', src2, gnode), b.ch[g], b.sp[pooled])
        if b.prog[gnode + 1][0] == 'bn':
            g2 = b.add(('reuse', g2, gnode + 1), b.ch[g], b.sp[pooled])
        g2 = b.add(('relu', g2), b.ch[g], b.sp[pooled])
        # join the two call sites after flattening
        fa = b.add(('flatf', g), b.ch[g] * (b.sp[g] if dim == 1 else b.sp[g] ** 2), 1)
        fb = b.add(('flatf', g2), b.ch[g] * (b.sp[g2] if dim == 1 else b.sp[g2] ** 2), 1)
        feat = b.ch[fa] + b.ch[fb]
        f = b.add(('cat', [fa, fb]), feat, 1)
        b.add(('lin', f, nn.Linear(feat, rng.choice([2, 3]))), 0, 1)
        return b.prog, ([shape, shape1] if two else [shape])
    if o.get('cat_tail') and not o.get('unsupported'):
        # a channel concat right before the flatten / head (with exclusions: reaches an excluded
        # Linear through concat + element-wise op + flatten)
        cands = [j for j in range(len(b.prog)) if b.sp[j] == b.sp[cur] and j != cur and
                 b.prog[j][0] in ('relu', 'pool', 'add')]
        if not cands:
            cands = [b.conv(cur, keep_size=True, k_choices=[1, 3])]
        lst = [cur, rng.choice(cands)]
        rng.shuffle(lst)
        cur = b.add(('cat', lst), sum(b.ch[j] for j in lst), b.sp[cur])
        if rng.random() < .6:
            cur = b.add(('relu', cur), b.ch[cur], b.sp[cur])
    if o.get('shared_bn'):
        # one BatchNorm module following two DIFFERENT layers of the same width (each layer gets its own copy at import)
        C = rng.choice([2, 3, 4])
        a = b.conv(cur, cout=C, keep_size=True, p_bn=1)
        bnnode = a
        while b.prog[bnnode][0] != 'bn':
            bnnode -= 1
        c2 = b.conv(a, cout=C, keep_size=True, p_bn=0)
        for lst in (b.prog, b.ch, b.sp, b.taint):      # drop the ReLU: the shared BatchNorm comes first
            lst.pop()
        c2 = b.add(('reuse', len(b.prog) - 1, bnnode), C, b.sp[a])
        b.taint[-1] = False
        cur = b.add(('relu', c2), C, b.sp[a])
    if o.get('shared_pad') and dim == 1:
        # one causally padded tensor (or one padding module) feeding two convolutions with the same kernel
        # extent: each needs its own amount of padding once its receptive field is pruned
        K = rng.choice([2, 3, 5])
        d = rng.choice([1, 2])
        cin = b.ch[cur]
        padm = nn.ConstantPad1d(((K - 1) * d, 0), 0.)
        p1 = b.add(('pad', cur, padm), cin, b.sp[cur])
        ca, cb = rng.choice([2, 3, 4]), rng.choice([2, 3, 4])
        na = b.add(('conv', p1, nn.Conv1d(cin, ca, K, dilation=d, bias=rng.random() < .7)), ca, b.sp[cur])
        na = b.add(('relu', na), ca, b.sp[cur])
        if rng.random() < .5:
            p2 = p1                                      # the same padded tensor
        else:
            p2 = b.add(('reuse', cur, p1), cin, b.sp[cur])   # the same padding module, applied again
            b.taint[-1] = b.taint[cur]
        nb = b.add(('conv', p2, nn.Conv1d(cin, cb, K, dilation=d, bias=rng.random() < .7)), cb, b.sp[cur])
        nb = b.add(('relu', nb), cb, b.sp[cur])
        cur = b.add(('cat', [na, nb]), ca + cb, b.sp[cur])
        cur = b.conv(cur)
    if o.get('reuse_dw') and not b.taint[cur]:
        # a depthwise convolution (per-feature weights, no features of its own) invoked on two tensors produced by
        # two different searchable layers: they must carry the same alive features
        C = b.ch[cur]
        u = b.conv(cur, cout=C, keep_size=True)
        v = b.conv(cur, cout=C, keep_size=True)
        g = b.conv(u, dw=True, keep_size=True, k_choices=[1, 3], p_bn=0)
        gnode = g
        while b.prog[gnode][0] != 'dw':
            gnode -= 1
        src2 = v
        if dim == 1:
            src2 = b.add(('reuse', v, gnode - 1), C, b.sp[v])
            b.taint[-1] = b.taint[v]
        g2 = b.add(('reuse', src2, gnode), C, b.sp[g])
        b.taint[-1] = False
        g2 = b.add(('relu', g2), C, b.sp[g])
        cur = b.add(('cat', [g, g2]), 2 * C, b.sp[g])
        cur = b.conv(cur)
    if o.get('fixed_cat') and not o.get('unsupported'):
        # channel concat of two tensors of fixed origin and different widths (layers excluded from
        # the search by name, or a network input), feeding a searchable layer
        ca = rng.choice([2, 3])
        # (a BatchNorm after an excluded layer stays a module of its own and becomes the first
        # consumer of the layer's fixed width: mostly left out here, so that the searchable layer
        # below is the first one to see both widths)
        forced = o.get('fixed_cat') == 'nested'
        a = b.conv(cur, cout=ca, keep_size=True, p_bn=0 if forced else .15)
        c2 = b.conv(cur, cout=ca + rng.choice([1, 2]), keep_size=True, p_bn=0 if forced else .15)
        for node in (a, c2):
            j = node
            while b.prog[j][0] not in ('conv',):
                j -= 1
            b.prog[j][-1]._force_excl = True
        if forced or rng.random() < .5:
            # nested: the same operand position at both levels holds a fixed-width tensor
            inner = b.add(('cat', [c2, cur]), b.ch[c2] + b.ch[cur], b.sp[cur])
            cur = b.add(('cat', [a, inner]), b.ch[a] + b.ch[inner], b.sp[cur])
        else:
            lst = [a, c2] + ([cur] if rng.random() < .4 else [])
            rng.shuffle(lst)
            cur = b.add(('cat', lst), sum(b.ch[j] for j in lst), b.sp[cur])
        cur = b.conv(cur)
    if o.get('grouped_excl') and not o.get('unsupported') and not o.get('unit'):
        # a grouped convolution with a channel multiplier (Conv(c, 2c, k, groups=c)), excluded from the search by
        # name (PIT does not convert such layers): it DEFINES 2c fixed features for whatever follows
        src = cur
        cur = b.conv(cur, cout=2 * b.ch[cur], keep_size=True, p_bn=.2, groups=b.ch[cur])
        j = cur
        while b.prog[j][0] != 'conv':
            j -= 1
        b.prog[j][-1]._force_excl = True
        if rng.random() < .5:
            cur = b.conv(cur)
    unsup = o.get('unsupported')
    if unsup == 'add_cat':
        # residual sum one of whose operands is a channel concat (known finding K9)
        a = b.conv(cur, keep_size=True)
        y = b.add(('cat', [a, cur]), b.ch[a] + b.ch[cur], b.sp[cur])
        z = b.conv(y, cout=b.ch[y], keep_size=True, k_choices=[1, 3])
        cur = b.add(('add', y, z), b.ch[y], b.sp[y])
    elif unsup == 'dw_cat':
        # depthwise convolution fed by a concat (known finding K10)
        a = b.conv(cur, keep_size=True)
        y = b.add(('cat', [a, cur]), b.ch[a] + b.ch[cur], b.sp[cur])
        cur = b.conv(y, dw=True)
    elif unsup == 'reuse_cat':
        # a layer invoked twice whose call sites are fed by channel concats: the concat cuts the sharing graph, the
        # tensors fed to the two call sites keep independent maskers (same root as K9)
        a1 = b.conv(cur, keep_size=True)
        y1 = b.add(('cat', [a1, cur]), b.ch[a1] + b.ch[cur], b.sp[cur])
        a2 = b.conv(cur, cout=b.ch[a1], keep_size=True)
        y2 = b.add(('cat', [a2, cur]), b.ch[a2] + b.ch[cur], b.sp[cur])
        g = b.conv(y1, keep_size=True, p_bn=0)
        gnode = g
        while b.prog[gnode][0] != 'conv':
            gnode -= 1
        src2 = y2
        if dim == 1:
            src2 = b.add(('reuse', y2, gnode - 1), b.ch[y2], b.sp[y2])
            b.taint[-1] = True
        g2 = b.add(('reuse', src2, gnode), b.ch[g], b.sp[g])
        g2 = b.add(('relu', g2), b.ch[g], b.sp[g])
        cur = b.add(('cat', [g, g2]), 2 * b.ch[g], b.sp[g])
        cur = b.conv(cur)
    nd = dim + 2            # rank of the activations
    if o.get('squeeze'):
        # global pooling, then the size-1 axes squeezed away (dims given from either end)
        g = b.add(('gap', cur, nn.AdaptiveAvgPool1d(1) if dim == 1 else nn.AdaptiveAvgPool2d(1)), b.ch[cur], 1)
        f = b.add(('squeeze', g, rng.choice([-1, nd - 1])), b.ch[cur], 1)
        if dim == 2:
            f = b.add(('squeeze', f, rng.choice([-1, 2])), b.ch[cur], 1)
        feat = b.ch[cur]
    else:
        feat = b.ch[cur] * (b.sp[cur] if dim == 1 else b.sp[cur] ** 2)
        # flatten variants: module / function / method, end_dim given or not, dims from either end
        se = rng.choice([(1,), (1,), (1, -1), (1, nd - 1), (1 - nd,), (1 - nd, -1)])
        r = rng.random()
        if r < .4:
            f = b.add(('flatm', cur, nn.Flatten(*se)), feat, 1)
        elif r < .8:
            f = b.add(('flatf', cur, se), feat, 1)
        else:
            f = b.add(('flatf', cur, ('method',) + se), feat, 1)
    head = o.get('head') or rng.choice(['plain', 'plain', 'plain', 'relu', 'bn', 'add', 'cat'])
    if rng.random() < .5:
        h = rng.choice([3, 4, 5])
        lyr = b.add(('lin', f, nn.Linear(feat, h, bias=rng.random() < .8)), h, 1)
        if rng.random() < .4:
            lyr = b.add(('bn', lyr, nn.BatchNorm1d(h)), h, 1)
        f = b.add(('relu', lyr), h, 1)
        feat = h
    nout = rng.choice([2, 3])
    last = b.add(('lin', f, nn.Linear(feat, nout)), nout, 1)
    # the network output reaches the caller through a post-op, a residual sum or a concatenation
    if head == 'relu':
        b.add(('relu', last), nout, 1)
    elif head == 'bn':
        b.add(('bn', last, nn.BatchNorm1d(nout)), nout, 1)
    elif head == 'add':
        other = b.add(('lin', f, nn.Linear(feat, nout)), nout, 1)
        b.add(('add', last, other), nout, 1)
    elif head == 'cat':
        other = b.add(('lin', f, nn.Linear(feat, rng.choice([2, 3]))), 0, 1)
        other = b.add(('relu', other), 0, 1) if rng.random() < .5 else other
        b.add(('cat', [last, other]), 0, 1)
    if o.get('two_outputs'):
        # forward returns a tuple: the logits and an intermediate activation (which must then keep its full width)
        cands = [j for j in range(len(b.prog) - 1) if b.prog[j][0] in ('relu', 'pool', 'add', 'cat')]
        if cands:
            b.prog.extra_out = rng.choice(cands)
            b.prog.out_form = rng.choice(['tuple', 'dict', 'nested'])
    return b.prog, ([shape, shape1] if two else [shape])


def build_net(prog, n_inputs):
    return (GNet2 if n_inputs == 2 else GNet1)(prog, n_inputs)


def randomize_bn(net, rng):
    g = torch.Generator().manual_seed(rng.randint(0, 1 << 30))
    with torch.no_grad():
        for m in net.modules():
            if isinstance(m, (nn.BatchNorm1d, nn.BatchNorm2d)):
                # hyper-parameters are part of the function: non-default eps (Keras-ported models
                # use 1e-3), small variances so that eps matters
                m.eps = rng.choice([1e-5, 1e-5, 1e-3, 1e-2, .1])
                m.running_mean.copy_(torch.randn(m.num_features, generator=g))
                m.running_var.copy_(torch.rand(m.num_features, generator=g) * rng.choice([1., 1., .05]) + rng.choice([.5, .02]))
                if m.affine:
                    m.weight.copy_(torch.randn(m.num_features, generator=g))
                    m.bias.copy_(torch.randn(m.num_features, generator=g))


def intify(net, rng):
    """Small integer weights, biases and BatchNorm statistics (variance 1, eps 0), so that every
    value the network computes on an integer input is an exactly representable integer."""
    with torch.no_grad():
        for m in net.modules():
            if isinstance(m, (nn.Conv1d, nn.Conv2d, nn.Linear)):
                m.weight.copy_(torch.tensor([rng.choice([-2, -1, -1, 0, 1, 1, 2]) for _ in range(m.weight.numel())],
                                            dtype=torch.float32).reshape(m.weight.shape))
                if m.bias is not None:
                    m.bias.copy_(torch.tensor([float(rng.randint(-3, 3)) for _ in range(m.bias.numel())]))
            elif isinstance(m, (nn.BatchNorm1d, nn.BatchNorm2d)):
                n = m.num_features
                m.eps = 0.
                m.running_var.fill_(1.)
                m.running_mean.copy_(torch.tensor([float(rng.randint(-2, 2)) for _ in range(n)]))
                if m.affine:
                    m.weight.copy_(torch.tensor([float(rng.choice([-2, -1, 1, 1, 2])) for _ in range(n)]))
                    m.bias.copy_(torch.tensor([float(rng.randint(-2, 2)) for _ in range(n)]))


def choose_exclusions(prog, rng, mode):
    """mode: None | 'names' | 'types' | 'both'.  Returns (exclude_names, exclude_types, excluded node ids)."""
    layers = [i for i, ins in enumerate(prog) if ins[0] in ('conv', 'dw', 'lin')]
    names, types, excl = [], [], set()
    for i in layers:
        if getattr(prog[i][-1], '_force_excl', False):
            names.append('n%d' % i)
            excl.add(i)
    if mode in ('names', 'both'):
        # never exclude the last layer only (too easy): pick 1..2 layers anywhere
        for i in rng.sample(layers, min(len(layers), rng.choice([1, 1, 2]))):
            names.append('n%d' % i)
            excl.add(i)
    if mode == 'lastlin':
        # the first Linear after the flatten, by name
        lins = [i for i in layers if prog[i][0] == 'lin']
        names.append('n%d' % lins[0])
        excl.add(lins[0])
    if mode in ('types', 'both'):
        t = rng.choice([nn.Linear, nn.Linear, type(prog[layers[0]][-1])])
        types.append(t)
        for i in layers:
            if type(prog[i][-1]) is t:
                excl.add(i)
    return names, types, excl


def shapes_of(net, shapes):
    rec = []
    with torch.no_grad():
        net.eval()
        net.run([torch.zeros((1,) + s) for s in shapes], record=rec)
    return rec


def render(prog, shapes_rec, excl, layer_info):
    """Program -> ops part of the Lean request.  layer_info[i] = (k_alive, has_bias) of layer i
    as the real (PIT or plain) layer reports them."""
    out = []
    for i, ins in enumerate(prog):
        op = ins[0]
        shp = shapes_rec[i]
        osz = 1
        for d in shp[2:]:
            osz *= d
        if op == 'input':
            out.append('input %d' % shp[1])
        elif op in ('pad', 'bn', 'pool', 'relu', 'gap', 'squeeze'):
            out.append('chan %d' % ins[1])
        elif op in ('conv', 'dw', 'lin'):
            k, bias = layer_info[i]
            m = ins[-1]
            if op == 'conv':
                if i in excl and m.groups > 1:
                    out.append('fixedg %d %d %d %d %d %d' % (ins[1], m.out_channels, k, bias, osz, m.groups))
                elif i in excl:
                    out.append('fixed %d %d %d %d %d 0' % (ins[1], m.out_channels, k, bias, osz))
                else:
                    out.append('conv %d %d %d %d %d' % (ins[1], m.out_channels, k, bias, osz))
            elif op == 'dw':
                out.append(('fixeddw %d %d %d %d' if i in excl else 'dw %d %d %d %d') % (ins[1], k, bias, osz))
            else:
                if i in excl:
                    out.append('fixed %d %d 1 %d 1 1' % (ins[1], m.out_features, bias))
                else:
                    out.append('lin %d %d %d' % (ins[1], m.out_features, bias))
        elif op == 'reuse':
            tgt = prog[ins[2]]
            if tgt[0] == 'conv':
                # the conv layer of node ins[2] (applied there to tgt[1]) applied again, to ins[1]
                k, bias = layer_info[ins[2]]
                if ins[2] in excl:
                    return None      # an excluded layer invoked twice is not in the model
                out.append('reuse %d %d %d %d %d %d %d' % (ins[1], ins[2], tgt[1], tgt[-1].out_channels, k, bias, osz))
            elif tgt[0] == 'dw':
                # the depthwise layer of node ins[2] (applied there to tgt[1]) applied again, to ins[1]
                k, bias = layer_info[ins[2]]
                if ins[2] in excl:
                    return None
                out.append('reusedw %d %d %d %d %d %d' % (ins[1], ins[2], tgt[1], k, bias, osz))
            elif tgt[0] in ('pad', 'bn'):
                out.append('chan %d' % ins[1])       # the padding / (fused) BatchNorm of the block applied again
            else:
                return None
        elif op == 'add':
            out.append('add %d %d' % (ins[1], ins[2]))
        elif op == 'cat':
            out.append('cat ' + ','.join(map(str, ins[1])))
        elif op == 'tcat':
            out.append('tcat ' + ','.join(map(str, ins[1])))
        elif op in ('flatm', 'flatf'):
            src_shape = shapes_rec[ins[1]]
            mult = 1
            for d in src_shape[2:]:
                mult *= d
            out.append('flat %d %d' % (ins[1], mult))
        else:
            raise ValueError(op)
    out.append('output %d' % (len(prog) - 1))
    if getattr(prog, 'extra_out', None) is not None:
        out.append('output %d' % prog.extra_out)
    return ';'.join(out)


def prog_summary(prog):
    """One token per node (index-aligned with the program); a trailing `also-returns:<n>` for a second output."""
    return [ins[0] + (str(list(ins[1])) if ins[0] in ('cat', 'tcat') else '') for ins in prog] + \
        ([] if getattr(prog, 'extra_out', None) is None else ['also-returns:%d:%s' % (prog.extra_out, getattr(prog, 'out_form', 'tuple'))])


ALPHA_PALETTE = [0, 1, 2, 3, 4, 5, 6, 8, 12, -3, -6, 4, 8]   # eighths


def set_masks(pit, rng, style='mixed'):
    """Assign mask parameters of a real PIT model (exact dyadic values).  Returns {masker id: values}."""
    from plinio.methods.pit.nn.features_masker import PITFrozenFeaturesMasker
    done = {}
    with torch.no_grad():
        for _, layer in pit.seed.named_modules():
            m = getattr(layer, 'out_features_masker', None)
            if m is None or id(m) in done:
                continue
            if isinstance(m, PITFrozenFeaturesMasker):
                # a frozen mask is a constant whatever its `alpha` entry of the state_dict holds
                if style != 'open':
                    m.alpha.copy_(torch.tensor([rng.choice(ALPHA_PALETTE) / 8 for _ in range(m.alpha.numel())]))
                done[id(m)] = None
                continue
            n = m.alpha.numel()
            if style == 'open':
                a = torch.ones(n)
            elif style == 'min':
                a = torch.zeros(n)
            else:
                a = torch.tensor([rng.choice(ALPHA_PALETTE) / 8 for _ in range(n)])
            m.alpha.copy_(a)
            done[id(m)] = a
        for _, layer in pit.seed.named_modules():
            for mk, pname in (('timestep_masker', 'beta'), ('dilation_masker', 'gamma')):
                m = getattr(layer, mk, None)
                if m is None:
                    continue
                p = getattr(m, pname)
                if not isinstance(p, nn.Parameter):
                    continue        # frozen (buffer)
                if style == 'open':
                    v = torch.ones_like(p)
                elif style == 'min':
                    v = torch.zeros_like(p)
                else:
                    r = rng.random()
                    if r < .4:
                        v = (torch.tensor([rng.random() for _ in range(p.numel())]) < .5).float()
                    elif r < .7:
                        v = torch.tensor([rng.choice(ALPHA_PALETTE) / 8 for _ in range(p.numel())])
                    else:
                        v = torch.ones_like(p)
                p.copy_(v)
    return done


def frac_list(t):
    return ','.join(str(Fraction(float(v))) for v in t)


def copy_bn_stats(pit, exported):
    """Give each BatchNorm that export re-created the statistics of the one it replaces."""
    with torch.no_grad():
        for name, layer in pit.seed.named_modules():
            if getattr(layer, 'bn', None) is not None and not layer.fold_bn:
                try:
                    ebn = exported.get_submodule(name + '_exported_bn')
                except AttributeError:
                    continue
                m = layer.features_mask.bool()
                ebn.running_mean.copy_(layer.bn.running_mean[m])
                ebn.running_var.copy_(layer.bn.running_var[m])
                if layer.bn.affine:
                    ebn.weight.copy_(layer.bn.weight[m])
                    ebn.bias.copy_(layer.bn.bias[m])
