"""Shared machinery of every property check (see DESIGN.md section 2.1).

A check has three legs and one verdict:

  proof leg           `lake build PlinioVerif.Props.Cxx` + axiom audit of every theorem in it
  correspondence leg  model (Lean driver, line protocol) vs implementation on the same cases
  oracle leg          the property's own statement run on the real implementation

A broken proof or correspondence is never a violation by itself: the check then searches the
implementation for a failing input (oracle leg, escalated) and reports that as the replay; if it
finds none it reports `no-failing-input-found` and names what no longer checks.
"""
import fcntl
import hashlib
import json
import os
import random
import re
import subprocess
import sys
import time

VERIF = os.path.dirname(os.path.dirname(os.path.abspath(__file__)))
LEAN_DIR = os.path.join(VERIF, 'lean')
REPO = os.environ.get('PLINIO_SRC', '/repo')
# evidence/ and replays/ live in /verif, except for development runs against a scratch copy
# (PLINIO_SRC set), which must never overwrite the evidence of the real tree
OUT = os.environ.get('VERIF_OUT') or (VERIF if REPO == '/repo' else os.path.join(REPO, 'verif_out'))
ALLOWED_AXIOMS = {'propext', 'Classical.choice', 'Quot.sound'}
FORBIDDEN_TOKENS = re.compile(
    r'\b(sorry|admit|native_decide|bv_decide|implemented_by|unsafe)\b|^\s*axiom\s|maxHeartbeats\s+0\b',
    re.M)

TRUSTED_BASE_COMMON = [
    'Lean 4.33.0 kernel; axioms limited to propext, Classical.choice, Quot.sound (audited per theorem)',
    'Mathlib v4.33.0 single modules, only in Lemmas/ and Props/',
    'hand-written model tied to /repo by the differential correspondence of this run '
    '(equal on the generated cases, not proved equal on all inputs)',
    'modelled, not verified: float32 as exact rationals, torch kernels, torch.fx, autograd, Python glue',
]


def use_repo_on_path():
    """Make `import plinio` resolve to the tree under test (default /repo; PLINIO_SRC overrides,
    used only by the development self-test on scratch copies)."""
    if REPO not in sys.path[:1]:
        sys.path.insert(0, REPO)
    os.environ.setdefault('OMP_NUM_THREADS', '1')
    os.environ.setdefault('MKL_NUM_THREADS', '1')


class InfraError(Exception):
    pass


def _strip_comments(src):
    src = re.sub(r'/-.*?-/', '', src, flags=re.S)
    return re.sub(r'--.*', '', src)


def lake(args, timeout=3000):
    """Run lake in the project under an exclusive lock (several checks may run at once)."""
    os.makedirs(LEAN_DIR, exist_ok=True)
    with open(os.path.join(LEAN_DIR, '.lake.lock'), 'w') as lk:
        fcntl.flock(lk, fcntl.LOCK_EX)
        try:
            p = subprocess.run(['lake'] + args, cwd=LEAN_DIR, capture_output=True, text=True,
                               timeout=timeout)
        except subprocess.TimeoutExpired:
            raise InfraError('lake %s timed out' % ' '.join(args))
        finally:
            fcntl.flock(lk, fcntl.LOCK_UN)
    return p.returncode, p.stdout + p.stderr


def lean_files_of(module):
    """Source files a Props module transitively imports inside the project."""
    seen, todo = [], [module]
    while todo:
        m = todo.pop()
        path = os.path.join(LEAN_DIR, *m.split('.')) + '.lean'
        if m in seen or not os.path.exists(path):
            continue
        seen.append(m)
        for mm in re.findall(r'^import\s+(PlinioVerif\.[\w.]+)', open(path).read(), re.M):
            todo.append(mm)
    return [os.path.join(LEAN_DIR, *m.split('.')) + '.lean' for m in seen]


AUDIT_TEMPLATE = '''import Lean
import {module}
open Lean Elab Command in
run_cmd do
  let env ← getEnv
  let some idx := env.getModuleIdx? `{module} | throwError "no module"
  let names := env.header.moduleData[idx.toNat]!.constNames
  for n in names do
    if n.isInternalDetail then continue
    -- theorems the `inductive` / `structure` commands generate are not property statements
    if (match n with | .str _ s => ["injEq", "inj", "sizeOf_spec", "eq_1", "eq_def", "ext", "ext_iff", "mk.injEq", "mk.inj"].contains s || s.startsWith "eq_" | _ => false) then continue
    match env.find? n with
    | some (.thmInfo _) =>
      let axs ← Lean.collectAxioms n
      IO.println s!"AUDIT {{n}} {{axs.toList}}"
    | _ => pure ()
'''


def run_lean_file(path, stdin=None, timeout=1800, run=False):
    cmd = ['lake', 'env', 'lean'] + (['--run'] if run else []) + [path]
    try:
        p = subprocess.run(cmd, cwd=LEAN_DIR, input=stdin, capture_output=True, text=True,
                           timeout=timeout)
    except subprocess.TimeoutExpired:
        raise InfraError('lean %s timed out' % path)
    return p.returncode, p.stdout, p.stderr


class Check:
    def __init__(self, prop, tier, seed):
        self.prop, self.tier, self.seed = prop, tier, seed
        self.t0 = time.time()
        self.rng = random.Random(seed)
        self.quick = tier == 'quick'
        # proof leg
        self.obligations = []        # (theorem, axioms) audited
        self.proof_broken = []       # strings naming what no longer checks
        self.checker_cmds = []
        # correspondence leg
        self.corr_cases = 0
        self.corr_disagreements = []  # dicts
        # oracle leg / counters
        self.evaluations = 0
        self.nontrivial = set()
        self.samples = []
        self.hist = {}
        self.violations = []          # dicts {key, what, case}
        self.observations = []
        self.assumptions = []
        self.trusted = list(TRUSTED_BASE_COMMON)
        self.rule = ''
        self.extra = {}
        self.level = 'proof'

    # ------------------------------------------------------------------ proof leg
    def prove(self, module=None, extra_targets=()):
        """Build the property's theorem file and audit the axioms of every theorem in it."""
        module = module or 'PlinioVerif.Props.%s' % self.prop
        targets = [module] + list(extra_targets)
        aname = module.split('.')[-1]
        cmd = 'cd lean && lake build %s && lake env lean .audit/%s.lean' % (' '.join(targets), aname)
        self.checker_cmds.append(cmd)
        rc, out = lake(['build'] + targets)
        if rc != 0:
            errs = [l for l in out.splitlines() if 'error' in l][:8]
            self.proof_broken.append('lake build %s failed: %s' % (module, ' | '.join(errs)))
            self.extra['lake_output_tail'] = out[-3000:]
            return False
        # forbidden tokens outside comments, in every project file the module depends on
        for f in lean_files_of(module):
            m = FORBIDDEN_TOKENS.search(_strip_comments(open(f).read()))
            if m:
                self.proof_broken.append('forbidden token %r in %s' % (m.group(0).strip(), os.path.relpath(f, VERIF)))
        os.makedirs(os.path.join(LEAN_DIR, '.audit'), exist_ok=True)
        apath = os.path.join(LEAN_DIR, '.audit', '%s.lean' % aname)
        with open(apath, 'w') as fh:
            fh.write(AUDIT_TEMPLATE.format(module=module))
        rc, out, err = run_lean_file(apath)
        if rc != 0:
            self.proof_broken.append('axiom audit failed: ' + (out + err)[-400:])
            return False
        n = 0
        for line in out.splitlines():
            m = re.match(r'AUDIT (\S+) \[(.*)\]', line)
            if not m:
                continue
            n += 1
            axs = [a.strip() for a in m.group(2).split(',') if a.strip()]
            self.obligations.append((m.group(1), axs))
            bad = [a for a in axs if a not in ALLOWED_AXIOMS]
            if bad:
                self.proof_broken.append('theorem %s depends on axioms %s' % (m.group(1), bad))
        if n == 0:
            self.proof_broken.append('no theorem found in %s' % module)
        if not self.quick:
            mods = [os.path.relpath(f, LEAN_DIR)[:-5].replace('/', '.') for f in lean_files_of(module)]
            cmd = ['lake', 'env', 'leanchecker'] + mods
            self.checker_cmds.append('cd lean && ' + ' '.join(cmd))
            try:
                p = subprocess.run(cmd, cwd=LEAN_DIR, capture_output=True, text=True, timeout=3000)
                self.extra['leanchecker'] = 'ok' if p.returncode == 0 else (p.stdout + p.stderr)[-500:]
                if p.returncode != 0:
                    self.proof_broken.append('leanchecker rejected %s' % module)
            except subprocess.TimeoutExpired:
                self.extra['leanchecker'] = 'timeout (not counted)'
        return not self.proof_broken

    # --------------------------------------------------------- correspondence leg
    def driver(self, name, lines, timeout=1800):
        """Pipe request lines through `lean --run Drivers/<name>.lean`; one answer per line."""
        if not lines:
            return []
        rc, out = lake(['build', 'PlinioVerif.Model.Proto'])   # make sure oleans exist
        path = os.path.join('Drivers', name + '.lean')
        # build whatever the driver imports
        src = open(os.path.join(LEAN_DIR, path)).read()
        mods = re.findall(r'^import\s+(PlinioVerif\.[\w.]+)', src, re.M)
        rc, out = lake(['build'] + mods)
        if rc != 0:
            raise InfraError('cannot build driver imports: ' + out[-800:])
        rc, out, err = run_lean_file(path, stdin='\n'.join(lines) + '\n', timeout=timeout, run=True)
        res = out.splitlines()
        if rc != 0 or len(res) != len(lines):
            raise InfraError('driver %s: rc=%s, %d answers for %d requests; %s'
                             % (name, rc, len(res), len(lines), (err or out)[-600:]))
        return res

    def corr(self, case, real, model, what='model/implementation correspondence'):
        """Record one correspondence comparison (canonicalised values)."""
        self.corr_cases += 1
        if real != model:
            if len(self.corr_disagreements) < 50:
                self.corr_disagreements.append({'case': case, 'impl': real, 'model': model, 'what': what})
            else:
                self.extra['corr_disagreements_dropped'] = self.extra.get('corr_disagreements_dropped', 0) + 1
            return False
        return True

    # ----------------------------------------------------------------- bookkeeping
    def count(self, case_id, nontrivial=True, sample=None, bucket=None):
        self.evaluations += 1
        if nontrivial:
            self.nontrivial.add(hashlib.sha1(repr(case_id).encode()).hexdigest())
        if sample is not None and len(self.samples) < 6:
            self.samples.append(sample)
        if bucket is not None:
            self.hist[bucket] = self.hist.get(bucket, 0) + 1

    def violation(self, key, what, case):
        """The property itself fails on the real implementation for `case`."""
        self.violations.append({'key': key, 'what': what, 'case': case})

    def observe(self, text):
        if text not in self.observations:
            self.observations.append(text)

    # --------------------------------------------------------------------- verdict
    def finish(self):
        known = load_known(self.prop)
        os.makedirs(os.path.join(OUT, 'replays'), exist_ok=True)
        exit_code = 0
        lines = []
        seen_known, new_by_key = {}, {}
        for v in self.violations:
            if v['key'] in known:
                seen_known.setdefault(v['key'], v)
            else:
                new_by_key.setdefault(v['key'], v)
        for key, v in seen_known.items():
            lines.append('KNOWN-FINDING: property=%s %s [%s]' % (self.prop, known[key]['what'], key))
        for i, (key, v) in enumerate(sorted(new_by_key.items())):
            path = os.path.join('replays', '%s-%d-%d.json' % (self.prop, self.seed, i))
            with open(os.path.join(OUT, path), 'w') as fh:
                json.dump({'property': self.prop, 'seed': self.seed, 'tier': self.tier, 'key': key,
                           'what': v['what'], 'case': v['case'],
                           'replay_cmd': './check %s --replay %s' % (self.prop, path)}, fh, indent=1, default=str)
            lines.append('VIOLATION property=%s replay=%s' % (self.prop, path))
            exit_code = 1
        broken = list(self.proof_broken)
        if self.corr_disagreements:
            broken.append('correspondence: %d disagreement(s), first: %s'
                          % (len(self.corr_disagreements), json.dumps(self.corr_disagreements[0], default=str)[:600]))
        if broken and not new_by_key:
            path = os.path.join('replays', '%s-%d-unproved.json' % (self.prop, self.seed))
            with open(os.path.join(OUT, path), 'w') as fh:
                json.dump({'property': self.prop, 'seed': self.seed, 'tier': self.tier,
                           'no_longer_checks': broken,
                           'correspondence_disagreements': self.corr_disagreements[:10],
                           'searched': {'evaluations': self.evaluations},
                           'note': 'no failing input of the property was found on the implementation; '
                                   'the property is no longer shown to hold'}, fh, indent=1, default=str)
            lines.append('VIOLATION property=%s replay=%s no-failing-input-found' % (self.prop, path))
            exit_code = 1
        n_obl = len(self.obligations)
        bad_thms = set()
        for (t, axs) in self.obligations:
            if any(a not in ALLOWED_AXIOMS for a in axs):
                bad_thms.add(t)
        discharged = 0 if any('lake build' in b for b in self.proof_broken) else n_obl - len(bad_thms)
        cov = {
            'obligations': max(n_obl, 1 if self.proof_broken else 0),
            'discharged': discharged,
            'checker_cmd': ' ; '.join(self.checker_cmds) or 'n/a',
            'trusted_base': self.trusted,
            'theorems': [t for (t, _) in self.obligations],
            'axioms_used': sorted({a for (_, axs) in self.obligations for a in axs}),
            'evaluations': self.evaluations,
            'distinct_nontrivial': len(self.nontrivial),
            'rule': self.rule,
            'samples': self.samples,
            'traces_validated_against_impl': self.corr_cases,
            'correspondence_disagreements': len(self.corr_disagreements),
            'histogram': self.hist,
            'known_findings_reobserved': sorted(seen_known),
            'known_findings_listed_not_reobserved': sorted(k for k in known if k not in seen_known),
            'observations': self.observations,
            'proof_or_correspondence_broken': broken,
        }
        cov.update(self.extra)
        ev = {'property_id': self.prop, 'tier': self.tier, 'seed': self.seed, 'level': self.level,
              'coverage': cov, 'assumptions': self.assumptions,
              'wall_s': round(time.time() - self.t0, 2), 'violations': len(new_by_key) + (1 if broken and not new_by_key else 0)}
        os.makedirs(os.path.join(OUT, 'evidence'), exist_ok=True)
        with open(os.path.join(OUT, 'evidence', self.prop + '.json'), 'w') as fh:
            json.dump(ev, fh, indent=1, default=str)
        for l in lines:
            print(l)
        print('%s %s seed=%d: %d theorems (%d discharged), %d correspondence cases (%d disagreements), '
              '%d oracle evaluations, %d new violation key(s), %.1fs'
              % (self.prop, self.tier, self.seed, n_obl, discharged, self.corr_cases,
                 len(self.corr_disagreements), self.evaluations, len(new_by_key), time.time() - self.t0))
        return exit_code


def load_known(prop):
    """Open known findings of a property, keyed by finding key (never written at run time)."""
    path = os.path.join(VERIF, 'known_findings.json')
    if not os.path.exists(path):
        return {}
    out = {}
    for f in json.load(open(path))['findings']:
        if f['property'] == prop and f['status'] == 'open':
            out[f['key']] = f
    return out


def pmap(fn, items, workers=None):
    """Map over a process pool (spawn: torch does not like fork); preserves order."""
    import concurrent.futures as cf
    import multiprocessing as mp
    items = list(items)
    if not items:
        return []
    workers = min(workers or int(os.environ.get('VERIF_WORKERS', '12')), len(items))
    if workers <= 1:
        return [fn(x) for x in items]
    ctx = mp.get_context('spawn')
    with cf.ProcessPoolExecutor(max_workers=workers, mp_context=ctx) as ex:
        return list(ex.map(fn, items, chunksize=max(1, len(items) // (workers * 4))))
