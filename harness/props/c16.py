"""C16 — built-in cost models are finite, non-negative and monotone in layer size.

translation leg      harness/regen.py regenerates lean/PlinioVerif/Gen/{Ste,Cost}.lean from
                     plinio/cost/*.py of the tree under test (every cost function, the autograd.Function
                     helpers forward+backward, the MPIC table, the registrations).
proof leg            lean/PlinioVerif/Props/C16.lean: Gen = Spec for every generated function, and
                     the sign / monotonicity / accept-reject theorems for every registration.
correspondence leg   the generated functions (Drivers/C16.lean, exact rationals) against the real
                     Python functions on the same layer descriptions: every registered function on
                     stratified grids (supported and unsupported descriptions, integer and half-integer
                     channel counts, plain numbers and float64 tensors), the rounding helpers forward
                     and backward (autograd), the hand models of Ne16PerfModel and ComputeOxUnrollSTE
                     against the real classes, and the list of registrations.  This validates the
                     translator (and the two hand models) on every run.
oracle leg           the property's own predicates on the REAL functions over the grids of the
                     property's quantifier: finite, non-negative, positive for non-empty layers,
                     monotone along every axis (full sweeps: channels 1..130 in half steps, kernels
                     {1,3,5,7}, outputs 1..33, bits {0,2,4,8}) and on random pairs, helpers exact on
                     integers / between floor and ceiling + monotone on fractional counts / gradients
                     passed through, depthwise = generic per group, unsupported precisions, kernels
                     and groups rejected.
"""
import importlib
import math
from fractions import Fraction as F

from .. import common, regen

BIT_AWARE = {'params_bit', 'ops_bit', 'mpic_latency', 'mpic_energy', 'ne16_latency'}
DW_FAMILIES = ['params', 'params_no_bias', 'params_bit', 'ops', 'ops_no_bias', 'ops_bit']
# relative band for the models whose constants are not dyadic (1/6.5, 70/(1e9/260e6), float32 mean)
INEXACT = {'mpic_latency': (1e-9, 1e-9), 'mpic_energy': (1e-6, 1e-6), 'diana_latency': (1e-9, 2e-6)}   # (float64, otherwise)
KEYS = {'ic': 'in_channels', 'oc': 'out_channels', 'if': 'in_features', 'of': 'out_features', 'g': 'groups',
        'wp': 'w_precision', 'ip': 'in_precision', 'th': 'w_theta_alpha'}
KDIM = {'Conv1d': 1, 'Conv2d': 2, 'Linear': 0}
CH_GRID = [F(i, 2) for i in range(2, 261)]          # 1, 1.5, ..., 130
K_GRID = [1, 3, 5, 7]
OUT_GRID = list(range(1, 34))
BITS = [0, 2, 4, 8]


def q(x):
    x = F(x)
    return str(x.numerator) if x.denominator == 1 else '%d/%d' % (x.numerator, x.denominator)


# ------------------------------------------------------------------------------- catalogue
def entries():
    """every registration of every built-in CostSpec of the real package:
    (spec name, layer type name, constraint name, module, function name)"""
    import plinio.cost as pc
    from plinio.cost import CostSpec
    out = []
    for n in pc.__all__:
        o = getattr(pc, n)
        if isinstance(o, CostSpec):
            for typ, lst in o.data.items():
                for c, fn in lst:
                    out.append((n, typ.__name__, c.__name__ if c else '', fn.__module__.split('.')[-1], fn.__name__))
    return out


def _fn(module, name):
    return getattr(importlib.import_module('plinio.cost.' + module), name)


# ------------------------------------------------------------------------------- cases
def is_supported(spec, layer, dw, c):
    """the precisions / kernels / groups the restricted models document as supported"""
    wp, ip = c.get('wp', 8), c.get('ip', 8)
    ap = c['ap'] if c.get('hasap') else ip
    if spec in ('mpic_latency', 'mpic_energy'):
        return ip in (2, 4, 8) and wp in (0, 2, 4, 8)
    if spec == 'ne16_latency':
        if wp == 0 or c.get('th', 1) == 0:
            return True
        if ip != 8:
            return False
        if layer == 'Linear':
            return True
        k = tuple(c['k'])
        return k == (3, 3) or (k == (1, 1) and not dw)
    if spec == 'diana_latency':
        if ap != 8:
            return False
        if wp == 2:
            return layer == 'Linear' or c.get('g', 1) == 1
        if wp == 8:
            return layer == 'Linear' or c.get('g', 1) != 0
        return False
    return True


def positive_expected(spec, c):
    """non-empty layer at non-zero bit-widths (all generated layers are non-empty)"""
    if spec in BIT_AWARE:
        if c.get('wp', 8) == 0:
            return False
        if spec == 'ops_bit' and c.get('ip', 8) == 0:
            return False
        if spec == 'ne16_latency' and c.get('th', 1) == 0:
            return False
    return True


def gen_case(rng, spec, layer, dw, want_supported=None):
    """one layer description on the grids of the property's quantifier"""
    for _ in range(200):
        relaxed = rng.random() < 0.35

        def ch():
            v = F(rng.randint(1, 130))
            if relaxed and rng.random() < 0.6 and v < 130:
                v += F(1, 2)
            return v
        c = {'bias': rng.randint(0, 1), 'hasap': 0, 'ap': 8}
        if spec in ('mpic_latency', 'mpic_energy'):
            c['wp'] = rng.choice([0, 2, 4, 8, 8, 3, 16]); c['ip'] = rng.choice([2, 4, 8, 8, 0, 5])
        elif spec == 'ne16_latency':
            c['wp'] = rng.choice([0, 2, 4, 8, 8]); c['ip'] = rng.choice([8, 8, 8, 8, 4, 2])
            c['th'] = rng.choice([1, 1, 1, F(1, 2), F(1, 4), 0])
        elif spec == 'diana_latency':
            c['wp'] = rng.choice([2, 8, 8, 4, 0]); c['ip'] = rng.choice([8, 8, 8, 4])
            if rng.random() < 0.4:
                c['hasap'] = 1; c['ap'] = rng.choice([8, 8, 2])
        else:
            c['wp'] = rng.choice(BITS); c['ip'] = rng.choice(BITS)
        c.setdefault('th', 1)
        if layer == 'Linear':
            c['if'] = ch(); c['of'] = ch()
            c['osh'] = [1, int(c['of'])]
        else:
            kd = KDIM[layer]
            if dw:
                c['ic'] = c['oc'] = c['g'] = ch()
            else:
                c['ic'] = ch(); c['oc'] = ch()
                # groups in {1, 2, in_channels} for the generic handlers (the size / operation counts divide
                # by it); torch wants both channel counts divisible by groups, relaxed counts only occur
                # with groups = 1 (PIT / MPS convert groups == 1 or depthwise convolutions only)
                r = rng.random()
                if relaxed or r < 0.5:
                    c['g'] = 1
                elif r < 0.75:
                    c['g'] = 2
                    c['ic'] = F(2 * rng.randint(1, 65)); c['oc'] = F(2 * rng.randint(1, 65))
                else:                                 # groups = in_channels, channel multiplier 1..4
                    cin = rng.randint(1, 65 if rng.random() < 0.7 else 130)
                    mult = rng.randint(1, max(1, min(4, 130 // cin)))
                    c['ic'] = F(cin); c['oc'] = F(cin * mult); c['g'] = F(cin)
            if spec == 'ne16_latency':
                kk = rng.choice([1, 3, 3, 3, 5])
                c['k'] = [kk] * kd if rng.random() < 0.9 else [kk, rng.choice(K_GRID)][:kd]
            else:
                c['k'] = [rng.choice(K_GRID) for _ in range(kd)]
                if rng.random() < 0.5:
                    c['k'] = [c['k'][0]] * kd
            c['osh'] = [1, int(c['oc'])] + [rng.choice(OUT_GRID) for _ in range(kd)]
        if want_supported is None or is_supported(spec, layer, dw, c) == want_supported:
            return c
    return c


def case_line(module, fn, c):
    parts = ['costfn', module, fn]
    for k, v in c.items():
        if isinstance(v, list):
            parts.append('%s=[%s]' % (k, ','.join(q(x) for x in v)))
        else:
            parts.append('%s=%s' % (k, q(v)))
    return ' '.join(parts)


def _num(v, mode, torch):
    v = F(v)
    if mode == 'py':
        return int(v) if v.denominator == 1 else float(v)
    return torch.tensor(float(v), dtype=torch.float32 if mode == 'f32' else torch.float64)


def py_spec(c, mode, module):
    """the PatternSpec dictionary of a case; `mode`: 'py' plain numbers, 'f64' / 'f32' 0-dim tensors"""
    import torch
    sp = {}
    for k, v in c.items():
        if k in KEYS:
            m = mode
            if k in ('wp', 'ip') and module.startswith('mpic'):
                m = 'f64' if mode == 'py' else mode        # the MPIC model calls .item() on the precisions
            sp[KEYS[k]] = _num(v, m, torch)
    if 'k' in c:
        sp['kernel_size'] = tuple(int(x) if F(x).denominator == 1 else float(x) for x in c['k'])
    sp['output_shape'] = tuple(int(x) for x in c['osh'])
    sp['_parameters'] = {'bias': torch.zeros(1) if c.get('bias') else None}
    if c.get('hasap'):
        sp['a_precision'] = _num(c['ap'], mode, torch)
    return sp


def eval_real(module, fn, c, mode):
    """('ok', float) | ('raise', exception name) | ('nonfinite', repr)"""
    try:
        r = _fn(module, fn)(py_spec(c, mode, module))
    except Exception as ex:              # noqa: the property asks for *a* rejection
        return ('raise', type(ex).__name__)
    try:
        if hasattr(r, 'detach'):
            r = r.detach()
        if isinstance(r, int):
            return ('ok', F(r))
        r = float(r)
    except Exception as ex:
        return ('raise', 'result:' + type(ex).__name__)
    if not math.isfinite(r):
        return ('nonfinite', repr(r))
    return ('ok', F(r))


def canon(res):
    return 'ok:' + q(res[1]) if res[0] == 'ok' else 'err'


def agree(module, real, model, mode='f64'):
    """exact, or within the float band for the models with non-dyadic constants"""
    if real == model:
        return 'exact'
    if real.startswith('ok:') and model.startswith('ok:') and module in INEXACT:
        a, b = F(real[3:]), F(model[3:])
        band = INEXACT[module][0 if mode == 'f64' else 1]
        if b != 0 and abs(a - b) <= band * abs(b):
            return 'band'
    if real.startswith('ok:') and model.startswith('ok:') and mode != 'f64':
        # plain numbers / float32 tensors go through float32 inside the STE helpers: above 2^24 the carrier is no longer
        # exact (a few ulps of 2^-23 relative); the float64 runs of the same grid stay exact
        a, b = F(real[3:]), F(model[3:])
        if abs(b) >= 2 ** 24 and abs(a - b) <= 5e-7 * abs(b):
            return 'band'
    return None


# ------------------------------------------------------------------------------- workers
def _setup_worker():
    common.use_repo_on_path()
    import os
    import plinio
    if not os.path.abspath(plinio.__file__).startswith(os.path.abspath(common.REPO) + os.sep):
        raise common.InfraError('plinio is imported from %s, not from the tree under test %s'
                                % (plinio.__file__, common.REPO))
    import warnings
    warnings.simplefilter('ignore', UserWarning)      # torch.tensor(tensor) inside GateSTE.forward
    import torch
    torch.set_num_threads(1)


def w_eval(batch):
    """[(module, fn, case, mode)] -> [canonical string]"""
    _setup_worker()
    return [canon(eval_real(m, f, c, mode)) for (m, f, c, mode) in batch]


def axes_of(spec, layer, dw):
    ax = []
    if layer == 'Linear':
        ax += ['if', 'of']
    else:
        ax += ['ch'] if dw else ['ic', 'oc']
        ax += ['k%d' % i for i in range(KDIM[layer])] + ['kall'] + ['o%d' % (i + 2) for i in range(KDIM[layer])]
    if spec in BIT_AWARE:
        ax += ['wp'] + (['ip'] if spec != 'ne16_latency' else [])
    return ax


def with_axis(c, axis, v):
    c = dict(c)
    if axis == 'ch':
        c['ic'] = c['oc'] = c['g'] = F(v)
        c['osh'] = [1, int(F(v))] + list(c['osh'][2:])
    elif axis in ('ic', 'if'):
        c[axis] = F(v)
    elif axis == 'oc':
        c['oc'] = F(v); c['osh'] = [1, int(F(v))] + list(c['osh'][2:])
    elif axis == 'of':
        c['of'] = F(v); c['osh'] = [1, int(F(v))]
    elif axis == 'kall':
        c['k'] = [v] * len(c['k'])
    elif axis[0] == 'k':
        k = list(c['k']); k[int(axis[1:])] = v; c['k'] = k
    elif axis[0] == 'o':
        o = list(c['osh']); o[int(axis[1:])] = v; c['osh'] = o
    else:
        c[axis] = v
    return c


def axis_grid(axis):
    if axis in ('ch', 'ic', 'oc', 'if', 'of'):
        return CH_GRID
    if axis[0] == 'k':
        return K_GRID
    if axis[0] == 'o':
        return OUT_GRID
    return BITS


def axis_value(c, axis):
    if axis == 'ch':
        return c['ic']
    if axis == 'kall':
        return max(c['k'])
    if axis[0] == 'k' and axis != 'kall':
        return c['k'][int(axis[1:])]
    if axis[0] == 'o' and axis not in ('oc', 'of'):
        return c['osh'][int(axis[1:])]
    return c[axis]


def check_point(ent, c, mode, res, viol):
    """sign / finiteness / accept-reject clauses at one description"""
    spec, layer, constr, module, fn = ent
    dw = constr == 'conv_dw_constraint'
    g = F(c.get('g', 1))
    if not dw and g > 1 and (F(c['ic']) % g != 0 or F(c['oc']) % g != 0):
        return          # groups must divide both channel counts: not a valid layer description
    sup = is_supported(spec, layer, dw, c)
    case = {'kind': 'point', 'entry': list(ent), 'case': jcase(c), 'mode': mode}
    base = 'C16:%s' % spec
    if not sup:
        if res[0] != 'raise':
            viol.append((base + ':accepts-unsupported',
                         '%s.%s returns %s for an unsupported description instead of rejecting it' % (spec, fn, res[1]),
                         dict(case, observed=str(res[1]))))
        return
    if res[0] == 'raise':
        viol.append((base + ':rejects-valid', '%s.%s raises %s on a valid layer description' % (spec, fn, res[1]), case))
    elif res[0] == 'nonfinite':
        viol.append((base + ':non-finite', '%s.%s returns %s' % (spec, fn, res[1]), case))
    else:
        if res[1] < 0:
            viol.append((base + ':negative', '%s.%s returns %s' % (spec, fn, q(res[1])), case))
        elif res[1] == 0 and positive_expected(spec, c):
            viol.append((base + ':not-positive', '%s.%s returns 0 for a non-empty layer' % (spec, fn), case))


def jcase(c):
    return {k: ([q(x) for x in v] if isinstance(v, list) else q(v)) for k, v in c.items()}


def ucase(j):
    return {k: ([F(x) for x in v] if isinstance(v, list) else F(v)) for k, v in j.items()}


def w_sweep(job):
    """full sweep of one axis of one registered function around one context:
    -> (number of evaluations, [(key, what, case)])"""
    _setup_worker()
    ent, c0, axis, mode = job
    spec, layer, constr, module, fn = ent
    viol, n = [], 0
    prev = None
    for v in axis_grid(axis):
        if axis in ('ch', 'ic', 'oc', 'if', 'of') and mode == 'py' and False:
            continue
        c = with_axis(c0, axis, v)
        res = eval_real(module, fn, c, mode)
        n += 1
        check_point(ent, c, mode, res, viol)
        if res[0] == 'ok':
            if prev is not None and res[1] < prev[1]:
                viol.append(('C16:%s:not-monotone:%s' % (spec, 'bits' if axis in ('wp', 'ip') else 'size'),
                             '%s.%s falls from %s to %s when %s grows from %s to %s'
                             % (spec, fn, q(prev[1]), q(res[1]), axis, q(prev[0]), q(v)),
                             {'kind': 'pair', 'entry': list(ent), 'mode': mode, 'axis': axis,
                              'lo': jcase(with_axis(c0, axis, prev[0])), 'hi': jcase(c)}))
            prev = (v, res[1])
        if len(viol) > 20:
            break
    return n, viol


def w_pairs(job):
    """random component-wise ordered pairs of one registered function"""
    _setup_worker()
    import random
    ent, seed, count = job
    spec, layer, constr, module, fn = ent
    dw = constr == 'conv_dw_constraint'
    rng = random.Random(seed)
    viol, n = [], 0
    for _ in range(count):
        c = gen_case(rng, spec, layer, dw, want_supported=True if rng.random() < 0.85 else None)
        mode = rng.choice(['py', 'f64', 'f32'])
        r0 = eval_real(module, fn, c, mode)
        n += 1
        check_point(ent, c, mode, r0, viol)
        if r0[0] != 'ok':
            continue
        # grow a random subset of the size axes at once
        c2 = dict(c)
        for axis in axes_of(spec, layer, dw):
            if axis in ('wp', 'ip') or rng.random() < 0.5:
                continue
            cur = axis_value(c2, axis)
            bigger = [v for v in axis_grid(axis) if v > cur]
            if bigger:
                c2 = with_axis(c2, axis, rng.choice(bigger[:8] if rng.random() < 0.7 else bigger))
        if c2 != c and is_supported(spec, layer, dw, c2):
            r1 = eval_real(module, fn, c2, mode)
            n += 1
            if r1[0] == 'ok' and r1[1] < r0[1]:
                viol.append(('C16:%s:not-monotone:size' % spec,
                             '%s.%s falls from %s to %s when the layer grows' % (spec, fn, q(r0[1]), q(r1[1])),
                             {'kind': 'pair', 'entry': list(ent), 'mode': mode, 'axis': 'size',
                              'lo': jcase(c), 'hi': jcase(c2)}))
        if spec in BIT_AWARE:
            c3 = dict(c)
            for axis in ('wp', 'ip'):
                bigger = [v for v in BITS if v > c3[axis]]
                if bigger and rng.random() < 0.7 and not (spec == 'ne16_latency' and axis == 'ip'):
                    c3[axis] = rng.choice(bigger)
            if c3 != c and is_supported(spec, layer, dw, c3):
                r2 = eval_real(module, fn, c3, mode)
                n += 1
                if r2[0] == 'ok' and r2[1] < r0[1]:
                    viol.append(('C16:%s:not-monotone:bits' % spec,
                                 '%s.%s falls from %s to %s when the bit-widths grow' % (spec, fn, q(r0[1]), q(r2[1])),
                                 {'kind': 'pair', 'entry': list(ent), 'mode': mode, 'axis': 'bits',
                                  'lo': jcase(c), 'hi': jcase(c3)}))
        if len(viol) > 20:
            break
    return n, viol


# ------------------------------------------------------------------------------- helpers
HELPER_KIND = {'FloorSTE': 'ceil', 'DivAndCeilSTE': 'ceil', 'FloorDivideSTE': 'floor', 'ModuloSTE': 'mod',
               'GateSTE': 'gate', 'ComputeOxUnrollSTE': 'ox', '_floor': 'ceil'}


def helper_catalogue():
    """(module, name, kind, is_autograd_function) for every rounding helper of plinio.cost"""
    import torch
    COST_MODULES = regen._translator().COST_MODULES
    out = []
    for m in COST_MODULES:
        mod = importlib.import_module('plinio.cost.' + m)
        for name, obj in sorted(vars(mod).items()):
            if getattr(obj, '__module__', None) != mod.__name__:
                continue
            if isinstance(obj, type) and issubclass(obj, torch.autograd.Function):
                out.append((m, name, HELPER_KIND.get(name), True))
            elif name == '_floor' and callable(obj):
                out.append((m, name, 'ceil', False))
    return out


def helper_call(module, name, is_fn, args, mode):
    import torch
    obj = _fn(module, name)
    a = [_num(x, mode, torch) for x in args]
    r = obj.apply(*a) if is_fn else obj(*a)
    if hasattr(r, 'detach'):
        r = r.detach()
    return F(r) if isinstance(r, int) else F(float(r))


def helper_grad(module, name, args, g):
    """gradient w.r.t. the first argument for incoming gradient g (exact rational), or None"""
    import torch
    obj = _fn(module, name)
    x = torch.tensor(float(args[0]), dtype=torch.float64, requires_grad=True)
    rest = [int(a) if F(a).denominator == 1 else float(a) for a in args[1:]]
    y = obj.apply(x, *rest)
    if not getattr(y, 'requires_grad', False):
        return None
    gr, = torch.autograd.grad(y, x, grad_outputs=torch.tensor(float(g), dtype=y.dtype), allow_unused=True)
    return None if gr is None else F(float(gr))


class _Ctx:
    """stand-in for the autograd context: records what forward saves"""
    saved_tensors = ()

    def save_for_backward(self, *a):
        self.saved_tensors = a


def helper_backward(module, name, args, g):
    """`X.backward` called directly (after `X.forward` on the same context): canonical gradient list"""
    import torch
    obj = _fn(module, name)
    ctx = _Ctx()
    a = [torch.tensor(float(x), dtype=torch.float64) for x in args]
    try:
        obj.forward(ctx, *a)
        out = obj.backward(ctx, torch.tensor(float(g), dtype=torch.float64))
    except Exception as ex:
        return 'err:' + type(ex).__name__
    if not isinstance(out, tuple):
        out = (out,)
    return '[%s]' % ','.join('none' if o is None else q(F(float(o))) for o in out)


def w_any(job):
    """single entry point of the process pool"""
    kind, payload = job
    return {'eval': w_eval, 'sweep': w_sweep, 'pairs': w_pairs}[kind](payload)


def oracle_helpers(chk, cat, budget):
    """rounding helpers: exact on integers, between floor and ceiling / monotone on fractional counts,
    gradients passed through"""
    rng = chk.rng
    for (m, name, kind, is_fn) in cat:
        if kind is None:
            chk.observe('helper %s.%s is not one of the known rounding helpers; not checked' % (m, name))
            continue
        key = 'C16:helper:%s.%s' % (m, name)

        def bad(what, case):
            chk.violation(key + ':' + what.split(' ')[0], '%s.%s: %s' % (m, name, what),
                          dict(case, kind='helper', module=m, name=name, is_fn=is_fn, hkind=kind))
        if kind in ('ceil', 'floor', 'mod'):
            divisors = [2, 3, 4, 8, 16, 32, 128, 512]
            ints = list(range(0, 141)) + [255, 256, 257, 511, 512, 513, 1024]
            for N in divisors:
                prev = None
                for a in ints + [F(rng.randint(0, 560), 4) for _ in range(budget)]:
                    a = F(a)
                    mode = 'py' if (a.denominator == 1 and rng.random() < 0.5 and (m != 'ne16_latency' or not is_fn or kind != 'floor')) else 'f64'
                    if m == 'ne16_latency' and kind == 'floor':
                        mode = 'f64'            # torch.floor_divide wants a tensor (NE16 passes tensors or ints it wraps)
                    try:
                        v = helper_call(m, name, is_fn, [a, N], mode)
                    except Exception as ex:
                        bad('raises %s' % type(ex).__name__, {'args': [q(a), N], 'mode': mode})
                        break
                    chk.count(('helper', m, name, q(a), N), bucket='helper:' + name, nontrivial=a % N != 0)
                    x = a / N
                    if kind == 'mod':
                        fl = math.floor(x)
                        if a.denominator == 1 and v != a % N:
                            bad('not-the-remainder: %s %% %s gives %s' % (q(a), N, q(v)), {'args': [q(a), N], 'mode': mode}); break
                        if not (0 <= v < N and N * fl + v == a):
                            bad('not-a-remainder: %s mod %s gives %s' % (q(a), N, q(v)), {'args': [q(a), N], 'mode': mode}); break
                        continue
                    want = math.ceil(x) if kind == 'ceil' else math.floor(x)
                    if a.denominator == 1 and v != want:
                        bad('inexact-on-integers: %s / %s gives %s, exact %s is %s' % (q(a), N, q(v), kind, want),
                            {'args': [q(a), N], 'mode': mode}); break
                    if kind == 'floor' and v != want:
                        bad('inexact: floor(%s / %s) gives %s' % (q(a), N, q(v)), {'args': [q(a), N], 'mode': mode}); break
                    if v.denominator != 1 or not (math.floor(x) <= v <= math.ceil(x)):
                        bad('outside-floor-ceil: %s / %s gives %s' % (q(a), N, q(v)), {'args': [q(a), N], 'mode': mode}); break
                # monotone on a fine fractional sweep
                prev = None
                for i in range(0, 4 * 70 + 1):
                    a = F(i, 4)
                    if kind == 'mod':
                        break
                    v = helper_call(m, name, is_fn, [a, N], 'f64')
                    if prev is not None and v < prev[1]:
                        bad('not-monotone: falls from %s to %s between %s and %s (N=%s)' % (q(prev[1]), q(v), q(prev[0]), q(a), N),
                            {'args': [q(a), N], 'mode': 'f64', 'prev': q(prev[0])}); break
                    prev = (a, v)
            if is_fn:
                for a, N in ((F(9, 2), 4), (F(40), 16), (F(33), 32)):
                    g = helper_grad(m, name, [a, N], 1)
                    chk.count(('helper-grad', m, name, q(a), N), bucket='helper-grad')
                    if g is None or g == 0:
                        bad('blocks-gradient: gradient w.r.t. the count is %s' % (g,), {'args': [q(a), N], 'grad': True})
                        break
        elif kind == 'gate':
            # the property does not say on which side the threshold itself falls: demanded are a 0/1 value,
            # 1 above and 0 below the threshold, monotone
            for th in (1, 4):
                prev = None
                for i in range(-8, 41):
                    a = F(i, 4)
                    v = helper_call(m, name, is_fn, [a, th], rng.choice(['py', 'f64']))
                    chk.count(('helper', m, name, q(a), th), bucket='helper:' + name)
                    if v not in (0, 1) or (a > th and v != 1) or (a < th and v != 0) or (prev is not None and v < prev):
                        bad('wrong-gate: gate(%s, %s) = %s' % (q(a), th, q(v)), {'args': [q(a), th], 'mode': 'f64'}); break
                    prev = v
            g = helper_grad(m, name, [F(1, 2), 1.0], 1)
            if g is None or not math.isfinite(float(g)):
                bad('blocks-gradient: gradient below the threshold is %s' % (g,), {'args': ['1/2', 1], 'grad': True})
        elif kind == 'ox':
            for kx in K_GRID:
                for cin in (1, 32, 64, 65, 96, 97, 128, 130):
                    prev = None
                    for co in range(1, 131):
                        v = helper_call(m, name, is_fn, [co, cin, kx, kx], rng.choice(['py', 'f64']))
                        chk.count(('helper', m, name, co, cin, kx), bucket='helper:' + name)
                        if v not in (1, 2, 4, 8):
                            bad('bad-value: %s' % q(v), {'args': [co, cin, kx, kx], 'mode': 'f64'}); break
                        if prev is not None and v > prev:
                            bad('not-antitone: rises from %s to %s at ch_out=%d' % (q(prev), q(v), co),
                                {'args': [co, cin, kx, kx], 'mode': 'f64'}); break
                        prev = v


# ------------------------------------------------------------------------------- depthwise
def oracle_dw(chk, ents, budget):
    """for the size / operation counts the depthwise formula equals the generic one per group"""
    rng = chk.rng
    by = {(s, l, c): (m, f) for (s, l, c, m, f) in ents}
    for spec in DW_FAMILIES:
        for layer in ('Conv1d', 'Conv2d'):
            if (spec, layer, 'conv_dw_constraint') not in by or (spec, layer, '') not in by:
                chk.observe('%s has no depthwise/generic pair for %s' % (spec, layer))
                continue
            (md, fd), (mg, fg) = by[(spec, layer, 'conv_dw_constraint')], by[(spec, layer, '')]
            groups = list(range(1, 131)) if budget >= 130 else sorted(rng.sample(range(1, 131), budget))
            for G in groups:
                kd = KDIM[layer]
                c = {'ic': F(G), 'oc': F(G), 'g': F(G), 'k': [rng.choice(K_GRID) for _ in range(kd)],
                     'osh': [1, G] + [rng.choice(OUT_GRID) for _ in range(kd)], 'bias': rng.randint(0, 1),
                     'wp': rng.choice([2, 4, 8]), 'ip': rng.choice([2, 4, 8]), 'th': 1, 'hasap': 0, 'ap': 8}
                one = dict(c, ic=F(1), oc=F(1), g=F(1), osh=[1, 1] + c['osh'][2:])
                mode = rng.choice(['py', 'f64'])
                rd, rg = eval_real(md, fd, c, mode), eval_real(mg, fg, one, mode)
                chk.count(('dw', spec, layer, G, tuple(c['k'])), bucket='dw=generic-per-group', nontrivial=G > 1)
                if rd[0] != 'ok' or rg[0] != 'ok' or rd[1] != G * rg[1]:
                    chk.violation('C16:%s:dw-ne-generic-per-group' % spec,
                                  '%s %s: depthwise cost %s, %d groups x generic per group %s' % (spec, layer, rd[1], G, rg[1]),
                                  {'kind': 'dw', 'spec': spec, 'layer': layer, 'dw': [md, fd], 'generic': [mg, fg],
                                   'case': jcase(c), 'mode': mode})
                    break


# ------------------------------------------------------------------------------- run
def observe_edges(chk):
    """behaviours at the edge of the property's text, recorded in the evidence, not demanded
    (DESIGN section 4: the stricter reading is never used to raise an alarm)"""
    base = {'in_channels': 8, 'out_channels': 8, 'groups': 1, 'kernel_size': (3, 3), 'output_shape': (1, 8, 9, 9),
            'w_precision': 8, 'in_precision': 8, 'w_theta_alpha': 1, '_parameters': {'bias': None}}

    def probe(module, fn, **kw):
        sp = dict(base)
        sp.update(kw)
        try:
            return 'returns %r' % float(_fn(module, fn)(sp))
        except Exception as ex:
            return 'raises %s' % type(ex).__name__
    try:
        r = probe('mpic_latency', '_mpic_latency_conv2d_generic', w_precision=4)
        if r.startswith('raises'):
            chk.observe('MPIC models with plain Python-int precisions: %s (they call .item(); PLiNIO\'s MPS layers always '
                        'pass tensors; left outside the plain-number fix 3b5e664)' % r)
        r = probe('ne16_latency', '_ne16_latency_conv2d_generic', w_precision=0, in_precision=4, kernel_size=(5, 5))
        if r.startswith('returns'):
            chk.observe('NE16 with 0-bit (pruned) weights %s before looking at kernel / activation precision: a pruned '
                        'layer costs 0 on any hardware (Spec.Supported lists w_precision = 0 as supported)' % r)
        r = probe('ne16_latency', '_ne16_latency_conv2d_generic', w_precision=16)
        if r.startswith('returns'):
            chk.observe('NE16 with w_precision=16 %s: the code documents and asserts only the 8-bit activation restriction; '
                        'the weight width is a parameter of the bit-serial formula, not a table' % r)
        r = probe('diana_latency', '_diana_latency_linear', in_features=8, out_features=5, output_shape=(1, 5, 8))
        if r.startswith('raises'):
            chk.observe('DIANA linear with a rank-3 output_shape %s (tuple unpacking): a rejection, which the property allows '
                        'for layer kinds a restricted model does not cover' % r)
    except Exception as ex:          # probes must never decide a verdict
        chk.observe('edge probes failed: %r' % (ex,))


def uncovered_generated():
    """every generated `X.val` / `X.backward` must be named by a theorem of Props/C16.lean"""
    import os
    import re
    props = open(os.path.join(common.LEAN_DIR, 'PlinioVerif', 'Props', 'C16.lean')).read()
    out = []
    for f in ('Ste.lean', 'Cost.lean'):
        ns = None
        for line in open(os.path.join(regen.GEN_DIR, f)):
            m = re.match(r'namespace PlinioVerif\.Gen\.(\w+)', line)
            if m:
                ns = m.group(1)
            m = re.match(r'def (\S+?)(\.val|\.backward) ', line)
            if m and ns and ns != 'Gen':
                full = 'Gen.%s.%s%s' % (ns, m.group(1), m.group(2))
                if full not in props:
                    out.append(full)
    return out


def run(chk):
    _setup_worker()
    import torch
    chk.rule = ('layer descriptions on the grids of the property: channels/features 1..130 incl. half-integers, kernels '
                '{1,3,5,7} (1D/2D), outputs 1..33, bits {0,2,4,8} + unsupported ones, bias on/off, NE16 coefficient '
                '{1,1/2,1/4,0}, plain numbers / float64 / float32 tensors; every registration of every built-in CostSpec. '
                'oracle: full sweeps of every axis around random contexts + random ordered pairs. non-trivial = supported '
                'description (the cost is a number); distinct = distinct (function, description)')
    chk.trusted.append('translator (py2lean.py) and the hand models of Ne16PerfModel / ComputeOxUnrollSTE: validated by the '
                       'differential run against the real functions on this run, not verified')
    chk.trusted.append('float32/float64 results read as exact rationals; exact below 2^24 / 2^53 (float32-carried results above 2^24, rare in the thorough grid, are compared within 5e-7 relative and counted in corr_within_float_band); '
                       'a relative band of 1e-9 (mpic_energy 1e-6) only for the models with non-dyadic constants')
    chk.assumptions.append('key absence in a layer description is modelled only for a_precision; Python KeyError on other '
                           'missing keys is outside the model')
    regen.record(chk, regen.regenerate(['cost']))
    chk.prove()
    missing = uncovered_generated()
    if missing:
        chk.proof_broken.append('generated functions without a Gen = Spec theorem in Props/C16.lean: %s' % ', '.join(missing))

    import time
    t0 = time.time()
    rng = chk.rng
    ents = entries()
    # ---------------------------------------------------------------- correspondence
    lines, meta = [], []           # meta: (kind, payload)
    per_entry = 110 if chk.quick else 2500
    batch = []
    for ent in ents:
        spec, layer, constr, module, fn = ent
        dw = constr == 'conv_dw_constraint'
        for i in range(per_entry):
            c = gen_case(rng, spec, layer, dw, want_supported=True if i % 4 else None)
            mode = 'py' if i % 3 == 0 else 'f64'
            lines.append(case_line(module, fn, c))
            meta.append(('costfn', (ent, c, mode)))
            batch.append((module, fn, c, mode))
    # un-registered top-level cost functions called by the registered ones
    for module, fn, layer in (('diana_latency', '_analog_cycles', 'Conv2d'), ('diana_latency', '_digital_cycles', 'Conv2d')):
        if hasattr(importlib.import_module('plinio.cost.' + module), fn):
            for i in range(per_entry):
                c = gen_case(rng, 'diana_latency', layer, False)
                mode = 'py' if i % 3 == 0 else 'f64'
                lines.append(case_line(module, fn, c))
                meta.append(('costfn', ((module, layer, '', module, fn), c, mode)))
                batch.append((module, fn, c, mode))
    chunks = [batch[i:i + 400] for i in range(0, len(batch), 400)]

    def oracle_jobs(contexts, pairs_per_entry):
        sj, pj = [], []
        for ent in ents:
            spec, layer, constr, module, fn = ent
            dw = constr == 'conv_dw_constraint'
            for ci in range(contexts):
                c0 = gen_case(rng, spec, layer, dw, want_supported=True)
                mode = ['f64', 'py', 'f32'][ci % 3]
                for axis in axes_of(spec, layer, dw):
                    sj.append((ent, c0, axis, mode))
            per = max(1, pairs_per_entry // 4)
            pj += [(ent, rng.randrange(1 << 30), per) for _ in range(4)]
        return sj, pj

    def absorb(jobs, results):
        for (job, (n, viol)) in zip(jobs, results):
            ent = job[0]
            chk.evaluations += n
            chk.hist['oracle:' + ent[0]] = chk.hist.get('oracle:' + ent[0], 0) + n
            for key, what, case in viol:
                if key not in seen_keys:
                    seen_keys.add(key)
                    chk.violation(key, what, case)
    seen_keys = set()
    contexts = 3 if chk.quick else 60
    pairs_per_entry = 130 if chk.quick else 12000
    sweep_jobs, pair_jobs = oracle_jobs(contexts, pairs_per_entry)
    # one process pool for the Python side of the correspondence and the base dose of the oracle
    alljobs = [('eval', ch) for ch in chunks] + [('sweep', j) for j in sweep_jobs] + [('pairs', j) for j in pair_jobs]
    res = common.pmap(w_any, alljobs)
    real_vals = [v for part in res[:len(chunks)] for v in part]
    absorb(sweep_jobs, res[len(chunks):len(chunks) + len(sweep_jobs)])
    absorb(pair_jobs, res[len(chunks) + len(sweep_jobs):])
    chk.extra['t_pool'] = round(time.time() - t0, 1)
    # helpers forward / backward, hand models, registrations (evaluated in this process)
    cat = helper_catalogue()
    hreal = []
    for (m, name, kind, is_fn) in cat:
        if kind in ('ceil', 'floor', 'mod'):
            for _ in range(60 if chk.quick else 600):
                a = F(rng.randint(0, 560), rng.choice([1, 1, 2, 4]))
                N = rng.choice([2, 3, 4, 8, 16, 32, 128, 512])
                fname = name + '.forward' if is_fn else name
                lines.append('fn %s %s args=[%s,%s]' % (m, fname, q(a), N))
                try:
                    hreal.append('ok:' + q(helper_call(m, name, is_fn, [a, N], 'f64')))
                except Exception:
                    hreal.append('err')
                meta.append(('helper', (m, name, [q(a), N])))
            if is_fn:
                for a, N, g in ((F(9, 2), 4, 1), (F(40), 16, 3), (F(7, 4), 2, F(1, 2))):
                    lines.append('bwd %s %s args=[%s,%s] g=%s' % (m, name, q(a), N, q(g)))
                    hreal.append(helper_backward(m, name, [a, N], g))
                    meta.append(('bwd', (m, name, [q(a), N], q(g))))
        elif kind == 'gate':
            for i in range(-4, 13):
                a, th = F(i, 2), 1
                lines.append('fn %s %s.forward args=[%s,%s]' % (m, name, q(a), th))
                hreal.append('ok:' + q(helper_call(m, name, True, [a, th], 'f64')))
                meta.append(('helper', (m, name, [q(a), th])))
            for a, g in ((F(1, 2), 1), (F(1, 4), 3), (F(2), 1), (F(-1), 1), (F(0), 1), (F(1), 1)):
                lines.append('bwd %s %s args=[%s,1] g=%s' % (m, name, q(a), q(g)))
                hreal.append(helper_backward(m, name, [a, 1], g))
                meta.append(('bwd', (m, name, [q(a), 1], q(g))))
        elif kind == 'ox':
            for _ in range(300 if chk.quick else 3000):
                a = [rng.randint(1, 130), rng.randint(1, 130), rng.choice(K_GRID), rng.choice(K_GRID)]
                if rng.random() < 0.3:
                    a[0] = F(a[0]) + F(1, 2)
                lines.append('ox args=[%s]' % ','.join(q(x) for x in a))
                hreal.append(q(helper_call(m, name, True, a, 'f64')))
                meta.append(('ox', a))
            lines.append('bwd %s %s args=[10,3,3,3] g=5' % (m, name))
            hreal.append(helper_backward(m, name, [10, 3, 3, 3], 5))
            meta.append(('bwd', (m, name, [10, 3, 3, 3], '5')))
            if helper_grad(m, name, [10, 3, 3, 3], 1) is None:
                chk.observe('%s.%s returns an integer tensor: autograd never calls its backward, no gradient reaches '
                            'the channel count through ox_unroll (not demanded by the property)' % (m, name))
    # the NE16 class itself
    ne16 = importlib.import_module('plinio.cost.ne16_latency')
    if hasattr(ne16, 'Ne16PerfModel'):
        for _ in range(250 if chk.quick else 4000):
            ks, dwf = rng.choice([((3, 3), False), ((1, 1), False), ((3, 3), True), ((1, 1), True)])
            wb = rng.choice([2, 4, 8, 3])
            layer = [rng.choice(OUT_GRID), rng.choice(OUT_GRID), F(rng.randint(2, 260), 2), F(rng.randint(2, 260), 2)]
            lines.append('ne16 op=conv kh=%d kw=%d dw=%d wbits=%d layer=[%s]' % (ks[0], ks[1], int(dwf), wb, ','.join(q(x) for x in layer)))
            try:
                mdl = ne16.Ne16PerfModel('conv', ks, depthwise=dwf, weights_bitwidth=wb)
                mdl.set_layer(tuple(torch.tensor(float(x), dtype=torch.float64) for x in layer))
                hreal.append('lat:%s ops:%s' % (q(F(float(mdl.latency))), q(F(float(mdl.ops)))))
            except Exception as ex:
                hreal.append('err:' + type(ex).__name__)
            meta.append(('ne16', (ks, dwf, wb, [q(x) for x in layer])))
    lines.append('registry')
    hreal.append(';'.join(sorted('%s/%s/%s/%s' % (s, l, c, f) for (s, l, c, m, f) in ents)))
    meta.append(('registry', None))
    real_all = real_vals + hreal

    model = None
    try:
        model = chk.driver('C16', lines)
    except common.InfraError as ex:
        chk.proof_broken.append('generated cost model does not build/run: %s' % str(ex)[:400])
    chk.extra['t_corr_lean'] = round(time.time() - t0, 1)
    band = 0
    if model is not None:
        for (kind, payload), line, real, mdl in zip(meta, lines, real_all, model):
            if kind == 'costfn':
                ent, c, mode = payload
                a = agree(ent[3], real, mdl, mode)
                if a == 'band':
                    band += 1
                    mdl = real
                chk.corr({'line': line, 'mode': mode}, real, mdl, 'cost function, real Python vs generated Lean')
                chk.count(('corr', line), nontrivial=real != 'err', bucket='corr:' + ent[0],
                          sample={'line': line, 'impl': real})
            elif kind == 'registry':
                chk.corr({'line': line}, real, ';'.join(sorted(mdl.split(';'))), 'registrations of the built-in specifications')
            else:
                chk.corr({'line': line}, real, mdl, 'helper / hand model (%s), real Python vs Lean' % kind)
                chk.count(('corr', line), bucket='corr:' + kind)
    chk.extra['corr_within_float_band'] = band

    # ---------------------------------------------------------------- oracle (escalation, in-process parts)
    broken = bool(chk.proof_broken or chk.corr_disagreements)
    if broken:
        # a proof / translation / correspondence leg broke: four more doses of the failing-input search
        sj2, pj2 = oracle_jobs(contexts * 4, pairs_per_entry * 4)
        res2 = common.pmap(w_any, [('sweep', j) for j in sj2] + [('pairs', j) for j in pj2])
        absorb(sj2, res2[:len(sj2)])
        absorb(pj2, res2[len(sj2):])
        sweep_jobs += sj2
        chk.extra['oracle_escalated'] = True
    chk.extra['oracle_sweeps'] = len(sweep_jobs)
    chk.extra['oracle_random_pairs_per_function'] = pairs_per_entry * (5 if broken else 1)
    chk.extra['t_oracle_pool'] = round(time.time() - t0, 1)
    mult = 5 if broken else 1
    oracle_helpers(chk, cat, (20 if chk.quick else 200) * mult)
    chk.extra['t_helpers'] = round(time.time() - t0, 1)
    oracle_dw(chk, ents, 130 if (not chk.quick or broken) else 40)
    observe_edges(chk)


# ------------------------------------------------------------------------------- replay
def replay(data):
    import torch
    torch.set_num_threads(1)
    case = data['case']
    kind = case.get('kind')
    if kind == 'point':
        ent = tuple(case['entry'])
        c = ucase(case['case'])
        res = eval_real(ent[3], ent[4], c, case['mode'])
        viol = []
        check_point(ent, c, case['mode'], res, viol)
        print('%s.%s(%s) -> %s' % (ent[3], ent[4], case['case'], res))
        for k, w, _ in viol:
            print('%s: %s' % (k, w))
        return 1 if viol else 0
    if kind == 'pair':
        ent = tuple(case['entry'])
        lo, hi = ucase(case['lo']), ucase(case['hi'])
        r0, r1 = eval_real(ent[3], ent[4], lo, case['mode']), eval_real(ent[3], ent[4], hi, case['mode'])
        print('smaller layer -> %s ; larger layer -> %s' % (r0, r1))
        return 1 if (r0[0] == 'ok' and r1[0] == 'ok' and r1[1] < r0[1]) else 0
    if kind == 'dw':
        c = ucase(case['case'])
        G = int(c['g'])
        one = dict(c, ic=F(1), oc=F(1), g=F(1), osh=[1, 1] + list(c['osh'][2:]))
        rd = eval_real(case['dw'][0], case['dw'][1], c, case['mode'])
        rg = eval_real(case['generic'][0], case['generic'][1], one, case['mode'])
        print('depthwise -> %s ; generic on one group -> %s ; groups = %d' % (rd, rg, G))
        return 0 if (rd[0] == 'ok' and rg[0] == 'ok' and rd[1] == G * rg[1]) else 1
    if kind == 'helper':
        args = [F(a) if isinstance(a, str) else a for a in case['args']]
        if case.get('grad'):
            g = helper_grad(case['module'], case['name'], args, 1)
            print('gradient w.r.t. the count: %s' % (g,))
            return 1 if (g is None or g == 0) else 0
        try:
            v = helper_call(case['module'], case['name'], case['is_fn'], args, case.get('mode', 'f64'))
        except Exception as ex:
            print('raises %r' % (ex,))
            return 1
        a, N = F(args[0]), F(args[1])
        x = a / N
        print('%s.%s(%s) = %s ; exact quotient %s' % (case['module'], case['name'], case['args'], q(v), q(x)))
        hk = case['hkind']
        if hk == 'ceil':
            ok = (v == math.ceil(x)) if a.denominator == 1 else (v.denominator == 1 and math.floor(x) <= v <= math.ceil(x))
            if 'prev' in case:
                ok = ok and v >= helper_call(case['module'], case['name'], case['is_fn'], [F(case['prev']), N], 'f64')
        elif hk == 'floor':
            ok = v == math.floor(x)
        elif hk == 'mod':
            ok = 0 <= v < N and N * math.floor(x) + v == a
        elif hk == 'gate':
            ok = v in (0, 1) and not (a > N and v != 1) and not (a < N and v != 0)
        else:
            ok = v in (1, 2, 4, 8)
            if ok and args[0] > 1:
                pv = helper_call(case['module'], case['name'], case['is_fn'], [args[0] - 1] + args[1:], 'f64')
                ok = v <= pv
        return 0 if ok else 1
    print('replay of kind %r: re-run ./check C16' % kind)
    return 1

