"""C18 — export, summary and cost are observers: they do not change the model.

proof leg            lean/PlinioVerif/Props/C18.lean over Model/Observers.lean (`step` per call of the
                     alphabet, per method): observer_preserves_obs_state (per call), observers_invisible
                     (all sequences), observers_invisible_interleaved (all sequences over the full
                     alphabet = "the search continues as if they had not been called"),
                     repeat_export_identical, spec_switch_roundtrip, and the pinned-tree witnesses.
correspondence leg   random walks (<= 5 calls after an initial forward) over {export, export(add_bn=False)
                     (PIT), summary, cost, get_cost('a'), cost_specification := one of 4 slots, forward} on
                     real PIT (1D with time masks, 2D, with channel concat), MPS (per-layer, per-channel
                     with 0-bit, sampling disabled) and SuperNet wrappers, train / eval mode, Gumbel on/off,
                     hard on/off, full_cost on/off, single / dictionary cost specification.  A NON-MUTATING
                     fingerprint (harness/fingerprint.py) is taken before and after every call; the set of
                     components that changed {modes, theta, rng, state, attrs, spec, flags} and the
                     equality class of what the call returned = what `Drivers/C18.lean` predicts.
step leg             forward -> observer call(s) -> loss = task + strength*cost -> backward -> optimizer step, against a
                     twin wrapper that never called the observer: cost.requires_grad, the gradient of every parameter
                     (None-ness included, NAS parameters first) and the parameters after the step must be equal
                     (`optimizer_step_after_observers`; driver command `stepcase`).
failing observer     `exportraises`: export() with a conversion that raises after it traced the seed in eval mode and ran the
                     shape-propagation forward (injected through the method module's `convert`); it is an observer too:
                     flags, sampled coefficients, state_dict, outputs, cost and the following steps equal the twin's
                     (`raising_export_leaves_state`; key C18:<method>:export-raises:state-left-behind).
oracle leg           the property itself on those walks: an observer call leaves outputs (fixed input,
                     fixed seed), cost values, summary, state_dict (bit-compared), per-module `.training`,
                     `requires_grad`, plain attribute values and sampled coefficients unchanged; repeated
                     exports are identical networks (structure + tensors); switching the specification and
                     back restores the cost values; and the walk with all observer calls deleted reaches
                     the same state.
"""
import json

from .. import common
from .. import fingerprint as fp
from .. import obs_models as om

SLOTS = ('s0', 's1', 'd0', 'd1')
OBSERVERS = ('export', 'exportnobn', 'summary', 'cost', 'getcost', 'getcostb', 'exportraises')
COSTS = ('cost', 'getcost', 'getcostb')


def slot_specs(spec):
    from plinio.cost import params, ops, params_bit, ops_bit
    a, b = (params_bit, ops_bit) if om.METHOD[spec['kind']] == 'mps' else (params, ops)
    if not hasattr(slot_specs, 'cache'):
        slot_specs.cache = {}
    key = om.METHOD[spec['kind']] == 'mps'
    if key not in slot_specs.cache:
        slot_specs.cache[key] = {'s0': a, 's1': b, 'd0': {'a': a, 'b': b}, 'd1': {'a': b, 'b': a}}
    return slot_specs.cache[key]


def alphabet(method):
    ops = ['export', 'summary', 'cost', 'getcost', 'getcostb', 'forward', 'exportraises'] + ['set:' + s for s in SLOTS]
    if method == 'pit':
        ops.append('exportnobn')
    return ops


def gen_walk(rng, method, n=5):
    ab = alphabet(method)
    # observers are the point: weight them up, keep forwards and switches in the mix
    w = [4 if not (o.startswith('set:') or o == 'forward') else (2 if o == 'forward' else 1) for o in ab]
    return ['forward'] + rng.choices(ab, weights=w, k=n)


def structure_flags(w, spec):
    import torch.nn as nn
    method = om.METHOD[spec['kind']]
    if method == 'pit':
        from plinio.methods.pit.nn.module import PITModule as Nas
    elif method == 'mps':
        from plinio.methods.mps.nn.module import MPSModule as Nas
    else:
        from plinio.methods.supernet.nn.combiner import SuperNetCombiner as Nas
    fixed = any(not isinstance(l, Nas) and not (method == 'sn' and 'sn_branches' in str(n.target))
                for _, n, l in w._leaf_modules)
    add = any(type(m).__name__ == 'MPSAdd' for m in w.modules())
    bn = any(isinstance(m, nn.modules.batchnorm._BatchNorm) and m.track_running_stats for m in w.modules())
    drop = any(isinstance(m, nn.Dropout) and m.p > 0 for m in w.modules())
    return {'fixed': fixed, 'add': add, 'bn': bn, 'drop': drop}


def sub_modes(item):
    """(mode of BatchNorm sub-modules, mode of Dropout sub-modules): the wrapper's mode unless `mixed`
    flips them (BatchNorm frozen by .eval() inside a train() wrapper, or the reverse)"""
    mixed = item.get('mixed') or ''
    tr = bool(item['train'])
    return (tr != ('bn' in mixed), tr != ('drop' in mixed))


def driver_line(item, flags, pinned=False):
    spec = item['spec']
    method = om.METHOD[spec['kind']]
    bnm, drm = sub_modes(item)
    g = spec['gumbel'] and method != 'pit'
    h = spec['hard'] and method != 'pit'
    return ('walk pinned=%d method=%s gumbel=%d hard=%d disable=%d full=%d fixed=%d add=%d bn=%d drop=%d '
            'train=%d bnmode=%d dropmode=%d spec=%s ops=[%s]'
            % (pinned, method, g, h, bool(item.get('disable')) and method == 'mps',
               spec['full_cost'], flags['fixed'], flags['add'], flags['bn'], flags['drop'],
               item['train'], bnm, drm, 's0' if spec['cost'] == 'single' else 'd0', ','.join(item['ops'])))


def component_map(ch, method):
    """raw fingerprint components -> the model's component names (+ what is only observed)"""
    out, seen_only = set(), []
    for k in ch:
        if k in ('modes', 'theta', 'rng', 'state', 'attrs'):
            out.add(k)
        elif k in ('spec', 'cost_fn_map'):
            out.add('spec')
        elif k == 'rec' and method == 'mps':
            seen_only.append('rec')      # weight ranges / bias scales: recomputed by the next forward
        elif k == 'containers':
            seen_only.append('containers')   # caches etc.: demanded only through the values they influence
        else:
            out.add('flags')
    order = ['modes', 'theta', 'rng', 'state', 'attrs', 'spec', 'flags']
    return [c for c in order if c in out], seen_only


def build_for_walk(item):
    spec = item['spec']
    w, shape = om.build(spec)
    om.randomize_nas(w, spec['seed'] + 3)
    if item.get('disable') and om.METHOD[spec['kind']] == 'mps':
        w.update_softmax_options(disable_sampling=True)
    w.train() if item['train'] else w.eval()
    if item.get('mixed'):
        import torch.nn as nn
        bnm, drm = sub_modes(item)
        for m in w.modules():
            if isinstance(m, nn.modules.batchnorm._BatchNorm):
                m.training = bnm
            elif isinstance(m, nn.Dropout):
                m.training = drm
    return w, shape


class InjectedConversionError(Exception):
    pass


def do_op(w, op, slots, x):
    """returns (kind, value) of what the call returned"""
    import torch
    if op == 'forward':
        y = w(x)
        return ('y', fp.thash(y))
    if op == 'exportraises':
        # a failing observer: the conversion raises after it has traced the seed in eval mode and run the
        # shape-propagation forward (what an unsupported layer / dtype error at export time does)
        import sys
        mod = sys.modules[type(w).__module__]
        real = mod.convert

        def failing(*a, **kw):
            real(*a, **kw)
            raise InjectedConversionError('injected conversion error')
        mod.convert = failing
        try:
            w.export()
        except InjectedConversionError:
            return ('x', None)
        finally:
            mod.convert = real
        raise AssertionError('the injected conversion error was swallowed')
    if op in ('export', 'exportnobn'):
        e = w.export() if op == 'export' else w.export(add_bn=False)
        return ('n', (fp.net_fingerprint(e), e))
    if op == 'summary':
        return ('s', fp.summary_str(w.summary()))
    if op in COSTS:
        try:
            c = w.cost if op == 'cost' else w.get_cost('a' if op == 'getcost' else 'b')
            # which cost model object was evaluated (read off the wrapper): values of different models
            # are never the same answer, even when the numbers coincide (e.g. both 0)
            cs = w.cost_specification
            used = cs if not isinstance(cs, dict) else cs['a' if op == 'getcost' else 'b']
            tag = 'f0' if used is slots['s0'] else ('f1' if used is slots['s1'] else 'f?')
            return ('c', tag + ':' + fp.thash(c) + '=' + repr(float(c)))
        except AssertionError:
            return ('e', None)
    if op.startswith('set:'):
        w.cost_specification = slots[op[4:]]
        return ('-', None)
    raise ValueError(op)


def run_walk(item, twin=True):
    """One walk on a real wrapper.  JSON-able result."""
    import torch
    import warnings
    warnings.filterwarnings('ignore')
    torch.set_num_threads(1)
    common.use_repo_on_path()
    spec, ops = item['spec'], item['ops']
    method = om.METHOD[spec['kind']]
    slots = slot_specs(spec)
    w, shape = build_for_walk(item)
    x = om.data(shape, spec['seed'] + 4)
    torch.manual_seed(spec['seed'] + 5)
    flags = structure_flags(w, spec)
    res = {'flags': flags, 'steps': [], 'violations': [], 'observations': []}
    case = {'kind': 'walk', 'spec': spec, 'train': item['train'], 'disable': bool(item.get('disable')),
            'mixed': item.get('mixed'), 'ops': list(ops)}
    bnm, drm = sub_modes(item)
    # does anything in a forward of this walk draw random numbers (then a twin wrapper cannot be aligned)
    draws = (flags['drop'] and drm) or (item['train'] and spec['gumbel'] and method != 'pit' and not item.get('disable'))
    twin_vals = {}

    def twin_value(i):
        """what the observer call `ops[i]` returns on a twin wrapper in the same state that has seen no
        observer call before: same construction, only the non-observer calls of the walk so far"""
        pre = tuple(o for o in ops[:i] if o not in OBSERVERS)
        if (ops[i], pre) not in twin_vals:
            w2, _ = build_for_walk(item)
            torch.manual_seed(spec['seed'] + 5)
            for o in pre:
                do_op(w2, o, slots, x)
            k2, v2 = do_op(w2, ops[i], slots, x)
            twin_vals[(ops[i], pre)] = (k2, v2[0] if k2 == 'n' else v2)
        return twin_vals[(ops[i], pre)]
    names = ['a', 'b']

    def probe():
        cs = w.cost_specification
        return fp.probe(w, x, [None] if not isinstance(cs, dict) else names)

    def viol(key, what, upto):
        res['violations'].append({'key': key, 'what': what, 'case': dict(case, ops=list(ops[:upto + 1]))})

    outs = []                       # (kind, value) per call, for the output classes
    last_export = None              # (fingerprint, state hash, module) of the latest export
    cost_memo = {}                  # (slot, theta, state) -> cost values seen through the probe
    D = None
    for i, op in enumerate(ops):
        before = fp.raw(w, slots)
        if D is None:
            D = probe()
            mid = fp.raw(w, slots)
            if fp.changed(before, mid):
                res['observations'].append('probe not neutral: %s' % sorted(fp.changed(before, mid)))
        try:
            kind, val = do_op(w, op, slots, x)
        except Exception as e:      # no call of the alphabet raises on these wrappers (cost/get_cost assert aside)
            viol('C18:%s:%s:raises' % (method, op.split(':')[0]),
                 '%s raised %s: %s (after %s)' % (op, type(e).__name__, str(e)[:160], ops[:i]), i)
            res['steps'].append({'op': op, 'changed': ['raised'], 'class': 'x', 'derived': [], 'seen_only': [],
                                 'detail': {'exception': type(e).__name__}})
            res['aborted'] = True
            break
        after = fp.raw(w, slots)
        ch = fp.changed(before, after)
        comps, seen_only = component_map(ch, method)
        D2 = probe()
        after2 = fp.raw(w, slots)
        if fp.changed(after, after2):
            res['observations'].append('probe not neutral: %s' % sorted(fp.changed(after, after2)))
        derived = [k for k in ('cost', 'summary', 'y') if D[k] != D2[k]]
        # ---- output class
        cmpval = val[0] if kind == 'n' else val
        cls = '-'
        if kind in ('n', 's', 'c'):
            j = next((j for j, (k2, v2) in enumerate(outs) if k2 == kind and v2 == cmpval), len(outs))
            cls = '%s%d' % (kind, j)
        elif kind in ('e', 'x'):
            cls = kind
        outs.append((kind, cmpval))
        res['steps'].append({'op': op, 'changed': comps, 'class': cls, 'derived': derived, 'seen_only': seen_only,
                             'detail': {k: str(v)[:160] for k, v in ch.items()}})
        # ---- oracle: the property itself
        is_obs = op in OBSERVERS
        if is_obs and twin and not draws:
            # the value returned = the value a twin that was never observed returns (cost metrics queried
            # in another order, specification switched away and back, exports, summaries)
            k2, v2 = twin_value(i)
            if (k2, v2) != (kind, cmpval):
                d = fp.net_diff(v2, cmpval) if kind == 'n' and k2 == 'n' else '%s != %s' % (str(cmpval)[:60], str(v2)[:60])
                viol('C18:cost-depends-on-call-order' if op in COSTS else 'C18:%s:%s:value-depends-on-history' % (method, op),
                     '%s returns a value that depends on the observer calls made before it (here, after %s: %s; on a '
                     'twin wrapper in the same state without them: the other)' % (op, [o for o in ops[:i] if o in OBSERVERS], d), i)
            res['twin_values'] = res.get('twin_values', 0) + 1
        if is_obs:
            for comp in comps:
                if comp in ('rng', 'attrs'):
                    continue      # not among the statement's observables (DESIGN section 6): evidence only
                if comp == 'modes' and op in ('export', 'exportnobn') and item.get('mixed'):
                    viol('C18:export:changes-submodule-modes',
                         '%s changed the training mode of sub-modules that were not in the wrapper\'s mode: %s'
                         % (op, ch.get('modes', '')[:200]), i)
                    continue
                viol(_key(method, op, comp), '%s changed %s of the NAS model: %s'
                     % (op, comp, '; '.join('%s: %s' % kv for kv in ch.items() if kv[0] not in ('rng', 'attrs'))[:300]), i)
            for d in derived:
                viol(_key(method, op, d), '%s changed the %s of the NAS model (%s -> %s)'
                     % (op, {'y': 'outputs'}.get(d, d), str(D[d])[:80], str(D2[d])[:80]), i)
            if 'rng' in comps:
                res['observations'].append('%s.%s advances the global torch RNG' % (method, op))
            if 'attrs' in comps:
                added = sorted({a for n in after['attrs'] for a in set(after['attrs'][n]) - set(before['attrs'].get(n, ()))})
                res['observations'].append('%s.%s adds instance attributes to layers: %s' % (method, op, added))
            if 'containers' in seen_only:
                res['observations'].append('%s.%s changes the contents of a container attribute: %s'
                                           % (method, op, ch.get('containers', '').split(':')[0].split('.')[-1]))
            if 'rec' in seen_only:
                recnames = sorted({k.rsplit('.', 1)[1] for k in after['rec'] if before['rec'].get(k) != after['rec'][k]})
                res['observations'].append('%s.%s changes recomputed-on-forward tensors %s (overwritten by the next forward)'
                                           % (method, op, recnames))
        if kind == 'n':
            sig = (json.dumps(after['state'], sort_keys=True), json.dumps(after['theta'], sort_keys=True))
            if last_export is not None and last_export[1] == sig[0]:
                d = fp.net_diff(last_export[0], val[0])
                if d:
                    viol('C18:%s:export:repeat-differs' % method,
                         'two exports of an unchanged model are different networks: %s' % d, i)
            sh = fp.shares_storage(val[1], w)
            if sh:
                res['observations'].append('%s: the exported network shares tensor storage with the NAS model (e.g. %s)'
                                           % (method, sh[0].split('.')[-1]))
            # not demanded (see `assumptions`): what the caller can do to the NAS model THROUGH the returned network
            own = {id(m) for m in w.modules()}
            shared_mods = [n for n, m in val[1].named_modules() if id(m) in own and n]
            if shared_mods:
                flags_before = [m.training for m in w.modules()]
                val[1].eval()
                flipped = sum(1 for m, t in zip(w.modules(), flags_before) if m.training != t)
                for m, t in zip(w.modules(), flags_before):
                    m.training = t
                res['observations'].append(
                    '%s: %s of the exported network are the NAS model\'s own module objects%s; training or '
                    'calling .eval() on the exported network acts on the NAS model'
                    % (method, 'all leaf modules' if method == 'sn' else 'some modules',
                       ' - exported.eval() flips the training flag of NAS sub-modules' if flipped else ''))
            last_export = (val[0], sig[0])
        # cost values are a function of (specification, sampled coefficients, parameters)
        memo_key = (after2['spec'], json.dumps(after2['theta'], sort_keys=True), json.dumps(after2['state'], sort_keys=True))
        if memo_key in cost_memo and cost_memo[memo_key] != D2['cost']:
            viol('C18:%s:spec-switch:cost-not-restored' % method,
                 'same specification, coefficients and parameters, different cost: %s then %s'
                 % (cost_memo[memo_key], D2['cost']), i)
        cost_memo.setdefault(memo_key, D2['cost'])
        D = D2
    if res.get('aborted'):
        return res
    res['final'] = {'raw': _obs_part(fp.raw(w, slots)), 'D': D}
    # ---- "as if they had not been called": the same walk without the observer calls
    if twin and not draws and any(o in OBSERVERS for o in ops):
        w2, _ = build_for_walk(item)
        torch.manual_seed(spec['seed'] + 5)
        for op in ops:
            if op not in OBSERVERS:
                do_op(w2, op, slots, x)
        cs = w2.cost_specification
        f2 = {'raw': _obs_part(fp.raw(w2, slots)), 'D': fp.probe(w2, x, [None] if not isinstance(cs, dict) else names)}
        # values of the plain attributes both wrappers have (the cost path may have added some)
        common_vals = set(f2['raw']['vals']) & set(res['final']['raw']['vals'])
        for f in (f2, res['final']):
            f['raw']['vals'] = {k: f['raw']['vals'][k] for k in common_vals}
        res['twin'] = f2 == res['final']
        if not res['twin']:
            diff = [k for k in f2['raw'] if f2['raw'][k] != res['final']['raw'][k]] + \
                   [k for k in f2['D'] if f2['D'][k] != res['final']['D'][k]]
            viol('C18:%s:continues-differently' % method,
                 'the walk ends in a different state (%s) than the same walk without its observer calls' % diff,
                 len(ops) - 1)
    return res


# ------------------------------------------------- the next search step (gradient path) leg
def _search_step(item, with_observers):
    """forward -> [observer calls] -> loss = task + strength * cost -> backward -> SGD step, on a fresh wrapper"""
    import torch
    spec = item['spec']
    slots = slot_specs(spec)
    w, shape = build_for_walk(item)
    x = om.data(shape, spec['seed'] + 4)
    torch.manual_seed(spec['seed'] + 5)
    for p in w.parameters():
        p.grad = None
    out = {'raised': None}
    y = w(x)
    if with_observers:
        for op in item['ops']:
            do_op(w, op, slots, x)
    try:
        c = w.get_cost('a') if isinstance(w.cost_specification, dict) else w.cost
        out['cost'] = fp.thash(c) + '=' + repr(float(c))
        out['live'] = bool(c.requires_grad)
        loss = y.pow(2).mean() + 1e-3 * c
        loss.backward()
    except Exception as e:
        out['raised'] = '%s: %s' % (type(e).__name__, str(e)[:160])
        return out
    nas = {n for n, _ in w.named_nas_parameters()}
    out['grads'] = {n: (None if p.grad is None else fp.thash(p.grad)) for n, p in w.named_parameters()}
    out['nas'] = sorted(n for n in out['grads'] if n in nas)
    with torch.no_grad():
        for p in w.parameters():
            if p.grad is not None:
                p.add_(p.grad, alpha=-0.05)
    out['state'] = {k: fp.thash(v) for k, v in w.state_dict().items() if not k.endswith('theta_alpha')}
    return out


def run_step_case(item, shrink=True):
    """'the search continues exactly as if the observer had not been called': the optimizer step that follows"""
    import torch
    import warnings
    warnings.filterwarnings('ignore')
    torch.set_num_threads(1)
    common.use_repo_on_path()
    spec = item['spec']
    method = om.METHOD[spec['kind']]
    w0, _ = build_for_walk(item)
    res = {'flags': structure_flags(w0, spec), 'violations': [], 'real': None}
    del w0
    a, b = _search_step(item, True), _search_step(item, False)
    case = {'kind': 'step', 'spec': spec, 'train': item['train'], 'disable': bool(item.get('disable')),
            'mixed': item.get('mixed'), 'ops': list(item['ops'])}
    problems = []
    if b['raised']:
        res['real'] = 'twin-raised'       # not an observer matter
        return res
    if a['raised']:
        problems.append(('next-step-raises', 'after %s the step forward->loss->backward raises %s' % (item['ops'], a['raised'])))
    else:
        gdiff = [n for n in a['grads'] if a['grads'][n] != b['grads'][n]]
        nasdiff = [n for n in gdiff if n in a['nas']]
        if a['live'] != b['live'] or nasdiff:
            none = [n for n in nasdiff if a['grads'][n] is None]
            problems.append(('gradient-path', 'cost.requires_grad %s (without the observer calls: %s), cost value %s; gradient of '
                             'NAS parameters differs: %s%s' % (a['live'], b['live'], 'unchanged' if a['cost'] == b['cost'] else 'changed',
                                                               nasdiff[:3], ' (None: %s)' % none[:3] if none else '')))
        elif gdiff or a['state'] != b['state']:
            sdiff = [k for k in a['state'] if a['state'][k] != b['state'][k]]
            problems.append(('next-step-differs', 'gradients %s / parameters after the optimizer step %s differ from the twin '
                             'that never called %s' % (gdiff[:3], sdiff[:3], item['ops'])))
        res['real'] = 'live=%d same=%s' % (a['live'], 'ne' if problems else 'eq')
    if problems and shrink and len(item['ops']) > 1:
        # attribute to a single observer call when one suffices
        for i, op in enumerate(item['ops']):
            one = [op] if not op.startswith('set:') else None
            if one:
                r1 = run_step_case(dict(item, ops=one), shrink=False)
                if r1['violations']:
                    res['violations'] += r1['violations']
                    return res
    for tag, what in problems:
        opname = item['ops'][0].split(':')[0] if len(item['ops']) == 1 else 'observers'
        if item['ops'] and all(o.startswith('set:') for o in item['ops']):
            opname = 'spec-switch'
        res['violations'].append({'key': 'C18:%s:%s:%s' % (method, opname, tag),
                                  'what': 'forward -> %s -> loss = task + strength*cost -> backward -> step: %s' % (item['ops'], what),
                                  'case': case})
    return res


def run_later_case(item):
    """an operation on the wrapper that works before an observer call must still work after it: here
    `copy.deepcopy(model)` on a wrapper that has not run a forward with autograd (a model that is evaluated under
    no_grad, logged, costed and then cloned / handed to an EMA or checkpoint-by-copy helper)"""
    import copy
    import torch
    import warnings
    warnings.filterwarnings('ignore')
    torch.set_num_threads(1)
    common.use_repo_on_path()
    spec = item['spec']
    method = om.METHOD[spec['kind']]
    slots = slot_specs(spec)
    w, shape = build_for_walk(item)
    x = om.data(shape, spec['seed'] + 4)
    with torch.no_grad():
        w(x)

    def clone_ok():
        try:
            copy.deepcopy(w)
            return None
        except Exception as e:
            return '%s: %s' % (type(e).__name__, str(e)[:100])
    res = {'violations': [], 'before': clone_ok(), 'after': {}}
    if res['before'] is not None:
        return res
    for op in item['ops']:
        do_op(w, op, slots, x)
        err = clone_ok()
        res['after'][op] = err
        if err is not None:
            res['violations'].append({'key': 'C18:%s:%s:later-deepcopy-fails' % (method, {'getcost': 'cost', 'getcostb': 'cost'}.get(op, op)),
                                      'what': 'copy.deepcopy(model) works before %s and raises afterwards (%s): the observer left '
                                              'tensors in the live modules that cannot be copied' % (op, err),
                                      'case': {'kind': 'later', 'spec': spec, 'train': item['train'], 'disable': False,
                                               'mixed': None, 'ops': [op]}})
            break
    return res


def _step_cases(chk):
    rng = chk.rng
    items = []
    for kind in om.KINDS:
        method = om.METHOD[kind]
        for train in (1, 0):
            for cost in ('single', 'dict'):
                spec = om.random_spec(rng, kind, cost=cost)
                init = 's0' if cost == 'single' else 'd0'
                c = 'cost' if cost == 'single' else 'getcost'
                obs = [['export'], ['summary'], [c], ['set:s1' if cost == 'dict' else 'set:d1', 'set:' + init]]
                if cost == 'dict':
                    obs.append(['getcostb'])
                if method == 'pit':
                    obs.append(['exportnobn'])
                if not chk.quick or train:
                    obs.append(['summary', 'export', c, 'export'])
                for o in obs:
                    items.append({'spec': spec, 'train': train, 'ops': o, 'disable': False, 'mixed': None})
        for _ in range(2 if chk.quick else 12):
            spec = om.random_spec(rng, kind)
            ab = [o for o in alphabet(method) if o in OBSERVERS]
            items.append({'spec': spec, 'train': rng.randrange(2), 'ops': rng.choices(ab, k=rng.randint(1, 3)),
                          'disable': method == 'mps' and rng.random() < 0.3,
                          'mixed': rng.choice([None, None, 'bn', 'drop', 'bn+drop'])})
    return items


def _obs_part(r):
    return {k: r[k] for k in ('modes', 'state', 'theta', 'reqgrad', 'vals', 'spec')}


def _key(method, op, comp):
    if op == 'exportraises':
        return 'C18:%s:export-raises:state-left-behind' % method
    if op in ('export', 'exportnobn') and comp in ('modes', 'theta'):
        return 'C18:export:leaves-eval-mode-and-eval-coefficients'
    if method == 'sn' and op == 'summary' and comp in ('theta', 'cost', 'y'):
        return 'C18:SuperNetCombiner.summary:resamples'
    return 'C18:%s:%s:%s' % (method, op, {'y': 'outputs'}.get(comp, comp))


# ------------------------------------------------------------------------------- run
def _cases(chk):
    rng = chk.rng
    items = []

    def add(kind, train, ops, **force):
        extra = ('disable', 'mixed')
        spec = om.random_spec(rng, kind, **{k: v for k, v in force.items() if k not in extra})
        items.append({'spec': spec, 'train': int(train), 'ops': ops, 'disable': force.get('disable', False),
                      'mixed': force.get('mixed')})
    # fixed walks first: an export and a summary in the middle of training, then the cost
    for kind in om.KINDS:
        for cost in ('single', 'dict'):
            c = 'cost' if cost == 'single' else 'getcost'
            add(kind, 1, ['forward', 'export', c, 'summary', c, 'export'], cost=cost, hard=False)
        # cost metrics of a dictionary specification queried in both orders, on the whole network
        # (full_cost) and on the searchable part; specification switched away and back in between
        for full in (True, False):
            add(kind, 0, ['forward', 'getcostb', 'getcost', 'getcostb', 'set:s1', 'cost', 'set:d0', 'getcostb'],
                cost='dict', full_cost=full)
            add(kind, 1, ['forward', 'getcost', 'getcostb', 'set:d1', 'getcostb', 'set:d0', 'getcostb', 'getcost'],
                cost='dict', full_cost=full, dropout=False, gumbel=False)
        # mixed sub-module modes: BatchNorm / Dropout frozen inside a training wrapper, and the reverse
        add(kind, 1, ['forward', 'export', 'forward', 'summary', 'export', 'forward'], mixed='bn+drop', gumbel=False)
        add(kind, 0, ['forward', 'export', 'forward', 'cost', 'export'], mixed='bn+drop', cost='single')
        # a failing observer: an export() that raises in the middle of training (uniform and mixed modes)
        add(kind, 1, ['forward', 'exportraises', 'cost', 'forward', 'exportraises', 'summary'], cost='single', hard=False)
        add(kind, 1, ['forward', 'exportraises', 'getcost', 'export'], cost='dict', mixed='bn+drop', gumbel=False)
    add('sn', 1, ['forward', 'summary', 'cost', 'summary', 'export', 'cost'], gumbel=True, cost='single', hard=False)
    add('sn', 1, ['forward', 'getcost', 'summary', 'getcost', 'forward', 'summary'], gumbel=True, cost='dict')
    add('mpsl', 1, ['forward', 'cost', 'set:s1', 'cost', 'set:s0', 'cost'], cost='single')
    add('pit2d', 1, ['forward', 'getcost', 'set:d1', 'getcost', 'export', 'set:d0'], cost='dict', full_cost=True)
    add('mpsc', 1, ['forward', 'export', 'cost', 'forward', 'export', 'summary'], cost='single', disable=True)
    n_random = 8 if chk.quick else 60
    for kind in om.KINDS:
        for train in (0, 1):
            for _ in range(n_random):
                force = {}
                if om.METHOD[kind] == 'mps' and rng.random() < 0.2:
                    force['disable'] = True
                if rng.random() < 0.35:
                    force['mixed'] = rng.choice(['bn', 'drop', 'bn+drop'])
                add(kind, train, gen_walk(rng, om.METHOD[kind]), **force)
    if not chk.quick:
        # every ordered pair of calls after the initial forward, per architecture kind and mode
        for kind in om.KINDS:
            ab = alphabet(om.METHOD[kind])
            for train in (0, 1):
                for a in ab:
                    for b in ab:
                        add(kind, train, ['forward', a, b, 'cost' if rng.random() < 0.5 else 'getcost'])
        # every ordered triple, each on a randomly configured wrapper of a random kind of the method
        for method in ('pit', 'mps', 'sn'):
            ab = alphabet(method)
            kinds = [k for k in om.KINDS if om.METHOD[k] == method]
            for a in ab:
                for b in ab:
                    for c in ab:
                        add(rng.choice(kinds), rng.randrange(2), ['forward', a, b, c],
                            **({'disable': True} if method == 'mps' and rng.random() < 0.15 else {}))
    return items


def run(chk):
    chk.rule = ('walks = initial forward + <= 5 calls drawn from the alphabet (observers weighted up), on 6 '
                'architecture kinds x train/eval x random (gumbel, hard, full_cost, dropout, single/dict spec, MPS '
                'sampling disabled), plus fixed walks (export/summary in the middle of training, specification '
                'round trips); thorough adds every ordered pair of calls per kind and mode and every ordered triple per method. non-trivial = walk with '
                'at least one observer call; distinct = distinct (architecture spec, mode, call sequence)')
    chk.trusted += ['harness/fingerprint.py: the fingerprint reads state_dict tensors, per-module flags, instance '
                    'attributes and the torch RNG state; it restores what its own probing forward disturbs',
                    'torch RNG and state_dict mechanics (modelled: an RNG position, a version number per component)']
    chk.assumptions += [
        'The global torch RNG is not among the observables of C18 (DESIGN section 6): export() of PIT and MPS builds new, '
        'randomly initialised layers before overwriting their weights and so advances the RNG; a *stochastic* forward '
        '(dropout, Gumbel noise) after export() therefore draws other random numbers than it would have. This is recorded '
        'as an observation, predicted by the model (component rng) and not demanded; every comparison with a twin wrapper is '
        'made where no forward draws random numbers, or from the same seed before the forward.',
        'Instance attributes that an observer adds to layers without influencing any observable (output_shape written by '
        'the full_cost / SuperNet branch cost paths) are observations, not violations (DESIGN appendix E).',
        'Reading of "the search can continue afterwards exactly as if they had not been called": C18 is about the CALLS of '
        'the alphabet on the NAS model. The export call itself is demanded to be clean (and is); what the caller later does '
        'with the RETURNED network is outside the alphabet. The returned network aliases the NAS model: SuperNet.export() is '
        'built from the NAS model\'s own modules and parameter tensors, MPS.export() copies weights but shares the quantizer '
        'objects (PACT clip_val parameters) with the NAS model and with other exports, PIT.export() shares every leaf it does '
        'not rebuild (Dropout, activations, pooling, excluded layers). Calling .eval() on / fine-tuning the exported network '
        'therefore acts on the NAS model. The check measures the aliasing (shared storage, shared module objects, flags flipped '
        'by exported.eval()) and reports it as an observation, not as a violation; deep-copying the exported network before use '
        'avoids it.',
        'Container contents an observer rewrites without changing any observable are observations: MPS per-channel export() '
        'sets quantizer_kwargs["cout"] in a dict shared by all bias quantizers (the module-level DEFAULT_QINFO when the default '
        'qinfo is used) and leaves group-sized cached weight ranges (ch_min/ch_max, recomputed by the next forward); '
        'SuperNetCombiner.get_cost writes output_shape into branch layers whatever full_cost is (modelled: costAddsAttrs).',
        'PIT.export(add_bn=False) behaves exactly like export() (it clears an attribute, following_bn_args, that no layer '
        'has): for C18 it is one more observer; that the flag has no effect is outside C18 (it is a statement about the '
        'exported network, not about the NAS model).']
    chk.prove()
    items = _cases(chk)
    results = common.pmap(run_walk, items)
    # ---- operations that worked before an observer call still work after it
    litems = []
    for kind in om.KINDS:
        for cost in ('single', 'dict'):
            spec = om.random_spec(chk.rng, kind, cost=cost)
            c = 'cost' if cost == 'single' else 'getcost'
            for ops in (['summary'], ['export'], [c]):
                litems.append({'spec': spec, 'train': 0, 'ops': ops, 'disable': False, 'mixed': None})
    for it, r in zip(litems, common.pmap(run_later_case, litems)):
        for v in r['violations']:
            chk.violation(v['key'], v['what'], v['case'])
        chk.count((json.dumps(it['spec'], sort_keys=True), tuple(it['ops']), 'later'), bucket='later-ops-leg',
                  nontrivial=r['before'] is None)
    # ---- the optimizer step that follows an observer call
    sitems = _step_cases(chk)
    sresults = common.pmap(run_step_case, sitems)
    slines = [driver_line(it, r['flags']).replace('walk ', 'stepcase ', 1) for it, r in zip(sitems, sresults)]
    lines = [driver_line(it, r['flags']) for it, r in zip(items, results)]
    model = chk.driver('C18', lines + slines) if not any('lake build' in b for b in chk.proof_broken) \
        else [None] * (len(lines) + len(slines))
    model, smodel = model[:len(lines)], model[len(lines):]
    for it, r, ans in zip(sitems, sresults, smodel):
        if ans is not None and r['real'] not in (None, 'twin-raised'):
            chk.corr({'spec': it['spec'], 'train': it['train'], 'disable': it.get('disable', False), 'mixed': it.get('mixed'),
                      'step-after': it['ops']}, r['real'], ans,
                     'is the cost differentiable w.r.t. the NAS parameters after the observer calls, and does the '
                     'optimizer step equal the twin\'s')
        for v in r['violations']:
            chk.violation(v['key'], v['what'], v['case'])
        chk.count((json.dumps(it['spec'], sort_keys=True), it['train'], tuple(it['ops']), 'step'),
                  sample={'spec': it['spec'], 'train': it['train'], 'step-after': it['ops'], 'impl': r['real']},
                  bucket='step-leg:%s' % it['spec']['kind'])
        chk.hist['step-leg:' + str(r['real'])] = chk.hist.get('step-leg:' + str(r['real']), 0) + 1
    for it, r, ans in zip(items, results, model):
        method = om.METHOD[it['spec']['kind']]
        if ans is not None:
            pred = ans.split(' ')
            # hard Gumbel sampling in training mode: a fresh draw may or may not select another branch,
            # so whether the one-hot coefficients (and the cost) change is not determined: not compared
            coin = it['train'] and it['spec']['gumbel'] and it['spec']['hard'] and method != 'pit' \
                and not it.get('disable')
            for i, (st, p) in enumerate(zip(r['steps'], pred)):
                if i == 0:
                    continue          # the initial forward only establishes the sampled coefficients
                real = '%s:%s' % (','.join(st['changed']) or '-', st['class'])
                if coin:
                    real, p = _drop_coin(real, st['op']), _drop_coin(p, st['op'])
                chk.corr({'spec': it['spec'], 'train': it['train'], 'disable': it.get('disable', False),
                          'mixed': it.get('mixed'), 'ops': it['ops'][:i + 1], 'detail': st['detail']}, real, p,
                         'components changed by call %d (%s) and class of what it returned' % (i, st['op']))
                key = '%s:%s:%s' % (method, st['op'].split(':')[0], ','.join(st['changed']) or '-')
                chk.hist[key] = chk.hist.get(key, 0) + 1
        for v in r['violations']:
            chk.violation(v['key'], v['what'], v['case'])
        for o in r['observations']:
            chk.observe(o)
        chk.hist['twin-values-compared'] = chk.hist.get('twin-values-compared', 0) + r.get('twin_values', 0)
        if it.get('mixed'):
            chk.hist['mixed-modes-walks'] = chk.hist.get('mixed-modes-walks', 0) + 1
        chk.count((json.dumps(it['spec'], sort_keys=True), it['train'], tuple(it['ops']), it.get('disable', False),
                   it.get('mixed')),
                  nontrivial=any(o in OBSERVERS for o in it['ops'][1:]),
                  sample={'spec': it['spec'], 'train': it['train'], 'mixed': it.get('mixed'), 'ops': it['ops'],
                          'impl': ['%s:%s' % (','.join(s['changed']) or '-', s['class']) for s in r['steps']]},
                  bucket='%s:%s' % (it['spec']['kind'], 'train' if it['train'] else 'eval'))
        if 'twin' in r:
            chk.hist['twin-compared'] = chk.hist.get('twin-compared', 0) + 1
    # ---- shrink the first case of every violated key (delta debugging over the call list)
    first = {}
    for v in chk.violations:
        first.setdefault(v['key'], v)
    for key, v in first.items():
        if v['case'].get('kind') == 'walk':
            v['case'] = _shrink(v['case'], key)
    chk.violations = list(first.values()) + [v for v in chk.violations if v is not first[v['key']]]
    # ---- escalation: a broken proof / correspondence widens the search
    broken = bool(chk.proof_broken or chk.corr_disagreements)
    if broken and not chk.violations:
        rng = chk.rng
        extra = []
        for kind in om.KINDS:
            for train in (0, 1):
                for _ in range(20 if chk.quick else 60):
                    spec = om.random_spec(rng, kind)
                    extra.append({'spec': spec, 'train': train, 'ops': gen_walk(rng, om.METHOD[kind]),
                                  'disable': om.METHOD[kind] == 'mps' and rng.random() < 0.2,
                                  'mixed': rng.choice([None, None, 'bn', 'drop', 'bn+drop'])})
        for it, r in zip(extra, common.pmap(run_walk, extra)):
            for v in r['violations']:
                chk.violation(v['key'], v['what'], v['case'])
            chk.count((json.dumps(it['spec'], sort_keys=True), it['train'], tuple(it['ops']), 'esc'), bucket='escalated')


def _drop_coin(ans, op):
    import re
    ch, cls = ans.split(':')
    if op == 'forward':
        ch = ','.join(c for c in ch.split(',') if c != 'theta') or '-'
    return ch + ':' + re.sub(r'^c\d+$', 'c', cls)


def _shrink(case, key):
    ops = list(case['ops'])

    def fails(o):
        r = run_walk({'spec': case['spec'], 'train': case['train'], 'disable': case.get('disable', False),
                      'mixed': case.get('mixed'), 'ops': o},
                     twin=key.endswith(('continues-differently', 'call-order', 'value-depends-on-history')))
        return any(v['key'] == key for v in r['violations'])
    changed = True
    while changed and len(ops) > 2:
        changed = False
        for i in range(1, len(ops)):
            cand = ops[:i] + ops[i + 1:]
            if len(cand) >= 2 and fails(cand):
                ops, changed = cand, True
                break
    return dict(case, ops=ops)


def replay(data):
    common.use_repo_on_path()
    case = data['case']
    if case.get('kind') == 'later':
        r = run_later_case({'spec': case['spec'], 'train': case['train'], 'ops': case['ops']})
        print('deepcopy before:', r['before'] or 'ok', '| after:', r['after'])
        return 1 if data.get('key') in [v['key'] for v in r['violations']] else 0
    if case.get('kind') == 'step':
        r = run_step_case({'spec': case['spec'], 'train': case['train'], 'disable': case.get('disable', False),
                           'mixed': case.get('mixed'), 'ops': case['ops']})
        print('forward -> %s -> loss -> backward -> step:' % case['ops'], r['real'])
        for v in r['violations']:
            print('VIOLATES', v['key'], '-', v['what'])
        return 1 if data.get('key') in [v['key'] for v in r['violations']] else 0
    r = run_walk({'spec': case['spec'], 'train': case['train'], 'disable': case.get('disable', False),
                  'mixed': case.get('mixed'), 'ops': case['ops']})
    for st in r['steps']:
        print('%-12s changed=%s returned=%s derived-observables-changed=%s %s'
              % (st['op'], st['changed'] or '-', st['class'], st['derived'] or '-', st['detail'] if st['changed'] else ''))
    keys = [v['key'] for v in r['violations']]
    for v in r['violations']:
        print('VIOLATES', v['key'], '-', v['what'])
    return 1 if data.get('key') in keys else 0
