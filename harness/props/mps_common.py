"""Shared by c02.py and c05.py: random MPS nets from the C02 grammar, rendered both as a real
`nn.Module` and as a request line for `Drivers/C02.lean` / `Drivers/C05.lean`; extraction of the same
canonical strings from the real `MPS` object (wiring of quantizer objects, selection, what cost
functions are shown, costs).  Everything random derives from integers stored in the case, so a case
(JSON) rebuilds the same net, coefficients and input.
"""
import random
import warnings
from fractions import Fraction

warnings.filterwarnings('ignore')

# --------------------------------------------------------------------------------------------
# net descriptions (JSON)
# --------------------------------------------------------------------------------------------
# prog: list of instructions, instruction 0 is the input.
#   ['input'] | ['conv', src, cout, k, stride, bias] | ['dw', src, k, stride, bias] | ['bn', src]
#   | ['relu', src] | ['relu6', src] | ['pool', src, 'avg'|'max'] | ['flat', src]
#   | ['lin', src, cout, bias] | ['add', a, b]
#   | ['reuse', src, of]   the conv module of instruction `of` invoked again on `src` (layer reuse)
# 'conv' / 'dw' may carry a trailing dict of Conv2d hyper-parameter variants (C02):
#   {'pm': padding_mode, 'pad': int | 'same' | 'valid', 'dil': dilation}; absent = zeros, k // 2, 1.
# In the Lean model padding / stride / dilation are part of the abstract per-layer map (`Sem.kernel`);
# only the output size they produce enters the request line.
# dim = 2 (Conv2d grammar of C02) or 1 (Conv1d family, C05 spec keys only)


def _opts(ins):
    return ins[-1] if isinstance(ins[-1], dict) else {}


def conv_out(sp_in, k, s, opts):
    """output size of a conv along one spatial axis"""
    d = opts.get('dil', 1)
    pad = opts.get('pad', k // 2)
    if pad == 'same':
        return sp_in
    if pad == 'valid':
        pad = 0
    return (sp_in + 2 * pad - d * (k - 1) - 1) // s + 1


def draw_conv_opts(rng, k, s, sp_in, keep):
    """Random Conv2d hyper-parameter variant: dilation, padding (default / other integer / 'same' /
    'valid') and padding_mode in {zeros, reflect, replicate, circular}, valid for the input size
    (reflect needs pad < size, circular pad <= size; the output keeps >= 1 position; `keep`: the
    spatial size must be preserved, residual branch)."""
    d = rng.choice([1, 1, 2]) if (k == 3 and sp_in >= 5) else 1
    half = d * (k - 1) // 2
    cands = [half]
    if s == 1:
        cands.append('same')
    if not keep:
        cands += [p_ for p_ in (0, 1, 2) if p_ != half]
        if sp_in - d * (k - 1) >= 1:
            cands.append('valid')
    pad = rng.choice(cands)
    if not keep and conv_out(sp_in, k, s, {'pad': pad, 'dil': d}) < 1:
        pad = half
    amount = half if pad == 'same' else (0 if pad == 'valid' else pad)
    pm = rng.choice(['zeros', 'zeros', 'reflect', 'replicate', 'circular', 'reflect', 'replicate', 'circular'])
    if (pm == 'reflect' and amount >= sp_in) or (pm == 'circular' and amount > sp_in):
        pm = 'replicate'
    o = {}
    if pm != 'zeros':
        o['pm'] = pm
    if pad != k // 2:
        o['pad'] = pad
    if d != 1:
        o['dil'] = d
    return o


def gen_desc(rng, first=None, couts=(2, 3, 4), dim=2, allow_bn=True, min_layers=1, max_layers=3, dw_k=(1, 3),
             conv_variants=False):
    """Random program of the grammar.  `first` forces the shape of the network's head:
    'dw' (depthwise on the network input), 'addin' (residual add with the network input)."""
    C0 = rng.choice([2, 3]) if couts != (2, 4, 8) else rng.choice([2, 4])
    T = rng.choice([6, 8])
    prog = [['input']]
    ch, sp = [C0], [T]

    def add(ins, c, s):
        prog.append(ins)
        ch.append(c)
        sp.append(s)
        return len(prog) - 1

    def act(n):
        r = rng.random()
        if r < 0.7:
            return add(['relu', n], ch[n], sp[n])
        if r < 0.85:
            return add(['relu6', n], ch[n], sp[n])
        return n

    def conv(src, dw=False, cout=None, keep=False):
        cin = ch[src]
        cout = cin if dw else (cout or rng.choice(list(couts)))
        k = rng.choice(list(dw_k)) if dw else rng.choice([1, 3])
        s = 1 if keep else rng.choice([1, 1, 2])
        bias = int(rng.random() < 0.7)
        o = draw_conv_opts(rng, k, s, sp[src], keep) if (conv_variants and dim == 2) else {}
        so = conv_out(sp[src], k, s, o)
        ins = ['dw', src, k, s, bias] if dw else ['conv', src, cout, k, s, bias]
        n = add(ins + ([o] if o else []), cout, so)
        if allow_bn and dim == 2 and rng.random() < 0.45:
            n = add(['bn', n], cout, so)
        return act(n)

    if first == 'dw':
        cur = conv(0, dw=True)
        cur = conv(cur)
    elif first == 'addin':
        b = conv(0, cout=C0, keep=True)
        cur = add(['add', 0, b] if rng.random() < 0.5 else ['add', b, 0], C0, T)
        cur = conv(cur)
    else:
        cur = conv(0)
    for _ in range(rng.randint(min_layers, max_layers)):
        r = rng.random()
        if r < 0.35:
            cur = conv(cur)
        elif r < 0.55:
            cur = conv(cur, dw=True)
        elif r < 0.8:
            # residual: the tensor `cur` has two consumers (branch conv and the add)
            b = conv(cur, cout=ch[cur], keep=True)
            if rng.random() < 0.3:       # two-layer branch
                b = conv(b, cout=ch[cur], keep=True)
            cur = add(['add', cur, b] if rng.random() < 0.5 else ['add', b, cur], ch[cur], sp[cur])
            if rng.random() < 0.5:
                cur = add(['relu', cur], ch[cur], sp[cur])
        elif sp[cur] >= 4:
            cur = add(['pool', cur, rng.choice(['avg', 'max'])], ch[cur], sp[cur] // 2)
    feat = ch[cur] * (sp[cur] ** dim)
    f = add(['flat', cur], feat, 1)
    if rng.random() < 0.55:
        h = rng.choice(list(couts))
        l = add(['lin', f, h, int(rng.random() < 0.8)], h, 1)
        if allow_bn and rng.random() < 0.4:
            l = add(['bn', l], h, 1)
        f = add(['relu', l], h, 1)
    add(['lin', f, rng.choice([2, 4]) if couts == (2, 4, 8) else rng.choice([2, 3]),
         int(rng.random() < 0.8)], 0, 1)
    return {'C0': C0, 'T': T, 'dim': dim, 'prog': prog, 'wseed': rng.randrange(1 << 30)}


def gen_reuse_desc(rng, couts=(2, 3, 4), dim=2):
    """A net in which ONE conv module is invoked twice at two different resolutions, both times on
    tensors of the same producer (so the module's single in-quantizer and features calculator are
    unambiguous): y = act(conv_a(x)); u = act(sh(y)); v = act(sh(pool(y))); z = pool(u) + v; ..."""
    C0 = rng.choice([2, 3]) if couts != (2, 4, 8) else rng.choice([2, 4])
    T = rng.choice([6, 8])
    prog = [['input']]

    def add(ins):
        prog.append(ins)
        return len(prog) - 1
    c1, c2 = rng.choice(list(couts)), rng.choice(list(couts))
    a = add(['conv', 0, c1, rng.choice([1, 3]), 1, int(rng.random() < 0.7)])
    y = add(['relu', a])
    k = rng.choice([1, 3])
    bias = int(rng.random() < 0.7)
    if rng.random() < 0.5:          # full resolution first
        sh = add(['conv', y, c2, k, 1, bias])
        u = add(['relu', sh])
        py = add(['pool', y, rng.choice(['avg', 'max'])])
        v = add(['relu', add(['reuse', py, sh])])
        pu = add(['pool', u, rng.choice(['avg', 'max'])])
    else:                           # pooled resolution first
        py = add(['pool', y, rng.choice(['avg', 'max'])])
        sh = add(['conv', py, c2, k, 1, bias])
        v = add(['relu', sh])
        u = add(['relu', add(['reuse', y, sh])])
        pu = add(['pool', u, rng.choice(['avg', 'max'])])
    cur = add(['add', pu, v] if rng.random() < 0.5 else ['add', v, pu])
    ch = c2
    if rng.random() < 0.5:
        ch = rng.choice(list(couts))
        cur = add(['relu', add(['conv', cur, ch, rng.choice([1, 3]), 1, int(rng.random() < 0.7)])])
    f = add(['flat', cur])
    add(['lin', f, rng.choice([2, 4]) if couts == (2, 4, 8) else rng.choice([2, 3]), int(rng.random() < 0.8)])
    return {'C0': C0, 'T': T, 'dim': dim, 'prog': prog, 'wseed': rng.randrange(1 << 30)}


def gen_siamese_desc(rng, couts=(2, 3, 4), dim=2):
    """Siamese branches: ONE conv module `sh` applied to the outputs of two DIFFERENT producers
    (relu(ca(x)) and relu(cb(x))), at the same or at two different resolutions, results summed. The
    module owns a single in-quantizer / features calculator: after 3725f20 the two producers are tied
    into one sharing component."""
    C0 = rng.choice([2, 3]) if couts != (2, 4, 8) else rng.choice([2, 4])
    T = rng.choice([6, 8])
    prog = [['input']]

    def add(ins):
        prog.append(ins)
        return len(prog) - 1
    c1, c2 = rng.choice(list(couts)), rng.choice(list(couts))
    ya = add(['relu', add(['conv', 0, c1, rng.choice([1, 3]), 1, int(rng.random() < 0.7)])])
    cb = add(['conv', 0, c1, rng.choice([1, 3]), 1, int(rng.random() < 0.7)])
    yb = add([rng.choice(['relu', 'relu6']), cb])
    k, bias = rng.choice([1, 3]), int(rng.random() < 0.7)
    sh = add(['conv', ya, c2, k, 1, bias])
    u = add(['relu', sh])
    if rng.random() < 0.5:      # same resolution
        v = add(['relu', add(['reuse', yb, sh])])
    else:                       # second call site at half resolution
        pb = add(['pool', yb, rng.choice(['avg', 'max'])])
        v = add(['relu', add(['reuse', pb, sh])])
        u = add(['pool', u, rng.choice(['avg', 'max'])])
    cur = add(['add', u, v] if rng.random() < 0.5 else ['add', v, u])
    if rng.random() < 0.5:
        cur = add(['relu', add(['conv', cur, rng.choice(list(couts)), rng.choice([1, 3]), 1, int(rng.random() < 0.7)])])
    f = add(['flat', cur])
    add(['lin', f, rng.choice([2, 4]) if couts == (2, 4, 8) else rng.choice([2, 3]), int(rng.random() < 0.8)])
    return {'C0': C0, 'T': T, 'dim': dim, 'prog': prog, 'wseed': rng.randrange(1 << 30), 'siamese': 1}


def gen_reuse_input_desc(rng, couts=(2, 3, 4), dim=2):
    """One conv module `s` (C0 -> C0) invoked on the NETWORK INPUT and on an inner tensor: on its own
    activated output (s(act(s(x)))), or on another layer's output with the results summed (either call
    site first). The module owns one in-quantizer (first call site); the network-input quantizer lies
    outside the sharing graph, so the two tensors cannot be quantized by one object."""
    C0 = rng.choice([2, 3]) if couts != (2, 4, 8) else rng.choice([2, 4])
    T = rng.choice([6, 8])
    prog = [['input']]

    def add(ins):
        prog.append(ins)
        return len(prog) - 1
    k, bias = rng.choice([1, 3]), int(rng.random() < 0.7)
    r = rng.random()
    if r < 0.5:                 # s(x), then s on its own output
        s_ = add(['conv', 0, C0, k, 1, bias])
        cur = add(['relu', add(['reuse', add([rng.choice(['relu', 'relu6']), s_]), s_])])
    else:
        y = add(['relu', add(['conv', 0, C0, rng.choice([1, 3]), 1, int(rng.random() < 0.7)])])
        if r < 0.75:            # inner tensor first, network input second
            s_ = add(['conv', y, C0, k, 1, bias])
            u = add(['relu', s_])
            v = add(['relu', add(['reuse', 0, s_])])
        else:                   # network input first, inner tensor second
            s_ = add(['conv', 0, C0, k, 1, bias])
            u = add(['relu', s_])
            v = add(['relu', add(['reuse', y, s_])])
        cur = add(['add', u, v] if rng.random() < 0.5 else ['add', v, u])
    f = add(['flat', cur])
    add(['lin', f, rng.choice([2, 4]) if couts == (2, 4, 8) else rng.choice([2, 3]), int(rng.random() < 0.8)])
    return {'C0': C0, 'T': T, 'dim': dim, 'prog': prog, 'wseed': rng.randrange(1 << 30), 'reuse_in': 1}


def gen_split_reuse_desc(rng, couts=(2, 3, 4), dim=2):
    """One conv module `sh` invoked twice whose two results feed DIFFERENT sums: one call site is
    summed with `side(x)`, the other is not (d reads the sum, e reads the other result, d + e is the
    output). The module owns one output / weight quantizer, so both call sites -- and `side` -- must
    share one component."""
    C0 = rng.choice([2, 3]) if couts != (2, 4, 8) else rng.choice([2, 4])
    T = rng.choice([6, 8])
    prog = [['input']]

    def add(ins):
        prog.append(ins)
        return len(prog) - 1

    def cv(src, c):
        return add(['conv', src, c, rng.choice([1, 3]), 1, int(rng.random() < 0.7)])
    c1, c2, c3 = rng.choice(list(couts)), rng.choice(list(couts)), rng.choice(list(couts))
    y1 = add(['relu', cv(0, c1)])
    sh = cv(y1, c2)
    y2 = add([rng.choice(['relu', 'relu6']), cv(0, c1)])
    rb = add(['reuse', y2, sh])
    side = cv(0, c2)
    summed, other = (sh, rb) if rng.random() < 0.5 else (rb, sh)
    y = add(['add', summed, side] if rng.random() < 0.5 else ['add', side, summed])
    d = cv(add(['relu', y]), c3)
    e = cv(add(['relu', other]), c3)
    cur = add(['add', d, e] if rng.random() < 0.5 else ['add', e, d])
    f = add(['flat', cur])
    add(['lin', f, rng.choice([2, 4]) if couts == (2, 4, 8) else rng.choice([2, 3]), int(rng.random() < 0.8)])
    return {'C0': C0, 'T': T, 'dim': dim, 'prog': prog, 'wseed': rng.randrange(1 << 30), 'split': 1}


def _shapes(desc):
    """channels and spatial size of every instruction's output"""
    ch, sp = [], []
    for ins in desc['prog']:
        op = ins[0]
        if op == 'input':
            ch.append(desc['C0']); sp.append(desc['T'])
        elif op == 'conv':
            ch.append(ins[2]); sp.append(conv_out(sp[ins[1]], ins[3], ins[4], _opts(ins)))
        elif op == 'dw':
            ch.append(ch[ins[1]]); sp.append(conv_out(sp[ins[1]], ins[2], ins[3], _opts(ins)))
        elif op == 'reuse':
            of = desc['prog'][ins[2]]
            ch.append(of[2]); sp.append(conv_out(sp[ins[1]], of[3], of[4], _opts(of)))
        elif op in ('bn', 'relu', 'relu6', 'add'):
            ch.append(ch[ins[1]]); sp.append(sp[ins[1]])
        elif op == 'pool':
            ch.append(ch[ins[1]]); sp.append(sp[ins[1]] // 2)
        elif op == 'flat':
            ch.append(ch[ins[1]] * sp[ins[1]] ** desc['dim']); sp.append(1)
        elif op == 'lin':
            ch.append(ins[2]); sp.append(1)
        else:
            raise ValueError(op)
    return ch, sp


def build_net(desc):
    """The real nn.Module of a description (weights and BatchNorm statistics seeded by `wseed`)."""
    import torch
    import torch.nn as nn
    import torch.nn.functional as F
    dim = desc['dim']
    Conv = nn.Conv2d if dim == 2 else nn.Conv1d
    ch, sp = _shapes(desc)
    prog = desc['prog']

    class GNet(nn.Module):
        def __init__(self):
            super().__init__()
            for i, ins in enumerate(prog):
                op = ins[0]
                if op == 'conv':
                    _, src, cout, k, s, bias = ins[:6]
                    o = _opts(ins)
                    setattr(self, 'n%d' % i, Conv(ch[src], cout, k, stride=s, padding=o.get('pad', k // 2), bias=bool(bias),
                                                  dilation=o.get('dil', 1), padding_mode=o.get('pm', 'zeros')))
                elif op == 'dw':
                    _, src, k, s, bias = ins[:5]
                    o = _opts(ins)
                    setattr(self, 'n%d' % i, Conv(ch[src], ch[src], k, stride=s, padding=o.get('pad', k // 2),
                                                  groups=ch[src], bias=bool(bias), dilation=o.get('dil', 1),
                                                  padding_mode=o.get('pm', 'zeros')))
                elif op == 'bn':
                    is_lin = sp[ins[1]] == 1 and prog[ins[1]][0] == 'lin'
                    setattr(self, 'n%d' % i, nn.BatchNorm1d(ch[i]) if (is_lin or dim == 1) else nn.BatchNorm2d(ch[i]))
                elif op == 'pool':
                    if dim == 2:
                        setattr(self, 'n%d' % i, nn.AvgPool2d(2) if ins[2] == 'avg' else nn.MaxPool2d(2))
                    else:
                        setattr(self, 'n%d' % i, nn.AvgPool1d(2) if ins[2] == 'avg' else nn.MaxPool1d(2))
                elif op == 'flat':
                    setattr(self, 'n%d' % i, nn.Flatten(1))
                elif op == 'lin':
                    setattr(self, 'n%d' % i, nn.Linear(ch[ins[1]], ins[2], bias=bool(ins[3])))

        def forward(self, x):
            v = [x]
            for i, ins in enumerate(prog):
                op = ins[0]
                if op == 'input':
                    continue
                if op in ('conv', 'dw', 'bn', 'pool', 'flat', 'lin'):
                    v.append(getattr(self, 'n%d' % i)(v[ins[1]]))
                elif op == 'reuse':
                    v.append(getattr(self, 'n%d' % ins[2])(v[ins[1]]))
                elif op == 'relu':
                    v.append(F.relu(v[ins[1]]))
                elif op == 'relu6':
                    v.append(F.relu6(v[ins[1]]))
                elif op == 'add':
                    v.append(v[ins[1]] + v[ins[2]])
            return v[-1]

    g = torch.Generator().manual_seed(desc['wseed'])
    torch.manual_seed(desc['wseed'])
    net = GNet()
    with torch.no_grad():
        for mod in net.modules():
            if isinstance(mod, (nn.Conv1d, nn.Conv2d, nn.Linear)):
                mod.weight.copy_(torch.randn(mod.weight.shape, generator=g) * 0.5)
                if mod.bias is not None:
                    mod.bias.copy_(torch.randn(mod.bias.shape, generator=g) * 0.3)
            if isinstance(mod, (nn.BatchNorm1d, nn.BatchNorm2d)):
                n = mod.num_features
                mod.running_mean.copy_(torch.randn(n, generator=g) * 0.3)
                mod.running_var.copy_(torch.rand(n, generator=g) * 1.5 + 0.5)
                mod.weight.copy_(torch.randn(n, generator=g) * 0.5 + 1.0)
                mod.bias.copy_(torch.randn(n, generator=g) * 0.3)
    shape = (desc['C0'],) + (desc['T'],) * dim
    return net, shape


def model_nodes(desc):
    """Node tokens of the Lean request (BatchNorm nodes are fused into their producer), the map
    instruction index -> model node index, and the model's slot list [(tag, model idx, instr idx)]."""
    ch, sp = _shapes(desc)
    dim = desc['dim']
    prog = desc['prog']
    has_bn = set(ins[1] for ins in prog if ins[0] == 'bn')
    toks, mi, slots = [], {}, []
    lt = 2 if dim == 2 else 1
    for i, ins in enumerate(prog):
        op = ins[0]
        if op == 'bn':
            mi[i] = mi[ins[1]]
            continue
        mi[i] = len(toks)
        if op == 'input':
            toks.append('in:%d' % desc['C0'])
            slots.append(('I', mi[i], i))
        elif op in ('conv', 'dw'):
            if op == 'conv':
                _, src, cout, k, s, bias = ins[:6]
            else:
                _, src, k, s, bias = ins[:5]
                cout = ch[src]
            b = 1 if (bias or i in has_bn) else 0
            o0 = sp[i]
            o1 = sp[i] if dim == 2 else 1
            k1 = k if dim == 2 else 1
            toks.append('%s:%d:%d:%d:%d:%d:%d:%d:%d:%d' % (op, mi[src], lt, ch[src], cout, k, k1, o0, o1, b))
            slots.append(('L', mi[i], i))
        elif op == 'reuse':
            _, src0, cout, k, s, bias = prog[ins[2]][:6]
            b = 1 if (bias or ins[2] in has_bn) else 0
            o0 = sp[i]
            o1 = sp[i] if dim == 2 else 1
            k1 = k if dim == 2 else 1
            # dup=1, ta = tensor fed to the first call site (tie edge of the sharing graph, 3725f20)
            # and tf = node of the first call site (the call sites of a module share one component)
            toks.append('conv:%d:%d:%d:%d:%d:%d:%d:%d:%d:1:%d:%d' % (mi[ins[1]], lt, ch[ins[1]], cout, k, k1, o0, o1, b, mi[src0],
                                                                       mi[ins[2]]))
            slots.append(('L', mi[i], i))
        elif op == 'lin':
            b = 1 if (ins[3] or i in has_bn) else 0
            toks.append('lin:%d:%d:%d:%d' % (mi[ins[1]], ch[ins[1]], ins[2], b))
            slots.append(('L', mi[i], i))
        elif op in ('relu', 'relu6', 'pool'):
            toks.append('pass:%d' % mi[ins[1]])
        elif op == 'flat':
            toks.append('flat:%d:%d' % (mi[ins[1]], sp[ins[1]] ** dim))
        elif op == 'add':
            toks.append('add:%d:%d' % (mi[ins[1]], mi[ins[2]]))
            slots.append(('A', mi[i], i))
    toks.append('out:%d' % mi[len(prog) - 1])
    return toks, mi, slots


def input_component_consumers(desc):
    """Layers whose input tensor was produced by a searchable module (depthwise conv / add) that sits
    between the network input and the first features-defining layer (the situation of 7bc98cd)."""
    prog = desc['prog']
    root_in, mps_on_chain = {}, {}
    for i, ins in enumerate(prog):
        op = ins[0]
        if op == 'input':
            root_in[i], mps_on_chain[i] = True, False
        elif op in ('conv', 'lin', 'reuse'):
            root_in[i], mps_on_chain[i] = False, False
        elif op == 'add':
            # a sum with the network input (either operand) belongs to the input's component
            root_in[i] = root_in[ins[1]] or root_in[ins[2]]
            mps_on_chain[i] = True
        else:
            root_in[i] = root_in[ins[1]]
            mps_on_chain[i] = mps_on_chain[ins[1]] or op == 'dw'
    return set(i for i, ins in enumerate(prog)
               if ins[0] in ('conv', 'dw', 'lin', 'reuse') and root_in[ins[1]] and mps_on_chain[ins[1]])


def classify(desc):
    """Case class used in finding keys"""
    return 'mps-module-in-input-component' if input_component_consumers(desc) else 'plain'


# --------------------------------------------------------------------------------------------
# rendering helpers (must match PlinioVerif.Proto / MPSDriver)
# --------------------------------------------------------------------------------------------

def rat(x):
    f = x if isinstance(x, Fraction) else Fraction(x)
    return str(f.numerator) if f.denominator == 1 else '%d/%d' % (f.numerator, f.denominator)


def lst(xs):
    return '[' + ','.join(xs) + ']'


def frac_of(t):
    """exact rational of a python / torch scalar"""
    return Fraction(float(t))


def small_frac(t, maxden=256):
    """a float32 that is the rounding of n/d with small d -> n/d (checked to 1e-6)"""
    v = float(t)
    f = Fraction(v).limit_denominator(maxden)
    if abs(float(f) - v) > 1e-6:
        return Fraction(v)
    return f


# --------------------------------------------------------------------------------------------
# the real MPS object
# --------------------------------------------------------------------------------------------

def make_cfg(rng, pc=False, zero=False, ne16=False):
    precs = [2, 4, 8]
    wp = rng.sample(precs, rng.randint(1, 3))
    ap = rng.sample(precs, rng.randint(1, 3))
    ip = rng.sample(precs, rng.randint(1, 3))
    if ne16:
        ap, ip = [8], [8]
    if pc and zero:
        wp = wp + [0]
        rng.shuffle(wp)
        if len(wp) == 1:
            wp = [0, rng.choice(precs)]
    return {'wp': wp, 'ap': ap, 'ip': ip, 'T': rng.choice([0.05, 0.3, 1.0, 5.0, 20.0]),
            'gumbel': int(rng.random() < 0.4), 'pc': int(pc), 'aseed': rng.randrange(1 << 30),
            'xseed': rng.randrange(1 << 30), 'prune_p': rng.choice([0.0, 0.3, 0.5]) if zero else 0.0}


def qinfo_of(cfg):
    from plinio.methods.mps import get_default_qinfo
    q = get_default_qinfo(w_precision=tuple(cfg['wp']), a_precision=tuple(cfg['ap']))
    q['input_default']['search_precision'] = tuple(cfg['ip'])
    return q


def mps_slots(m):
    """[(tag, name, module, fx node)] of the searchable modules in graph order"""
    from plinio.methods.mps.nn import MPSModule, MPSIdentity, MPSAdd
    out = []
    for n in m.seed.graph.nodes:
        if n.op != 'call_module':
            continue
        mod = m.seed.get_submodule(str(n.target))
        if isinstance(mod, MPSModule):
            tag = 'A' if isinstance(mod, MPSAdd) else ('I' if isinstance(mod, MPSIdentity) else 'L')
            out.append((tag, str(n.target), mod, n))
    return out


def _tie(rng, ks, zi):
    """Tie stream: make the largest coefficients EXACTLY equal (legal values: the selection is then the
    first maximum, what torch.argmax returns and what summary()/export() use).  In place.
    top-2 tie / all equal / tie between the 0-bit alternative and the maximum / left alone."""
    n = len(ks)
    if n < 2:
        return
    r = rng.random()
    order = sorted(range(n), key=lambda i: -ks[i])
    if r < 0.4:
        ks[order[1]] = ks[order[0]]
    elif r < 0.55:
        for i in range(n):
            ks[i] = ks[order[0]]
    elif r < 0.75 and zi is not None:
        ks[zi] = ks[order[0]]
    elif r < 0.85 and n >= 3:
        ks[order[1]] = ks[order[0]]
        ks[order[2]] = ks[order[0]]


def set_alphas(m, cfg):
    """Margin-separated coefficients (multiples of 1/16, gaps >= 1/16), one draw per quantizer object
    in slot order; per-channel matrices column by column, with the 0-bit row winning with
    probability `prune_p` (at least one channel per object stays alive).  With cfg['ties'] the tie
    stream `_tie` is applied to every vector / column."""
    import torch
    rng = random.Random(cfg['aseed'])
    ties = bool(cfg.get('ties'))
    seen = set()
    with torch.no_grad():
        for tag, name, mod, node in mps_slots(m):
            objs = [mod.out_mps_quantizer]
            if tag == 'L':
                objs.append(mod.w_mps_quantizer)
            for q in objs:
                if id(q) in seen:
                    continue
                seen.add(id(q))
                a = q.alpha
                if a.dim() == 1:
                    ks = rng.sample(range(64), a.shape[0])
                    if ties:
                        _tie(rng, ks, None)
                    a.copy_(torch.tensor([k / 16 for k in ks]))
                else:
                    zi = getattr(q, 'zero_index', None)
                    cols = []
                    alive = 0
                    for c in range(a.shape[1]):
                        ks = rng.sample(range(64), a.shape[0])
                        if zi is not None:
                            mx = max(range(len(ks)), key=lambda r: ks[r])
                            want_pruned = rng.random() < cfg.get('prune_p', 0.0)
                            if want_pruned != (mx == zi):
                                if want_pruned:
                                    ks[zi], ks[mx] = ks[mx], ks[zi]
                                else:
                                    other = rng.choice([r for r in range(len(ks)) if r != zi])
                                    ks[zi], ks[other] = ks[other], ks[zi]
                                    mx2 = max(range(len(ks)), key=lambda r: ks[r])
                                    if mx2 == zi:
                                        ks[zi], ks[other] = ks[other], ks[zi]
                        if ties:
                            _tie(rng, ks, zi)
                        if zi is not None and max(range(len(ks)), key=lambda r: ks[r]) != zi:
                            alive += 1       # `max` returns the FIRST maximum, like torch.argmax
                        cols.append(ks)
                    if zi is not None and alive == 0:
                        ks = cols[0]
                        for r in range(len(ks)):
                            ks[r] = 0 if r == zi else 8 + r
                    a.copy_(torch.tensor([[cols[c][r] / 16 for c in range(a.shape[1])]
                                          for r in range(a.shape[0])]))


def make_mps(desc, cfg, cost):
    import torch
    from plinio.methods.mps import MPS, MPSType
    torch.set_num_threads(1)
    net, shape = build_net(desc)
    m = MPS(net, input_shape=shape, cost=cost, qinfo=qinfo_of(cfg),
            w_search_type=MPSType.PER_CHANNEL if cfg['pc'] else MPSType.PER_LAYER,
            temperature=cfg['T'], gumbel_softmax=bool(cfg['gumbel']))
    set_alphas(m, cfg)
    return m, shape


def rand_input(cfg, shape, batch=3):
    """inputs in the input quantizer's range [0, clip_val = 1]"""
    import torch
    g = torch.Generator().manual_seed(cfg['xseed'])
    return torch.rand((batch,) + tuple(shape), generator=g)


def alpha_fields(m, slots_model):
    """`ao=` / `aw=` of the request: exact rationals of the coefficients found at each slot"""
    real = mps_slots(m)
    ao, aw = [], []
    for (tag, mi_, _), (rtag, name, mod, node) in zip(slots_model, real):
        a = mod.out_mps_quantizer.alpha.detach()
        ao.append('%d:%s' % (mi_, lst([rat(frac_of(v)) for v in a.tolist()])))
        if tag == 'L':
            w = mod.w_mps_quantizer.alpha.detach()
            if w.dim() == 1:
                aw.append('%d:%s' % (mi_, lst([rat(frac_of(v)) for v in w.tolist()])))
            else:
                aw.append('%d:%s' % (mi_, lst([lst([rat(frac_of(v)) for v in row]) for row in w.tolist()])))
    return 'ao=%s aw=%s' % (lst(ao), lst(aw))


def request_line(desc, cfg, m):
    toks, mi, slots = model_nodes(desc)
    real = mps_slots(m)
    if [s[0] for s in slots] != [r[0] for r in real]:
        return None, slots
    return ('mps pc=%d ap=%s ip=%s wp=%s nodes=%s %s'
            % (cfg['pc'], lst(map(str, cfg['ap'])), lst(map(str, cfg['ip'])), lst(map(str, cfg['wp'])),
               lst(toks), alpha_fields(m, slots))), slots


def parse_answer(ans):
    """`k=v k=v ...` -> dict"""
    out = {}
    for tok in ans.split(' '):
        if '=' in tok:
            k, v = tok.split('=', 1)
            out[k] = v
    return out


# ------------------------------------------------------------------ wiring of quantizer objects

def real_wire(m, slots_model):
    real = mps_slots(m)
    first_out, first_w = {}, {}
    for (tag, mi_, _), (rtag, name, mod, node) in zip(slots_model, real):
        first_out.setdefault(id(mod.out_mps_quantizer), mi_)
        if tag == 'L':
            first_w.setdefault(id(mod.w_mps_quantizer), mi_)
    items = []
    for (tag, mi_, _), (rtag, name, mod, node) in zip(slots_model, real):
        qi = mod.in_mps_quantizer
        if id(qi) in first_out:
            nin = 'o%d' % first_out[id(qi)]
        elif [int(v) for v in qi.precision.tolist()] == [-1]:
            nin = 'd'
        else:
            nin = '?'
        nout = 'o%d' % first_out[id(mod.out_mps_quantizer)]
        nw = 'w%d' % first_w[id(mod.w_mps_quantizer)] if tag == 'L' else '-'
        items.append('%d:%s:%s:%s:%s' % (mi_, tag, nin, nout, nw))
    return lst(items)


# ------------------------------------------------------------------ selection

def _idx_in(qobj, qtz):
    for k, f in enumerate(qobj.qtz_funcs):
        if f is qtz:
            return k
    return None


def plan_from_summary(m, slots_model):
    """(in, w, out) bits from `summary()`, candidate indices from arg-max of the raw coefficients"""
    import torch
    summ = m.summary()
    items = []
    for (tag, mi_, _), (rtag, name, mod, node) in zip(slots_model, mps_slots(m)):
        s = summ[name]
        oi = int(torch.argmax(mod.out_mps_quantizer.alpha))
        if tag == 'L':
            ii = int(torch.argmax(mod.in_mps_quantizer.alpha))
            wq = mod.w_mps_quantizer
            if wq.alpha.dim() == 1:
                items.append('%d:%d:%d:%d:%d:%d:%d' % (mi_, s['in_precision'], s['w_precision'], s['out_precision'],
                                                       ii, int(torch.argmax(wq.alpha)), oi))
            else:
                items.append('%d:%d:%s:%d:%d:-:%d' % (mi_, s['in_precision'], lst(map(str, s['w_precision'])),
                                                      s['out_precision'], ii, oi))
        else:
            items.append('%d:-:-:%d:-:-:%d' % (mi_, s['out_precision'], oi))
    return lst(items)


def plan_from_theta(m, slots_model):
    """bits and indices from the *sampled* coefficients the last forward left in the quantizers
    ('soft' if they are not one-hot)"""
    def hot(t):
        v = t.detach().tolist()
        if sorted(v) != [0.0] * (len(v) - 1) + [1.0]:
            return None
        return v.index(1.0)
    items = []
    for (tag, mi_, _), (rtag, name, mod, node) in zip(slots_model, mps_slots(m)):
        qo = mod.out_mps_quantizer
        oi = hot(qo.theta_alpha)
        ob = 'soft' if oi is None else str(int(qo.precision[oi]))
        if tag == 'L':
            qi, qw = mod.in_mps_quantizer, mod.w_mps_quantizer
            ii = hot(qi.theta_alpha)
            ib = 'soft' if ii is None else str(int(qi.precision[ii]))
            if qw.theta_alpha.dim() == 1:
                wi = hot(qw.theta_alpha)
                wb = 'soft' if wi is None else str(int(qw.precision[wi]))
                items.append('%d:%s:%s:%s:%s:%s:%s' % (mi_, ib, wb, ob, ii, wi, oi))
            else:
                cols = [hot(qw.theta_alpha[:, c]) for c in range(qw.theta_alpha.shape[1])]
                wb = lst(['soft' if c is None else str(int(qw.precision[c])) for c in cols])
                items.append('%d:%s:%s:%s:%s:-:%s' % (mi_, ib, wb, ob, ii, oi))
        else:
            items.append('%d:-:-:%s:-:-:%s' % (mi_, ob, oi))
    return lst(items)


def plan_from_export(m, e, slots_model):
    """bits from the precision attributes of the exported Quant* layers; indices by identity (`is`) of
    the exported quantizer objects inside the MPS quantizers ('new' if the object is not shared)"""
    items = []
    for (tag, mi_, _), (rtag, name, mod, node) in zip(slots_model, mps_slots(m)):
        x = e.get_submodule(name)
        oi = _idx_in(mod.out_mps_quantizer, x.out_quantizer)
        ob = int(x.out_quantizer.precision)
        if tag == 'L':
            ii = _idx_in(mod.in_mps_quantizer, x.in_quantizer)
            wi = _idx_in(mod.w_mps_quantizer, x.w_quantizer)
            items.append('%d:%d:%d:%d:%s:%s:%s' % (mi_, int(x.in_quantizer.precision), int(x.w_quantizer.precision), ob,
                                                   'new' if ii is None else ii, 'new' if wi is None else wi,
                                                   'new' if oi is None else oi))
        else:
            items.append('%d:-:-:%d:-:-:%s' % (mi_, ob, 'new' if oi is None else oi))
    return lst(items)
