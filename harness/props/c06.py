"""C06 — SuperNet cost is the coefficient-weighted mix of branch costs.

proof leg            lean/PlinioVerif/Props/C06.lean (cost_is_mix, mix_between_min_max for any probability
                     vector over any ordered field, cost between the cheapest and the most expensive
                     selection, hard_cost_eq_export_cost under "all call sites same shape" with the
                     negation on a witness, call-site multiplicity)
correspondence leg   fx graph of the real SuperNet + unit cost of every leaf at its own call site + the
                     exact rationals of the float32 coefficients the combiners hold -> `Drivers/C06.lean`;
                     its mix / cheapest / most expensive / hard / fixed / exported cost are compared
                     with the real `get_cost` (exactly when the coefficients are one-hot, inside a relative
                     1e-5 band otherwise - counted under `soft-mix-within-band`).
oracle leg           the statement on the real code: cost between the real costs of the cheapest and the
                     most expensive selection; under hard selection = the metric computed from scratch on
                     the exported network (cost-spec look-up over its leaf modules with their traced
                     shapes, and `PIT(exported).cost` where PIT accepts the network).
"""
import itertools
import json
import random
from fractions import Fraction

from . import sn_common as S
from .. import common

K8_KEY = 'C06:twice:diff-shape:per-invocation'
TWICE_INSIDE_KEY = 'C06:layer-twice-inside-branch:per-invocation'
BAND = Fraction(1, 100000)


# ----------------------------------------------------------------------------- metrics
def _metrics():
    """params (shared) and ops (per invocation) of plinio.cost, plus the two crossed variants
    (params charged per invocation, ops charged once) to separate `shared` from shape dependence."""
    from plinio.cost import CostSpec, params, ops, gap8_latency

    def clone(spec, shared):
        cs = CostSpec(shared=shared, default_behavior='zero')
        for pat, lst in spec.data.items():
            for constr, fn in lst:
                cs[(pat, constr)] = fn
        return cs
    return {'params': params, 'ops': ops, 'params_pi': clone(params, False), 'ops_sh': clone(ops, True),
            'gap8': gap8_latency}


METRIC_NAMES = ['params', 'ops', 'params_pi', 'ops_sh', 'gap8']
SHARED = {'params': True, 'ops': False, 'params_pi': False, 'ops_sh': True, 'gap8': True}


def _unit(spec_obj, layer, shape):
    """Cost-spec look-up for one leaf module at one output shape (exact)."""
    v = dict(vars(layer))
    v['output_shape'] = shape
    fn = spec_obj[(type(layer), v)]
    r = fn(v)
    f = Fraction(float(r))
    return f


def _scratch_cost(gm, spec_obj, shared, only_fixed=False, shape_override=None):
    """The metric computed from scratch on a plain fx GraphModule: every leaf module, once per
    name (shared) or once per call site, at its traced output shape."""
    seen, tot = set(), Fraction(0)
    for n in gm.graph.nodes:
        if n.op != 'call_module':
            continue
        if shared and n.target in seen:
            continue
        seen.add(n.target)
        if only_fixed and 'sn_branches' in n.target:
            continue
        shape = n.meta['tensor_meta'].shape
        if shape_override is not None and n.target in shape_override:
            shape = shape_override[n.target]
        tot += _unit(spec_obj, gm.get_submodule(n.target), shape)
    return tot


def _q(f):
    f = Fraction(f)
    return str(f.numerator) if f.denominator == 1 else '%d/%d' % (f.numerator, f.denominator)


# ----------------------------------------------------------------------------- cases
def _corpus_specs():
    out = []
    # the K8 witness of DESIGN section 6: conv3x3 block used at two resolutions
    out.append({'C': 4, 'hw': 8, 'wseed': 21, 'fixed_twice': False, 'blocks': [
        {'br': ['conv3', 'conv1'], 'use': 'twice-pool', 'gumbel': False, 'hard_ctor': False, 'post': 'none'}]})
    # a depthwise convolution FIRST in graph order, regular convolutions of the same class after it (stem,
    # branches, fixed layers): a cost function chosen per layer TYPE instead of per layer shows here
    out.append({'C': 4, 'hw': 8, 'wseed': 26, 'fixed_twice': True, 'dw_stem': True, 'blocks': [
        {'br': ['dwsep', 'conv3', 'id', 'dw3'], 'use': 'once', 'gumbel': False, 'hard_ctor': False, 'post': 'conv'}]})
    out.append({'C': 3, 'hw': 4, 'wseed': 27, 'fixed_twice': False, 'dw_stem': True, 'blocks': [
        {'br': ['conv5', 'dwsep', 'ub'], 'use': 'twice', 'gumbel': True, 'hard_ctor': False, 'post': 'relu'},
        {'br': ['dw3', 'seq'], 'use': 'once', 'gumbel': False, 'hard_ctor': True, 'post': 'none'}]})
    # a user block that invokes one of its layers twice
    out.append({'C': 4, 'hw': 8, 'wseed': 25, 'fixed_twice': False, 'blocks': [
        {'br': ['ub2x', 'id', 'conv1'], 'use': 'once', 'gumbel': False, 'hard_ctor': False, 'post': 'none'}]})
    # same block, same resolution twice: must hold
    out.append({'C': 4, 'hw': 8, 'wseed': 22, 'fixed_twice': True, 'blocks': [
        {'br': ['conv3', 'conv1', 'id'], 'use': 'twice', 'gumbel': False, 'hard_ctor': False, 'post': 'relu'}]})
    out.append({'C': 3, 'hw': 4, 'wseed': 23, 'fixed_twice': True, 'blocks': [
        {'br': ['seq', 'ubf', 'dwsep', 'pool'], 'use': 'twice', 'gumbel': True, 'hard_ctor': False, 'post': 'conv'},
        {'br': ['ub', 'id', 'uba', 'conv5'], 'use': 'once', 'gumbel': True, 'hard_ctor': True, 'post': 'none'},
        {'br': ['ubn', 'conv3nb', 'ubr', 'dw3'], 'use': 'twice', 'gumbel': False, 'hard_ctor': False, 'post': 'relu'}]})
    out.append({'C': 2, 'hw': 4, 'wseed': 24, 'fixed_twice': False, 'blocks': [
        {'br': ['conv3', 'conv1', 'id', 'seq', 'ub', 'ubf', 'uba', 'dwsep', 'pool', 'ubr', 'conv5', 'dw3'],
         'use': 'twice', 'gumbel': False, 'hard_ctor': False, 'post': 'relu'}]})
    return out


def _alpha_random(rng, n, T):
    """Any coefficients, with a unique arg-max (gap >= 0.05*max(1,T))."""
    for _ in range(100):
        style = rng.randrange(3)
        if style == 0:
            a = [rng.gauss(0, 1) for _ in range(n)]
        elif style == 1:
            a = [rng.uniform(-5, 5) for _ in range(n)]
        else:
            a = [1.0 / n + rng.uniform(-0.05, 0.05) for _ in range(n)]
        s = sorted(a)
        if n == 1 or s[-1] - s[-2] >= 0.06 * max(1.0, T):
            return a
    a = [0.0] * n
    a[rng.randrange(n)] = 1.0 + T
    return a


def _items(rng, n_random, n_combos, n_soft):
    items = []
    for spec in _corpus_specs() + [S.random_spec(rng, exclude=S.IMPURE_INSIDE | S.SIDE_USER_INSIDE | {'stmt'}) for _ in range(n_random)]:
        sizes = [len(b['br']) for b in spec['blocks']]
        total = 1
        for s in sizes:
            total *= s
        if total <= 64:
            combos, exhaustive = [list(w) for w in itertools.product(*[range(s) for s in sizes])], True
            if len(combos) > n_combos:          # all of them are used for min / max, a sample is exported
                export_idx = sorted(rng.sample(range(len(combos)), n_combos))
            else:
                export_idx = list(range(len(combos)))
        else:
            combos = [[rng.randrange(s) for s in sizes] for _ in range(n_combos)]
            exhaustive, export_idx = False, list(range(n_combos))
        soft = []
        for _ in range(n_soft):
            T = rng.choice([1.0, 1.0, 0.05, 0.3, 3.0, 20.0])
            soft.append({'T': T, 'train': rng.random() < 0.5,
                         'hard': None if not soft and rng.random() < 0.5 else rng.random() < 0.35,
                         'alphas': [_alpha_random(rng, s, T) for s in sizes], 'tseed': rng.randrange(1 << 30)})
        items.append({'spec': spec, 'combos': combos, 'export_idx': export_idx, 'exhaustive': exhaustive,
                      'soft': soft, 'full': [True, False] if rng.random() < 0.6 else [rng.random() < 0.7],
                      'aseed': rng.randrange(1 << 30)})
    return items


# ----------------------------------------------------------------------------- one network
def _branch_tables(sn, units):
    """Python reference, independent of plinio's link_combiners_to_branches and of the Lean model:
    per block and branch, the unit costs of its leaves at the FIRST call site / at EVERY call site."""
    first, sites = {}, {}
    seen = set()
    for i, n in enumerate(sn.seed.graph.nodes):
        if n.op != 'call_module' or '.sn_branches.' not in n.target:
            continue
        parent, rest = n.target.split('.sn_branches.', 1)
        b = int(rest.split('.')[0])
        sites.setdefault((parent, b), []).append(i)
        if n.target not in seen:
            seen.add(n.target)
            first.setdefault((parent, b), []).append(i)
    return first, sites


def _work(item):
    common.use_repo_on_path()
    import torch
    torch.set_num_threads(1)
    from plinio.methods import SuperNet
    from plinio.methods.supernet.nn.combiner import SuperNetCombiner
    spec = item['spec']
    metrics = _metrics()
    out = {'spec': spec, 'recs': [], 'ctor_err': None, 'rewrap': None, 'pit': [0, 0, 0]}
    rng = random.Random(item['aseed'])
    for full in item['full']:
        try:
            net = S.build_net(spec)
            sn = SuperNet(net, input_shape=S.input_shape(spec), cost=dict(metrics), full_cost=full)
        except Exception as ex:                                 # noqa: BLE001
            out['ctor_err'] = '%s: %s' % (type(ex).__name__, str(ex)[:200])
            return out
        combs = S.combiners(sn)
        nodes = list(sn.seed.graph.nodes)
        toks = S.graph_tokens(sn.seed, SuperNetCombiner)
        node_line = 'nodes=[%s]' % ','.join(toks)
        units = {}
        for m in METRIC_NAMES:
            u = []
            for n in nodes:
                if n.op == 'call_module' and not isinstance(sn.seed.get_submodule(n.target), SuperNetCombiner):
                    u.append(_unit(metrics[m], sn.seed.get_submodule(n.target), n.meta['tensor_meta'].shape))
                else:
                    u.append(Fraction(0))
            units[m] = u
        first, _sites = _branch_tables(sn, units)
        first_shape = {}
        for n in nodes:
            if n.op == 'call_module' and 'sn_branches' in n.target and n.target not in first_shape:
                first_shape[n.target] = n.meta['tensor_meta'].shape
        x = torch.randn((2,) + S.input_shape(spec), generator=torch.Generator().manual_seed(item['aseed']))

        def sample(alphas, hard, T, train, tseed):
            S.set_alpha(sn, alphas)
            sn.update_softmax_options(temperature=T, hard=hard)
            if hard is not None:
                hard_now[:] = [bool(hard)] * len(hard_now)
            (sn.train if train else sn.eval)()
            torch.manual_seed(tseed)
            with torch.no_grad():
                sn(x)
            thetas = [[float(v) for v in c.theta_alpha.detach().tolist()] for _, c in combs]
            costs = {m: Fraction(float(sn.get_cost(m))) for m in METRIC_NAMES}
            return thetas, costs

        def line(m, alphas, thetas):
            af = '[' + ','.join('%s|%s' % (name, '|'.join(S.frac(v) for v in a))
                                for (name, _), a in zip(combs, alphas)) + ']'
            tf = '[' + ','.join('%s|%s' % (name, '|'.join(S.frac(v) for v in t))
                                for (name, _), t in zip(combs, thetas)) + ']'
            return 'cost shared=%d full=%d alpha=%s theta=%s u=[%s] %s' % (
                SHARED[m], full, af, tf, ','.join(_q(v) for v in units[m]), node_line)

        comb_index = {name: k for k, (name, _) in enumerate(combs)}

        # every invocation of a branch leaf, by call site of its block (sites are delimited by the
        # combiner nodes, in trace order)
        per_site, site_now = {}, {}
        for i, n in enumerate(nodes):
            if n.op != 'call_module':
                continue
            if n.target in comb_index:
                par = n.target.rsplit('.', 1)[0]
                site_now[par] = site_now.get(par, 0) + 1
            elif '.sn_branches.' in n.target:
                par, rest = n.target.split('.sn_branches.', 1)
                per_site.setdefault((par, site_now.get(par, 0), int(rest.split('.')[0])), []).append(i)

        def ref_mix(m, thetas, by_site=False):
            """Python reference of the mix, independent of plinio's aggregation and of the Lean model.
            by_site=False: what the code is known to do (every call site of a block charged the unique leaves
            of the branch at the shape of the FIRST call site - K8); by_site=True: the statement's reading for
            per-invocation metrics (every invocation of a leaf, at the shape of its own call site)."""
            tot, seen, k_site = Fraction(0), set(), {}
            for i, n in enumerate(nodes):
                if n.op != 'call_module' or (SHARED[m] and n.target in seen):
                    continue
                seen.add(n.target)
                if n.target in comb_index:
                    parent = n.target.rsplit('.', 1)[0]
                    k = k_site.get(parent, 0)
                    k_site[parent] = k + 1
                    for j, t in enumerate(thetas[comb_index[n.target]]):
                        leaves = per_site.get((parent, k, j), []) if by_site and not SHARED[m] \
                            else first.get((parent, j), [])
                        tot += Fraction(t) * sum((units[m][q] for q in leaves), Fraction(0))
                elif 'sn_branches' not in n.target and full:
                    tot += units[m][i]
            return tot

        hard_now = [bool(b.get('hard_ctor')) for b in spec['blocks']]

        def f32(alphas):
            return [[float(torch.tensor(v, dtype=torch.float32)) for v in a] for a in alphas]

        # ---- reference extreme selections (per metric) and their REAL costs
        ext = {}
        for m in METRIC_NAMES:
            lo_sel, hi_sel = [], []
            for (cname, c) in combs:
                parent = cname.rsplit('.', 1)[0]
                bc = [sum((units[m][i] for i in first.get((parent, b), [])), Fraction(0))
                      for b in range(c.n_branches)]
                lo_sel.append(min(range(len(bc)), key=lambda j: (bc[j], j)))
                hi_sel.append(min(range(len(bc)), key=lambda j: (-bc[j], j)))
            ext[m] = (lo_sel, hi_sel)
        # the same with every invocation counted at its own shape (reading of the statement)
        ext_true = {}
        for m in METRIC_NAMES:
            lo_sel, hi_sel = [], []
            for (cname, c) in combs:
                parent = cname.rsplit('.', 1)[0]
                bc = [sum((units[m][i] for i in (first if SHARED[m] else _sites).get((parent, b), [])), Fraction(0))
                      for b in range(c.n_branches)]
                lo_sel.append(min(range(len(bc)), key=lambda j: (bc[j], j)))
                hi_sel.append(min(range(len(bc)), key=lambda j: (-bc[j], j)))
            ext_true[m] = (lo_sel, hi_sel)
        real_at = {}

        def hard_cost_at(sel):
            key = tuple(sel)
            if key not in real_at:
                alphas = [[1.0 if j == w else 0.0 for j in range(c.n_branches)] for (_, c), w in zip(combs, sel)]
                real_at[key] = sample(alphas, True, 1.0, False, 0)[1]
            return real_at[key]

        bounds = {m: (hard_cost_at(ext[m][0])[m], hard_cost_at(ext[m][1])[m]) for m in METRIC_NAMES}
        bounds_oracle = {m: (min(bounds[m][0], hard_cost_at(ext_true[m][0])[m]),
                             max(bounds[m][1], hard_cost_at(ext_true[m][1])[m])) for m in METRIC_NAMES}
        # exhaustive nets: the true min / max over every selection, on the real implementation
        true_bounds = None
        if item['exhaustive']:
            allc = [hard_cost_at(w) for w in item['combos']]
            true_bounds = {m: (min(c[m] for c in allc), max(c[m] for c in allc)) for m in METRIC_NAMES}

        # ---- soft / Gumbel / hard sampling configurations: cost = mix of what the combiners hold
        for cfg in item['soft']:
            alphas = f32(cfg['alphas'])
            thetas, costs = sample(alphas, cfg['hard'], cfg['T'], cfg['train'], cfg['tseed'])
            gumbel_active = cfg['train'] and any(b.get('gumbel') for b in spec['blocks'])
            # reference sampler (float64): softmax(alpha/T), one-hot at its arg-max when hard
            ref_ok = None
            if not gumbel_active:
                ref_ok = True
                for a, t, hb in zip(alphas, thetas, list(hard_now)):
                    z = torch.softmax(torch.tensor(a, dtype=torch.float64) / cfg['T'], dim=0)
                    if hb:
                        z = torch.nn.functional.one_hot(torch.argmax(z), len(a)).to(torch.float64)
                    if not torch.allclose(z, torch.tensor(t, dtype=torch.float64), atol=2e-6, rtol=1e-5):
                        ref_ok = False
            for m in METRIC_NAMES:
                out['recs'].append({'kind': 'soft', 'full': full, 'metric': m, 'cfg': cfg, 'alphas': alphas,
                                    'thetas': thetas, 'cost': costs[m], 'bounds': bounds[m],
                                    'bounds_oracle': bounds_oracle[m],
                                    'ref_mix_by_site': ref_mix(m, thetas, by_site=True),
                                    'true_bounds': true_bounds[m] if true_bounds else None,
                                    'gumbel_active': gumbel_active, 'ref_sampler_ok': ref_ok,
                                    'ref_mix': ref_mix(m, thetas), 'hard_flags': list(hard_now),
                                    'line': line(m, alphas, thetas)})
        # ---- hard selection at every winner combination: cost = metric of the exported network
        for ci in item['export_idx']:
            w = item['combos'][ci]
            alphas = f32([S.argmax_alpha(rng, c.n_branches, wi) for (_, c), wi in zip(combs, w)])
            thetas, costs = sample(alphas, True, 1.0, False, 0)
            try:
                e = sn.export()
            except Exception as ex:                             # noqa: BLE001
                out['recs'].append({'kind': 'hard', 'full': full, 'metric': 'params', 'winners': w,
                                    'alphas': alphas, 'thetas': thetas, 'export_err': '%s: %s' % (
                                        type(ex).__name__, str(ex)[:120]), 'line': line('params', alphas, thetas),
                                    'cost': costs['params']})
                continue
            pit_costs = {}
            if ci == item['export_idx'][0] and full:
                from plinio.methods import PIT
                for m in ('params', 'ops'):
                    out['pit'][0] += 1
                    try:
                        pit_costs[m] = Fraction(float(PIT(e, input_shape=S.input_shape(spec), cost=metrics[m],
                                                          full_cost=True).cost))
                        out['pit'][1] += 1
                    except Exception:                           # noqa: BLE001 - PIT does not accept every network
                        out['pit'][2] += 1
                if out['rewrap'] is None:
                    try:
                        SuperNet(e, input_shape=S.input_shape(spec), cost=metrics['params'], full_cost=True)
                        out['rewrap'] = 'ok'
                    except Exception as ex:                     # noqa: BLE001
                        out['rewrap'] = '%s: %s' % (type(ex).__name__, str(ex)[:80])
            for m in METRIC_NAMES:
                scratch = _scratch_cost(e, metrics[m], SHARED[m])
                fixed = _scratch_cost(e, metrics[m], SHARED[m], only_fixed=True)
                # what the exported network would cost if every leaf were charged the shape of its
                # FIRST call site in the SuperNet (the K8 mechanism), to classify a mismatch
                k8 = _scratch_cost(e, metrics[m], SHARED[m], shape_override=first_shape)
                out['recs'].append({'kind': 'hard', 'full': full, 'metric': m, 'winners': w, 'alphas': alphas,
                                    'thetas': thetas, 'cost': costs[m], 'scratch': scratch, 'fixed': fixed,
                                    'k8_value': k8, 'pit': pit_costs.get(m), 'line': line(m, alphas, thetas)})
    return out


# ----------------------------------------------------------------------------- verdicts
def _parse(ans):
    d = {}
    for t in ans.split(' '):
        if '=' in t:
            k, v = t.split('=', 1)
            d[k] = v
    return d


def _fr(s):
    return Fraction(s) if s not in (None, 'err') else None


def _in_band(real, exact):
    return abs(real - exact) <= BAND * max(abs(exact), 1)


def case_soft(rec):
    return rec['kind'] == 'soft'


def _case(spec, rec):
    c = {'kind': rec['kind'], 'spec': spec, 'full': rec['full'], 'metric': rec['metric'],
         'alphas': rec['alphas']}
    if rec['kind'] == 'soft':
        c['cfg'] = {k: rec['cfg'][k] for k in ('T', 'train', 'hard', 'tseed')}
    else:
        c['winners'] = rec['winners']
    return c


def _judge(spec, rec, model):
    """(correspondence pairs, violations) of one record; `model` = parsed driver answer or None."""
    corr, viol = [], []
    m = rec['metric']
    cost = rec['cost']
    if rec['kind'] == 'soft':
        onehot = all(v in (0.0, 1.0) for t in rec['thetas'] for v in t)
        # exact mix from the coefficients the combiners hold, computed here as well (independent of Lean)
        mix = rec['ref_mix']
        if model is not None:
            corr.append(('exact mix: Python reference = Lean model', _q(mix), model['mix']))
            if onehot:
                corr.append(('cost (one-hot coefficients) = model mix, exact', _q(cost), model['mix']))
            else:
                corr.append(('soft cost within 1e-5 of the exact mix of the held coefficients',
                             'in-band' if _in_band(cost, _fr(model['mix'])) else 'real=%s' % float(cost), 'in-band'))
            corr.append(('cost of the cheapest selection', _q(rec['bounds'][0]), model['lo']))
            corr.append(('cost of the most expensive selection', _q(rec['bounds'][1]), model['hi']))
            if rec['ref_sampler_ok'] is not None:
                corr.append(('held coefficients = softmax(alpha/T) (one-hot of it when hard)',
                             'ok' if rec['ref_sampler_ok'] else 'differs', 'ok'))
        def matches(ref):
            return cost == ref if onehot else _in_band(cost, ref)

        if not matches(rec['ref_mix_by_site']):
            kinds = {k for b in spec['blocks'] for k in b['br']}
            if not SHARED[m] and matches(mix) and any(b['use'] == 'twice-pool' for b in spec['blocks']):
                viol.append((K8_KEY, 'a block invoked twice at different resolutions is charged the first call '
                             'site\'s output shape both times: get_cost(%s)=%s, mix with every call site at its '
                             'own shape %s' % (m, float(cost), float(rec['ref_mix_by_site']))))
            elif not SHARED[m] and matches(mix) and kinds & S.LAYER_TWICE_INSIDE:
                viol.append((TWICE_INSIDE_KEY, 'a layer invoked twice inside a branch is charged once by a '
                             'per-invocation metric (the combiner holds uniquified leaves): get_cost(%s)=%s, mix '
                             'with every invocation counted %s' % (m, float(cost), float(rec['ref_mix_by_site']))))
            else:
                viol.append(('C06:cost-is-not-the-mix-of-held-coefficients:%s'
                             % ('shared' if SHARED[m] else 'per-invocation'),
                             'get_cost(%s)=%s but the mix of the coefficients the combiners hold is %s'
                             % (m, float(cost), float(rec['ref_mix_by_site']))))
        lo, hi = rec['bounds_oracle']
        if rec['true_bounds'] is not None:
            lo, hi = rec['true_bounds']
        tol = BAND * max(abs(hi), 1)
        if not (lo - tol <= cost <= hi + tol):
            viol.append(('C06:cost-outside-cheapest-most-expensive',
                         'get_cost(%s)=%s is outside [%s, %s], the real costs of the cheapest and the most '
                         'expensive selection' % (m, float(cost), float(lo), float(hi))))
    else:
        if 'export_err' in rec:
            viol.append(('C06:export-raises', 'export() raises under hard selection: ' + rec['export_err']))
            return corr, viol
        want = rec['scratch'] if rec['full'] else rec['scratch'] - rec['fixed']
        if model is not None:
            corr.append(('hard cost = model, exact', _q(cost), model['hard']))
            corr.append(('metric from scratch on the exported network = model, exact', _q(rec['scratch']), model['export']))
            corr.append(('fixed-layer part = model, exact', _q(rec['fixed']), model['fixed']))
        if rec.get('pit') is not None and rec['pit'] != rec['scratch']:
            viol.append(('C06:scratch-metric-differs-from-PIT',
                         'metric %s from scratch on the exported network %s != PIT(exported).cost %s'
                         % (m, float(rec['scratch']), float(rec['pit']))))
        if cost != want:
            k8_want = rec['k8_value'] if rec['full'] else rec['k8_value'] - rec['fixed']
            twice_pool = any(b['use'] == 'twice-pool' for b in spec['blocks'])
            if twice_pool and not SHARED[m] and cost == k8_want:
                viol.append((K8_KEY, 'a block invoked twice at different resolutions is charged the first call '
                             'site\'s output shape both times: get_cost(%s)=%s, exported network %s'
                             % (m, float(cost), float(want))))
            elif not SHARED[m] and any(b['br'][w] in S.LAYER_TWICE_INSIDE
                                       for b, w in zip(spec['blocks'], rec['winners'])):
                viol.append((TWICE_INSIDE_KEY, 'a layer invoked twice inside the winning branch is charged once by a '
                             'per-invocation metric (the combiner holds uniquified leaves): get_cost(%s)=%s, exported '
                             'network %s' % (m, float(cost), float(want))))
            else:
                viol.append(('C06:hard-cost-differs-from-exported-network:%s' % ('shared' if SHARED[m] else 'per-invocation'),
                             'hard selection: get_cost(%s)=%s (full_cost=%s) but the exported network costs %s'
                             % (m, float(cost), rec['full'], float(want))))
    return corr, viol


def run(chk):
    chk.rule = ('the SuperNets of C03 (1..3 blocks x 2..12 branches of 16 kinds, used once / twice / twice at '
                'another resolution, softmax or Gumbel sampler) x full_cost on/off x metrics {params (shared), ops '
                '(per invocation), params charged per invocation, ops charged once, gap8_latency}; a third of the '
                'networks start with a DEPTHWISE convolution, so that depthwise precedes regular convolutions of the '
                'same class in graph order (the other order is always present: regular stem, dw3 / dwsep branches); (a) sampling configurations: '
                'random alpha of three styles, T in {0.05,0.3,1,3,20}, train/eval, hard on/off -> cost vs exact mix of '
                'the float32 theta the combiners hold, vs real cost of the cheapest/most expensive selection (true '
                'min/max over all selections when <= 64); (b) hard selection at every winner combination (all when '
                '<= 64 and affordable, else sampled) -> cost vs metric from scratch on export(). non-trivial = '
                'soft: theta not one-hot; hard: winners not all 0. distinct = (network, full_cost, metric, config)')
    chk.trusted.append('the unit cost of a leaf at a given output shape is obtained from the CostSpec under test '
                       '(C15/C16 cover it); float32 accumulation of the soft mix (compared inside a 1e-5 band)')
    chk.prove()
    n_random, n_combos, n_soft = (60, 8, 3) if chk.quick else (800, 24, 6)
    items = _items(chk.rng, n_random, n_combos, n_soft)
    results = common.pmap(_work, items)
    lines, flat = [], []
    first_fail = {}
    pit = [0, 0, 0]
    for item, res in zip(items, results):
        if res['ctor_err']:
            chk.violation('C06:constructor-raises', 'SuperNet() raises on a generated network: ' + res['ctor_err'],
                          {'kind': 'ctor', 'spec': item['spec']})
            continue
        for k in range(3):
            pit[k] += res['pit'][k]
        if res['rewrap'] and res['rewrap'] != 'ok':
            chk.observe('SuperNet(exported_network) cannot be constructed (%s): the exported network keeps '
                        '...sn_branches.i names; "the same metric on the exported network" is therefore computed '
                        'from scratch by the harness' % res['rewrap'])
        for rec in res['recs']:
            lines.append(rec['line'])
            flat.append((item, rec))
    model = S.driver_parallel(chk, 'C06', lines)
    for (item, rec), ans in zip(flat, model):
        spec = item['spec']
        case = _case(spec, rec)
        md = _parse(ans)
        corr, viol = _judge(spec, rec, md if 'mix' in md else None)
        if 'mix' not in md:
            chk.corr(case, 'answer', ans[:80], 'driver answered')
        elif md.get('selok') != '1' or md.get('names') != '1':
            chk.corr(case, 'selok=1 names=1', 'selok=%s names=%s' % (md.get('selok'), md.get('names')),
                     'hypotheses SelectionOk / NamesSane of the C06 theorems hold on the traced graph')
        elif rec['kind'] == 'hard':
            applies = SHARED[rec['metric']] or md.get('sites') == '1'
            key = 'hard:theorem-hypotheses-hold' if applies else 'hard:SitesSane-fails(call sites differ)'
            chk.hist[key] = chk.hist.get(key, 0) + 1
            if applies and md.get('export') != 'err':
                lhs = _fr(md['hard']) + (Fraction(0) if rec['full'] else _fr(md['fixed']))
                chk.corr(case, _q(lhs), md['export'],
                         'model instance of hard_cost_eq_export_cost: hard (+ fixed part) = exported cost')
        for what, real, mod in corr:
            chk.corr(case, real, mod, what)
            if real == 'in-band' and mod == 'in-band':
                chk.hist['soft-mix-within-band'] = chk.hist.get('soft-mix-within-band', 0) + 1
        m = rec['metric']
        if rec['kind'] == 'soft':
            nontriv = not all(v in (0.0, 1.0) for t in rec['thetas'] for v in t)
            cid = (json.dumps(spec, sort_keys=True), rec['full'], m, json.dumps(rec['cfg'], sort_keys=True))
            bucket = 'soft:%s%s%s' % ('train' if rec['cfg']['train'] else 'eval',
                                      '/hard' if rec['cfg']['hard'] else '',
                                      '/gumbel-noise' if rec['gumbel_active'] else '')
        else:
            nontriv = any(w != 0 for w in rec['winners'])
            cid = (json.dumps(spec, sort_keys=True), rec['full'], m, tuple(rec['winners']))
            bucket = 'hard-vs-export'
            if md.get('sameu') == '0' and not SHARED[m]:
                chk.hist['hard:call-sites-differ-in-unit-cost'] = chk.hist.get('hard:call-sites-differ-in-unit-cost', 0) + 1
        chk.count(cid, nontrivial=nontriv, bucket=bucket,
                  sample={'spec': spec, 'metric': m, 'full_cost': rec['full'], 'kind': rec['kind'],
                          'cost': float(rec['cost'])})
        for key in ('metric:' + m, 'full_cost=%s' % rec['full'],
                    'use:' + '+'.join(sorted({b['use'] for b in spec['blocks']}))):
            chk.hist[key] = chk.hist.get(key, 0) + 1
        for key, text in viol:
            if key not in first_fail:
                first_fail[key] = (dict(case, observed=text), text)
    _probe_observations(chk)
    chk.extra['pit_cross_check'] = {'attempted': pit[0], 'accepted_by_PIT': pit[1], 'rejected_by_PIT': pit[2]}
    broken = bool(chk.proof_broken or chk.corr_disagreements)
    if broken and not [k for k in first_fail if k != K8_KEY]:
        extra = _items(random.Random(chk.seed + 104729), n_random * 5, n_combos, n_soft)
        for item, res in zip(extra, common.pmap(_work, extra)):
            if res['ctor_err']:
                continue
            for rec in res['recs']:
                chk.count((json.dumps(item['spec'], sort_keys=True), rec['full'], rec['metric'], 'esc',
                           json.dumps(rec.get('cfg', rec.get('winners')), sort_keys=True)), bucket='escalated')
                rec2 = dict(rec)
                _, viol = _judge(item['spec'], rec2, None)
                # without the model the mix is recomputed here from the held coefficients (Python reference)
                for key, text in viol:
                    if key not in first_fail:
                        first_fail[key] = (dict(_case(item['spec'], rec), observed=text), text)
    for key, (case, text) in sorted(first_fail.items()):
        chk.violation(key, text, case)


def _probe_observations(chk):
    """Behaviour next to the property's quantifier, recorded as observations only."""
    common.use_repo_on_path()
    import torch
    import torch.nn as nn
    import torch.nn.functional as F
    from plinio.methods import SuperNet
    from plinio.methods.supernet import SuperNetModule
    from plinio.cost import params

    def net(branches, dead_aux=False):
        class Net(nn.Module):
            def __init__(s):
                super().__init__()
                s.c0 = nn.Conv2d(3, 4, 3, padding=1)
                s.aux = nn.Conv2d(4, 4, 1) if dead_aux else None
                s.blk0 = SuperNetModule(branches())

            def forward(s, x):
                x = F.relu(s.c0(x))
                if s.aux is not None:
                    _ = s.aux(x)
                return s.blk0(x)
        return Net()

    def hard_vs_export(model, alpha):
        sn = SuperNet(model, input_shape=(3, 8, 8), cost=params, full_cost=True)
        S.set_alpha(sn, [alpha])
        sn.update_softmax_options(hard=True)
        sn.eval()
        with torch.no_grad():
            sn(torch.zeros(1, 3, 8, 8))
        return Fraction(float(sn.cost)), _scratch_cost(sn.export(), params, True)

    def shared_branches():
        sh = nn.Conv2d(4, 4, 1)
        return [sh, nn.Sequential(sh, nn.Conv2d(4, 4, 3, padding=1))]

    try:
        torch.manual_seed(0)
        real, want = hard_vs_export(net(shared_branches), [0.0, 1.0])
        if real != want:
            chk.observe('one layer OBJECT placed in two branches of a block is charged to one branch only (params %s '
                        'vs %s on the exported network): fx gives a shared object a single qualified name '
                        '(...sn_branches.0), and branch membership is read off the name; weight sharing between '
                        'branches is outside C06\'s network family, not generated' % (float(real), float(want)))
        real, want = hard_vs_export(net(lambda: [nn.Conv2d(4, 4, 3, padding=1), nn.Identity()], dead_aux=True),
                                    [1.0, 0.0])
        if real != want:
            chk.observe('a layer outside choice blocks whose result is unused is charged by full_cost (params %s) '
                        'but removed by export\'s dead-code pass (%s on the exported network); networks with dead '
                        'layers are outside the network family, not generated' % (float(real), float(want)))
    except Exception as ex:                                     # noqa: BLE001
        chk.observe('observation probes could not be run: %s' % type(ex).__name__)


# ----------------------------------------------------------------------------- replay
def replay(data):
    case = data['case']
    common.use_repo_on_path()
    spec = case['spec']
    if case.get('kind') == 'ctor':
        r = _work({'spec': spec, 'combos': [], 'export_idx': [], 'exhaustive': False, 'soft': [],
                   'full': [True], 'aseed': 0})
        print('constructor:', r['ctor_err'] or 'ok')
        return 1 if r['ctor_err'] else 0
    sizes = [len(b['br']) for b in spec['blocks']]
    item = {'spec': spec, 'full': [case['full']], 'aseed': 0, 'exhaustive': False, 'combos': [], 'export_idx': [],
            'soft': []}
    if case['kind'] == 'soft':
        item['soft'] = [dict(case['cfg'], alphas=case['alphas'])]
        total = 1
        for s in sizes:
            total *= s
        if total <= 64:
            item['combos'] = [list(w) for w in itertools.product(*[range(s) for s in sizes])]
            item['exhaustive'] = True
    else:
        item['combos'], item['export_idx'] = [case['winners']], [0]
    res = _work(item)
    chk = common.Check('C06', 'quick', 0)
    recs = [r for r in res['recs'] if r['metric'] == case['metric'] and r['kind'] == case['kind']]
    model = chk.driver('C06', [r['line'] for r in recs])
    bad = 0
    print('network:', json.dumps(spec))
    for rec, ans in zip(recs, model):
        md = _parse(ans)
        corr, viol = _judge(spec, rec, md)
        print('metric %s full_cost=%s real cost %s | model %s' % (rec['metric'], rec['full'], float(rec['cost']), ans))
        for key, text in viol:
            print('FAILS [%s] %s' % (key, text))
            bad += 1
    if not bad:
        print('cost = mix of the held coefficients, inside the bounds, = exported network under hard selection')
    return 1 if bad else 0
