"""C04 — PIT cost equals the real cost of the network that export would produce.

proof leg            lean/PlinioVerif/Props/C04.lean (discrete cost of the model = cost of its export
                     plan, layer by layer and summed; params = number of weights and biases of the
                     exported conv/linear layers; open masks: every index kept).
correspondence leg   real `get_cost('params'|'ops')` with discrete_cost=True (integers below 2^24,
                     exact in float32) = `costParams`/`costOps` of Drivers/PITNet.lean on grammar
                     nets x mask assignments, with full_cost on/off and exclusions.
oracle leg           for params, params_no_bias, ops, ops_no_bias, gap8_latency (2D nets), given as a
                     dictionary of specs: discrete PIT cost = the same metric computed from scratch
                     on the exported network (cost-spec look-up over its conv/linear leaves with
                     traced output shapes; independent of the PIT class); params = sum of numel of
                     the exported conv/linear weights and biases; before pruning continuous =
                     discrete = cost of the original model.
"""
from .. import pitcheck

METRICS = ['params_no_bias', 'ops_no_bias', 'gap8_latency']


def _close(a, b):
    return abs(a - b) <= 1e-6 * max(1.0, abs(a), abs(b))


def _oracle(chk, r, a):
    cid = dict(pitcheck.case_id(r, a), kind='net')
    costs = a.get('costs')
    if not costs:
        return
    for name, c in costs.items():
        if name == 'numel_export':
            continue
        if 'error' in c:
            chk.violation('C04:cost-raises:' + name, 'get_cost(%s) raises: %s' % (name, c['error']), cid)
            continue
        if isinstance(c['export'], str):
            chk.violation('C04:export-cost-raises:' + name, 'metric on the exported network raises: ' + c['export'], cid)
            continue
        if c['export'] is not None and not _close(c['pit'], c['export']):
            if c.get('export_seed_kind') is not None and _close(c['pit'], c['export_seed_kind']):
                # a generic convolution pruned to 1 input and 1 output channel satisfies the depthwise
                # pattern of the cost specification once exported
                chk.violation('C04:pruned-to-1x1-channels-looks-depthwise:' + name,
                              'discrete %s cost %.6g; on the exported network, where a conv pruned to 1->1 channels '
                              'matches the depthwise pattern, %.6g' % (name, c['pit'], c['export']), cid)
                continue
            chk.violation('C04:discrete-cost!=export-cost:' + name,
                          'discrete %s cost %.6g, same metric on the exported network %.6g' % (name, c['pit'], c['export']), cid)
    for name, c in costs.items():
        if name == 'numel_export' or 'error' in c or 'pit_single' not in c:
            continue
        if isinstance(c['pit_single'], str):
            chk.violation('C04:cost-raises:single-spec:' + name, 'get_cost() raises after cost_specification = %s: %s'
                          % (name, c['pit_single']), cid)
        elif not _close(c['pit_single'], c['pit']):
            chk.violation('C04:single-spec-assigned-after-pruning:' + name,
                          'discrete %s cost is %.6g with the specification given to the constructor in a dictionary, but %.6g '
                          'once the same specification is assigned to the pruned model (exported network: %s)'
                          % (name, c['pit'], c['pit_single'], c['export']), cid)
    if not r['excl'] or r['spec']['full_cost']:
        if costs['params'].get('pit') is not None and 'error' not in costs['params'] and costs['params']['pit'] != costs['numel_export']:
            chk.violation('C04:params!=numel',
                          'discrete params cost %.6g, exported conv/linear layers hold %d weights and biases'
                          % (costs['params']['pit'], costs['numel_export']), cid)


def run(chk):
    chk.rule = ('random grammar nets (as C01/C09, supported topologies, exclusions, 1D and 2D) x mask assignments, cost given '
                'as a dictionary {params, ops, params_no_bias, ops_no_bias, gap8_latency(2D)}, full_cost on/off; '
                'non-trivial = at least one feature or tap pruned; distinct = distinct (program, masks, full_cost)')
    chk.trusted.append('cost functions of plinio.cost evaluated by the real code (their formulas are C16\'s business)')
    chk.prove()
    n = 36 if chk.quick else 600
    if chk.proof_broken:
        n *= 4
    specs = pitcheck.specs_for(chk, n, {'excl': True, 'p_excl': .25, 'unsupported': False, 'full_cost': 'mix',
                                        'extra_costs': METRICS, 'styles': ['open', 'mixed', 'mixed', 'min'],
                                        'reuse': True, 'flags': 'random'})
    for r, assigns in pitcheck.run_nets(chk, specs):
        if r.get('harness_error'):
            raise RuntimeError('harness error on %s: %s %s' % (r['spec'], r['harness_error'], r.get('tb')))
        if r.get('construct_error'):
            chk.violation('C04:' + pitcheck.raise_kind(r), 'PIT() raises: ' + r['construct_error'], dict(pitcheck.case_id(r), kind='net'))
            continue
        # initial cost = cost of the original model (continuous and discrete)
        for name, c in r.get('init_cost', {}).items():
            cid = dict(pitcheck.case_id(r), kind='net', metric=name)
            if isinstance(c['seed_model'], str):
                chk.violation('C04:seed-cost-raises:' + name, 'metric on the original network raises: ' + c['seed_model'], cid)
                continue
            if not _close(c['continuous'], c['discrete']) or not _close(c['discrete'], c['seed_model']):
                chk.violation('C04:init-cost!=seed-cost:' + name,
                              'before pruning: continuous %.6g, discrete %.6g, original model %.6g (%s)'
                              % (c['continuous'], c['discrete'], c['seed_model'], name), cid)
            chk.count(('init', r['spec']['seed'], name), bucket='init:' + name)
        for a, head, rows in assigns:
            if not a.get('assign_done'):
                if a.get('export_error'):
                    chk.violation('C04:export-raises', a['export_error'], dict(pitcheck.case_id(r, a), kind='net'))
                continue
            if 'err' in head:       # layer reuse: no bookkeeping model, oracle only
                chk.count((tuple(r['prog']), a['style'], r['spec']['seed']), bucket='layer-reuse',
                          sample={'prog': r['prog'], 'style': a['style'], 'costs': a['costs']})
                _oracle(chk, r, a)
                continue
            chk.count((tuple(r['prog']), a['request']), nontrivial=any('0' in x['out'] for x in a['rows']),
                      bucket='full_cost=%d' % int(r['spec']['full_cost']),
                      sample={'prog': r['prog'], 'style': a['style'], 'costs': a['costs']})
            c = a['costs']
            if 'error' not in c['params'] and 'error' not in c['ops']:
                chk.corr(pitcheck.case_id(r, a), 'params=%d ops=%d' % (c['params']['pit'], c['ops']['pit']),
                         'params=%s ops=%s' % (head.get('params'), head.get('ops')),
                         'discrete params/ops cost of the PIT model')
                if not r['excl']:
                    chk.corr(pitcheck.case_id(r, a), 'xparams=%d' % c['numel_export'], 'xparams=%s' % head.get('xparams'),
                             'number of weights and biases of the exported conv/linear layers')
            _oracle(chk, r, a)


def replay(data):
    from .. import pitcase
    case = data['case']
    spec = {'seed': case['seed'], 'dim': case['dim'], 'opts': case['opts'], 'fold_bn': case['fold_bn'],
            'excl_mode': case['excl_mode'], 'styles': case.get('styles') or ['open', 'mixed', 'mixed', 'min'],
            'full_cost': case.get('full_cost'), 'train_mode': case.get('train_mode'),
            'extra_costs': case.get('extra_costs') or [], 'flags': case.get('flags')}
    r = pitcase.run_case(spec)
    bad = 0
    print('prog', r.get('prog'), 'init', r.get('init_cost'))
    for name, c in r.get('init_cost', {}).items():
        if isinstance(c['seed_model'], str) or not _close(c['continuous'], c['discrete']) or not _close(c['discrete'], c['seed_model']):
            bad = 1
    for a in r.get('assign', []):
        print(a['style'], a.get('costs'))
        for name, c in (a.get('costs') or {}).items():
            if name != 'numel_export' and ('error' in c or isinstance(c['export'], str) or
                                           (c['export'] is not None and not _close(c['pit'], c['export']))):
                bad = 1
    return bad
