"""C10 — what is evaluated, what is reported and what is exported are the same choice.

proof leg            lean/PlinioVerif/Props/C10.lean (softmax_prob, softmax_argmax, gumbel_*,
                     eval_or_hard_is_onehot_at_argmax, selected_eq_sampled_eq_exported, the sampler
                     state machine for all op sequences, the two exception witnesses, ...)
correspondence leg   walks (option updates, train()/eval(), forwards, coefficient writes) on real
                     MPSPerLayerQtz / MPSPerChannelQtz / SuperNetCombiner objects, on the quantizers
                     of small MPS models (per-layer and per-channel, shared quantizers through a
                     residual add) and on the combiners of small SuperNets, vs `Drivers/C10.lean`:
                     sampler / temperature / hard / training after every call, `theta_alpha`
                     one-hot or not and its arg-max per column, index reported by `summary()`,
                     alternative materialised by `export()`.
oracle leg           the property's predicates on the real objects after every forward pass:
                     probability vector (1e-6) per column; exactly one-hot at the largest raw
                     coefficient in eval mode and in hard non-Gumbel training; one-hot (1e-6) for
                     hard Gumbel; reported index = exported alternative = arg-max of alpha; in eval mode
                     every read of a decision's coefficients *during* the forward (the input / weight
                     scale of the bias quantizer) sees that one-hot too; export() does not raise on a
                     legal (tie-free) coefficient matrix.

Reading of "export() materialises that alternative": C10 demands *which* alternative every decision
(every channel, for per-channel search) materialises — the precision of the quantizer each channel's
weights end up under — and that export() produces a network at all; it does not demand that the
exported network computes the same function (C02).
"""
import json
from fractions import Fraction

PREFIX_MPS = [['fwd'], ['U', '1', 0, 0, 0], ['train']]     # what MPS.__init__ does after building the quantizers
PREFIX_SN = [['eval'], ['fwd']]                             # what SuperNet's conversion does (trace in eval mode)
SAMPLERS = {'sample_alpha_sm': 'sm', 'sample_alpha_gs': 'gs', 'sample_alpha_none': 'none'}
TEMPS = ['1/20', '1/10', '1/4', '1/2', '1', '2', '5', '20']
K_DISABLED = 'C10:MPSQtz:eval:disable_sampling=1'
K_SN_SOFT = 'C10:SuperNetCombiner:eval:hard=0'
K_STALE_READ = 'C10:MPSQtz:eval:coefficients-read-before-resampling'
ARCHS = ('res', 'res', 'res', 'shared', 'dw', 'conv1d')      # MPS model families (weights of the draw)


# ------------------------------------------------------------------ generators

def _rand_T(rng):
    r = rng.random()
    if r < 0.15:
        return '1/20'                                        # the low end: alpha / T is largest
    if r < 0.6:
        return rng.choice(TEMPS)
    return str(Fraction(rng.randint(1, 400), 20))            # 0.05 .. 20


SCALES = ((Fraction(1, 20), 0.6), (Fraction(1, 4), 0.2), (Fraction(5), 0.2))


def _rand_col(rng, n, scale=None):
    """n raw coefficients, no ties, exact rationals k * step with distinct integers k in -20..20:
    step 1/20 (values in [-1, 1], gaps >= 0.05), 1/4 (a few units: [-5, 5]) or 5 ([-100, 100]).
    The tie guard is on the RAW coefficients: the relative gap of alpha / T in float32 is >= 2.5e-3,
    five orders of magnitude above one ulp; whether the softmax saturates is deliberately not guarded
    (alpha / T reaches +-100 at T = 1 and +-2000 at T = 1/20: exp() underflows, the arg-max must not move)."""
    if scale is None:
        r, scale = rng.random(), SCALES[-1][0]
        for sc, w in SCALES:
            if r < w:
                scale = sc
                break
            r -= w
    return [str(k * scale) for k in rng.sample(range(-20, 21), n)]


def _rand_alpha(rng, n, cols, scale=None):
    return [_rand_col(rng, n, scale) for _ in range(cols)]


def _rand_prec(rng, n, allow_zero=False):
    pool = list(range(2, 17)) + ([0] if allow_zero else [])
    return rng.sample(pool, n)


def _rand_ops(rng, shapes, length, sn=False):
    """`shapes`: {qkey: (n, cols)} of the coefficient tensors a coefficient write must cover"""
    ops = []
    for _ in range(length):
        r = rng.random()
        if r < 0.30:
            ops.append(['fwd'])
        elif r < 0.42:
            ops.append(['T', _rand_T(rng)])
        elif r < 0.52:
            ops.append(['H', rng.randint(0, 1)])
        elif r < 0.62 and not sn:
            ops.append(['G', rng.randint(0, 1)])
        elif r < 0.70 and not sn:
            ops.append(['D', rng.randint(0, 1)])
        elif r < 0.75:
            opt = lambda v: v if rng.random() < 0.5 else None
            ops.append(['U', opt(_rand_T(rng)), opt(rng.randint(0, 1)),
                        None if sn else opt(rng.randint(0, 1)), None if sn else opt(rng.randint(0, 1))])
        elif r < 0.83:
            ops.append(['train'])
        elif r < 0.93:
            ops.append(['eval'])
        else:
            ops.append(['A', {k: _rand_alpha(rng, n, c) for k, (n, c) in shapes.items()}])
    return ops


def _gen_cases(rng, n_quant, n_comb, n_mps, n_sn):
    cases = []
    # enumerated: every flag combination x train/eval x one forward, per class, a few sizes
    for kind in ('qL', 'qC'):
        for n in (1, 2, 3, 8):
            for bits in range(16):
                h, g, d, ev = bits & 1, (bits >> 1) & 1, (bits >> 2) & 1, (bits >> 3) & 1
                cout = 1 if kind == 'qL' else (3 if n < 8 else 16)
                prec = _rand_prec(rng, n, allow_zero=(kind == 'qC' and n > 2))
                shapes = {'q': (n, cout)}
                ops = [['A', {'q': _rand_alpha(rng, n, cout)}], ['U', _rand_T(rng), h, g, d],
                       ['eval'] if ev else ['train'], ['fwd'], ['fwd']]
                cases.append({'kind': kind, 'prec': prec, 'cout': cout, 'init': ['1', 0, 0, 0], 'ops': ops})
    for n in (1, 2, 4, 8):
        for bits in range(8):
            h, g, ev = bits & 1, (bits >> 1) & 1, (bits >> 2) & 1
            ops = [['A', {'q': _rand_alpha(rng, n, 1)}], ['eval'] if ev else ['train'], ['fwd'],
                   ['T', _rand_T(rng)], ['fwd']]
            cases.append({'kind': 'comb', 'n': n, 'gumbel': g, 'hard': h, 'ops': ops})
    # enumerated: saturating logits on every run — a few units at the lowest temperature, +-100 at T = 1:
    # eval, hard non-Gumbel training and soft training (the arg-max of alpha / T must survive exp() underflow)
    for kind in ('qL', 'qC'):
        for n in (3, 8):
            for scale, T in ((Fraction(1, 4), '1/20'), (Fraction(5), '1'), (Fraction(5), '1/20'), (Fraction(1, 4), '1/10')):
                for h, ev in ((0, 1), (1, 0), (0, 0), (1, 1)):
                    for _ in range(2):
                        cout = 1 if kind == 'qL' else (n if _ else 5)      # also square per-channel matrices
                        ops = [['A', {'q': _rand_alpha(rng, n, cout, scale)}], ['U', T, h, 0, 0],
                               ['eval'] if ev else ['train'], ['fwd'], ['A', {'q': _rand_alpha(rng, n, cout, scale)}], ['fwd']]
                        cases.append({'kind': kind, 'prec': _rand_prec(rng, n), 'cout': cout, 'init': ['1', 0, 0, 0], 'ops': ops})
    for n in (3, 8):
        for scale, T in ((Fraction(1, 4), '1/20'), (Fraction(5), '1')):
            for h, ev in ((0, 1), (1, 0), (1, 1), (0, 0)):
                ops = [['A', {'q': _rand_alpha(rng, n, 1, scale)}], ['T', T], ['eval'] if ev else ['train'], ['fwd']]
                cases.append({'kind': 'comb', 'n': n, 'gumbel': 0, 'hard': h, 'ops': ops})
    # random walks on stand-alone objects
    for _ in range(n_quant):
        kind = rng.choice(['qL', 'qC'])
        n = rng.randint(1, 8)
        cout = 1 if kind == 'qL' else rng.randint(1, 16)
        prec = _rand_prec(rng, n, allow_zero=(kind == 'qC' and n > 1 and rng.random() < 0.3))
        init = [_rand_T(rng), rng.randint(0, 1), rng.randint(0, 1), int(rng.random() < 0.25)]
        shapes = {'q': (n, cout)}
        ops = [['A', {'q': _rand_alpha(rng, n, cout)}]] + _rand_ops(rng, shapes, rng.randint(1, 6))
        cases.append({'kind': kind, 'prec': prec, 'cout': cout, 'init': init, 'ops': ops})
    for _ in range(n_comb):
        n = rng.randint(1, 8)
        shapes = {'q': (n, 1)}
        ops = [['A', {'q': _rand_alpha(rng, n, 1)}]] + _rand_ops(rng, shapes, rng.randint(1, 6), sn=True)
        cases.append({'kind': 'comb', 'n': n, 'gumbel': rng.randint(0, 1), 'hard': rng.randint(0, 1), 'ops': ops})
    # walks on whole models
    for i in range(n_mps):
        pc = i % 2
        wp = _rand_prec(rng, rng.randint(1, 8), allow_zero=False)
        ap = _rand_prec(rng, rng.randint(1, 5))
        c = rng.choice([2, 3, 4, 8, 16]) if pc else rng.choice([2, 4])
        case = {'kind': 'mps', 'per_channel': pc, 'w_prec': wp, 'a_prec': ap, 'c': c,
                'arch': ARCHS[(i // 2) % len(ARCHS)]}
        shapes = _mps_shapes(case)
        case['ops'] = [['A', {k: _rand_alpha(rng, n, cc) for k, (n, cc) in shapes.items()}]] + \
            _rand_ops(rng, shapes, rng.randint(1, 6))
        cases.append(case)
    for i in range(n_sn):
        case = {'kind': 'supernet', 'n': [rng.randint(1, 8), rng.randint(2, 4)],
                'gumbel': rng.randint(0, 1), 'hard': rng.randint(0, 1)}
        shapes = {'sn0': (case['n'][0], 1), 'sn1': (case['n'][1], 1)}
        case['ops'] = [['A', {k: _rand_alpha(rng, n, cc) for k, (n, cc) in shapes.items()}], ['fwd']] + \
            _rand_ops(rng, shapes, rng.randint(1, 5), sn=True)
        cases.append(case)
    return cases


def _mps_shapes(case):
    """coefficient tensors of the MPS test model: {qkey: (n alternatives, columns)}"""
    nw, na, c, pc = len(case['w_prec']), len(case['a_prec']), case['c'], case['per_channel']
    w = lambda cols: (nw, cols if pc else 1)
    arch = case.get('arch', 'res')
    if arch == 'shared':      # c1(relu(c0(relu(c0(x))))): c0 invoked twice, its input quantizer is its own output quantizer
        return {'x_input_quantizer.out': (na, 1), 'c0.out': (na, 1), 'c0.w': w(c), 'c1.out': (1, 1), 'c1.w': w(2)}
    if arch == 'dw':          # pw(relu(dw(relu(c0(x))))): the depthwise conv shares c0's quantizers
        return {'x_input_quantizer.out': (na, 1), 'c0.out': (na, 1), 'c0.w': w(c), 'pw.out': (1, 1), 'pw.w': w(2)}
    if arch == 'conv1d':      # c1(relu(c0(x))) with Conv1d layers
        return {'x_input_quantizer.out': (na, 1), 'c0.out': (na, 1), 'c0.w': w(c), 'c1.out': (1, 1), 'c1.w': w(3)}
    return {'x_input_quantizer.out': (na, 1), 'c0.out': (na, 1), 'c1.out': (na, 1), 'fc.out': (1, 1),
            'c0.w': w(c), 'c1.w': w(c), 'fc.w': w(3)}


# ------------------------------------------------------------------ real side

def _f(s):
    return float(Fraction(s))


def _alpha_tensor(cols, like):
    import torch
    t = torch.tensor([[_f(v) for v in col] for col in cols], dtype=torch.float32).t().contiguous()
    return t.reshape(like.shape)


class _Obj:
    """one observed quantizer / combiner"""
    def __init__(self, key, mod, cls, prec):
        self.key, self.mod, self.cls, self.prec = key, mod, cls, list(prec)
        self.reports = []          # (layer name, role) pairs whose summary/export entries come from it


def _mk_mps_net(c, arch='res'):
    """returns (network, input shape without batch)"""
    import torch
    import torch.nn as nn

    if arch == 'shared':
        class Sh(nn.Module):
            def __init__(s):
                super().__init__()
                s.c0 = nn.Conv2d(c, c, 3, padding=1)
                s.c1 = nn.Conv2d(c, 2, 1)

            def forward(s, x):
                return s.c1(torch.relu(s.c0(torch.relu(s.c0(x)))))
        return Sh(), (c, 4, 4)
    if arch == 'dw':
        class Dw(nn.Module):
            def __init__(s):
                super().__init__()
                s.c0 = nn.Conv2d(3, c, 1)
                s.dw = nn.Conv2d(c, c, 3, padding=1, groups=c)
                s.pw = nn.Conv2d(c, 2, 1)

            def forward(s, x):
                return s.pw(torch.relu(s.dw(torch.relu(s.c0(x)))))
        return Dw(), (3, 4, 4)
    if arch == 'conv1d':
        class C1(nn.Module):
            def __init__(s):
                super().__init__()
                s.c0 = nn.Conv1d(2, c, 3, padding=1)
                s.c1 = nn.Conv1d(c, 3, 3, padding=1)

            def forward(s, x):
                return s.c1(torch.relu(s.c0(x)))
        return C1(), (2, 8)

    class N(nn.Module):
        def __init__(s):
            super().__init__()
            s.c0 = nn.Conv2d(3, c, 3, padding=1)
            s.c1 = nn.Conv2d(c, c, 3, padding=1)
            s.c2 = nn.Conv2d(c, c, 1)
            s.fc = nn.Linear(c * 4 * 4, 3)

        def forward(s, x):
            a = torch.relu(s.c0(x))
            b = torch.relu(s.c1(a))
            return s.fc((s.c2(b) + a).flatten(1))
    return N(), (3, 4, 4)


def _mk_sn_net(ns, gumbel, hard):
    import torch.nn as nn
    from plinio.methods.supernet import SuperNetModule

    def branches(n):
        out = []
        for i in range(n):
            k = [1, 3, 5][i % 3]
            if i % 4 == 2:
                out.append(nn.Sequential(nn.Conv2d(2, 2, k, padding=k // 2), nn.ReLU()))
            elif i % 4 == 3:
                out.append(nn.Identity())
            else:
                out.append(nn.Conv2d(2, 2, k, padding=k // 2))
        return out

    class S(nn.Module):
        def __init__(s):
            super().__init__()
            s.c = nn.Conv2d(3, 2, 1)
            s.sn0 = SuperNetModule(branches(ns[0]), bool(gumbel), bool(hard))
            s.sn1 = SuperNetModule(branches(ns[1]), bool(gumbel), bool(hard))
            s.fc = nn.Linear(2 * 4 * 4, 2)

        def forward(s, x):
            return s.fc(s.sn1(s.sn0(s.c(x))).flatten(1))
    return S()


class _Target:
    def __init__(self, case):
        import torch
        import warnings
        warnings.filterwarnings('ignore')
        torch.manual_seed(12345)
        self.case, self.kind = case, case['kind']
        self.model, self.objs = None, []
        k = self.kind
        if k in ('qL', 'qC'):
            from plinio.methods.mps.nn.qtz import MPSPerLayerQtz, MPSPerChannelQtz
            from plinio.methods.mps.quant.quantizers import PACTAct, MinMaxWeight
            T, h, g, d = case['init']
            kw = dict(softmax_temperature=_f(T), hard_softmax=bool(h), gumbel_softmax=bool(g),
                      disable_sampling=bool(d))
            if k == 'qL':
                q = MPSPerLayerQtz(tuple(case['prec']), PACTAct, {}, **kw)
                self.x = torch.rand(2, 3)
            else:
                q = MPSPerChannelQtz(tuple(case['prec']), MinMaxWeight, {'cout': case['cout']}, **kw)
                self.x = torch.randn(case['cout'], 2, 1, 1)
            self.objs = [_Obj('q', q, 'mpsL' if k == 'qL' else 'mpsC', case['prec'])]
        elif k == 'comb':
            from plinio.methods.supernet.nn.combiner import SuperNetCombiner
            cb = SuperNetCombiner(case['n'], bool(case['gumbel']), bool(case['hard']))
            self.x = [torch.ones(1, 2)] * case['n']
            self.objs = [_Obj('q', cb, 'sn', [0] * case['n'])]
        elif k == 'mps':
            from plinio.methods.mps import MPS, MPSType, get_default_qinfo
            from plinio.cost import params_bit
            net, shape = _mk_mps_net(case['c'], case.get('arch', 'res'))
            m = MPS(net, input_shape=shape, cost=params_bit,
                    w_search_type=MPSType.PER_CHANNEL if case['per_channel'] else MPSType.PER_LAYER,
                    qinfo=get_default_qinfo(tuple(case['w_prec']), tuple(case['a_prec'])))
            self.model, self.x = m, torch.rand(1, *shape)
            by_id = {}
            for lname, _, layer in m._unique_leaf_modules:
                for role in ('out', 'w', 'in'):
                    q = getattr(layer, role + '_mps_quantizer', None)
                    if q is None or not hasattr(q, 'theta_alpha'):
                        continue
                    if id(q) not in by_id:
                        if role == 'in':
                            continue       # the unused dummy input quantizer of the input identity
                        from plinio.methods.mps.nn.qtz import MPSPerChannelQtz
                        cls = 'mpsC' if isinstance(q, MPSPerChannelQtz) else 'mpsL'
                        by_id[id(q)] = _Obj('%s.%s' % (lname, role), q, cls,
                                            [int(p) for p in q.precision.tolist()])
                        self.objs.append(by_id[id(q)])
                    by_id[id(q)].reports.append((lname, role))
            want = _mps_shapes(case)
            have = {o.key: (o.mod.alpha.shape[0], 1 if o.mod.alpha.dim() == 1 else o.mod.alpha.shape[1]) for o in self.objs}
            if want != have:
                raise AssertionError('harness: coefficient tensors of the %s model are %s, expected %s'
                                     % (case.get('arch', 'res'), have, want))
        elif k == 'supernet':
            from plinio.methods import SuperNet
            from plinio.cost import params
            from plinio.methods.supernet.nn.combiner import SuperNetCombiner
            m = SuperNet(_mk_sn_net(case['n'], case['gumbel'], case['hard']), input_shape=(3, 4, 4), cost=params)
            self.model, self.x = m, torch.rand(1, 3, 4, 4)
            for i, name in enumerate(('sn0', 'sn1')):
                cb = m.seed.get_submodule(name + '.sn_combiner')
                o = _Obj(name, cb, 'sn', [0] * case['n'][i])
                o.reports = [(name + '.sn_combiner', 'branch')]
                self.objs.append(o)
        else:
            raise ValueError(k)

    # ---- the calls
    def apply(self, op):
        import torch
        t = op[0]
        self.reads = {}
        if t == 'fwd':
            if self.kind == 'mps':
                # record what every read of a decision's coefficients during the forward sees
                # (`effective_scale`: the input / weight scale handed to the bias quantizer)
                from plinio.methods.mps.nn.qtz import MPSBaseQtz
                orig = MPSBaseQtz.__dict__['effective_scale']
                key_of = {id(o.mod): o.key for o in self.objs}
                reads = self.reads

                def _get(q):
                    if id(q) in key_of:
                        th = q.theta_alpha.detach()
                        reads.setdefault(key_of[id(q)], []).append([th.tolist()] if th.dim() == 1 else th.t().tolist())
                    return orig.fget(q)
                MPSBaseQtz.effective_scale = property(_get)
                try:
                    self.model(self.x)
                finally:
                    MPSBaseQtz.effective_scale = orig
            elif self.model is not None:
                self.model(self.x)
            else:
                self.objs[0].mod(self.x)
        elif t in ('train', 'eval'):
            getattr(self.model if self.model is not None else self.objs[0].mod, t)()
        elif t == 'A':
            with torch.no_grad():
                for o in self.objs:
                    if o.key in op[1]:
                        o.mod.alpha.copy_(_alpha_tensor(op[1][o.key], o.mod.alpha))
        else:
            if t == 'U':
                kw = {'temperature': None if op[1] is None else _f(op[1]),
                      'hard': None if op[2] is None else bool(op[2]),
                      'gumbel': None if op[3] is None else bool(op[3]),
                      'disable_sampling': None if op[4] is None else bool(op[4])}
            else:
                name = {'T': 'temperature', 'H': 'hard', 'G': 'gumbel', 'D': 'disable_sampling'}[t]
                kw = {name: _f(op[1]) if t == 'T' else bool(op[1])}
            if self.kind == 'supernet':
                self.model.update_softmax_options(**{k: v for k, v in kw.items() if k in ('temperature', 'hard')})
            elif self.kind == 'comb':
                cb = self.objs[0].mod          # what SuperNet.update_softmax_options does to a combiner
                if kw.get('temperature') is not None:
                    cb.softmax_temperature = kw['temperature']
                if kw.get('hard') is not None:
                    cb.hard_softmax = kw['hard']
            elif self.kind == 'mps':
                self.model.update_softmax_options(**kw)
            else:
                self.objs[0].mod.update_softmax_options(**kw)

    # ---- observations (raw; canonicalised later, next to the model's answer)
    def observe(self):
        import torch
        out = {}
        summ = None
        if self.model is not None:
            summ = self.model.summary()
        for o in self.objs:
            m = o.mod
            th = m.theta_alpha.detach()
            al = m.alpha.detach()
            cols = [th.tolist()] if th.dim() == 1 else th.t().tolist()
            T = float(m.temperature) if hasattr(m, 'temperature') else float(m.softmax_temperature)
            rep = []
            if summ is not None:
                for lname, role in o.reports:
                    if role == 'branch':
                        br = summ[lname]['supernet_branches']
                        vals = [br['branch_%d' % i]['alpha'] for i in range(len(br))]
                        rep.append([max(range(len(vals)), key=lambda i: (vals[i], -i))])
                    elif (role + '_precision') in summ[lname]:
                        p = summ[lname][role + '_precision']
                        rep.append([o.prec.index(int(x)) for x in (p if isinstance(p, list) else [p])])
            if o.cls == 'sn':
                rep.append([int(m.best_layer_index())])      # the index export() uses
            out[o.key] = {'smp': SAMPLERS.get(m.sample_alpha.__name__, m.sample_alpha.__name__), 'T': T,
                          'h': int(bool(m.hard_softmax)), 'tr': int(bool(m.training)), 'theta': cols,
                          'amax': (torch.argmax(al, dim=0).reshape(-1).tolist()),
                          'alpha': [al.tolist()] if al.dim() == 1 else al.t().tolist(), 'rep': rep,
                          'reads': getattr(self, 'reads', {}).get(o.key, [])}
        return out

    # ---- what export materialises
    def exported(self):
        import torch
        out = {}
        if self.model is None:
            return out
        if self.kind == 'mps':
            with torch.no_grad():
                for lname, _, layer in self.model._unique_leaf_modules:
                    if hasattr(layer, 'weight'):
                        for c in range(layer.weight.shape[0]):
                            layer.weight.data[c] = float(c + 1)      # ID-probe the channels
            try:
                e = self.model.export()
            except Exception as ex:
                return {'__raised__': _export_failure(ex)}
            for o in self.objs:
                res = []
                for lname, role in o.reports:
                    sub = e.get_submodule(lname)
                    items = list(sub) if type(sub).__name__ == 'QuantList' else [sub]
                    if role == 'w' and type(sub).__name__ == 'QuantList':
                        g = []
                        for it in items:
                            w = it.weight.detach().reshape(it.weight.shape[0], -1)[:, 0]
                            g.append([int(it.w_quantizer.precision), [int(round(float(v))) - 1 for v in w]])
                        res.append(['groups', g])
                    elif all(hasattr(it, role + '_quantizer') for it in items):
                        qs = {int(getattr(it, role + '_quantizer').precision) for it in items}
                        res.append(['prec', sorted(qs)])
                out[o.key] = res
        else:
            e = self.model.export()
            names = [n for n, _ in e.named_modules()]
            for o in self.objs:
                alive = sorted({int(n.split('sn_branches.')[1].split('.')[0]) for n in names
                                if n.startswith(o.key + '.sn_branches.')})
                out[o.key] = [['branch', alive]]
        return out


def _export_failure(ex):
    """class of an exception raised by export(): the layer being exported (from the traceback), whether it is
    a depthwise / grouped convolution, per-channel or per-layer search, and the exception type"""
    layer, tb = None, ex.__traceback__
    while tb is not None:
        if tb.tb_frame.f_code.co_name == 'export' and 'submodule' in tb.tb_frame.f_locals:
            layer = tb.tb_frame.f_locals['submodule']
        tb = tb.tb_next
    cls = type(layer).__name__ if layer is not None else 'unknown'
    g = getattr(layer, 'groups', 1)
    kind = 'depthwise:' if g > 1 and g == getattr(layer, 'in_channels', 0) == getattr(layer, 'out_channels', 0) else \
        'grouped:' if g > 1 else ''
    wq = getattr(layer, 'w_mps_quantizer', None)
    search = 'per-channel' if type(wq).__name__ == 'MPSPerChannelQtz' else 'per-layer'
    return {'key': 'C10:%s:%s:%sexport-raises:%s' % (cls, search, kind, type(ex).__name__),
            'what': '%s: %s' % (type(ex).__name__, str(ex)[:200])}


def _exec_case(case):
    """Run one walk on the real objects; returns raw observations (after construction and after every op)."""
    import torch
    torch.set_num_threads(1)
    try:
        tg = _Target(case)
        obs = [tg.observe()]
        for op in case['ops']:
            tg.apply(op)
            obs.append(tg.observe())
        return {'obs': obs, 'exp': tg.exported(), 'objs': [(o.key, o.cls, o.prec, len(o.reports)) for o in tg.objs]}
    except Exception as e:  # a crash of the implementation is reported, not swallowed
        import traceback
        return {'error': '%s: %s' % (type(e).__name__, str(e)[:300]), 'tb': traceback.format_exc()[-1500:]}


# ------------------------------------------------------------------ model side

def _render_op(op, key):
    t = op[0]
    if t in ('fwd', 'train', 'eval'):
        return t
    if t == 'A':
        cols = op[1].get(key)
        if cols is None:
            return None
        return 'A:[' + ','.join('[' + ','.join(c) + ']' for c in cols) + ']'
    if t == 'U':
        f = lambda v: '-' if v is None else str(v)
        return 'U:%s:%s:%s:%s' % (f(op[1]), f(op[2]), f(op[3]), f(op[4]))
    return '%s:%s' % (t, op[1])


def _line(case, key, cls, prec):
    k = case['kind']
    prefix = PREFIX_MPS if k == 'mps' else PREFIX_SN if k == 'supernet' else []
    ops = [r for r in (_render_op(op, key) for op in prefix + case['ops']) if r is not None]
    if k in ('qL', 'qC'):
        init = '%s,%d,%d,%d' % tuple(case['init'])
        cout = case['cout']
    elif k == 'mps':
        init, cout = '1,0,0,0', _mps_shapes(case)[key][1]
    else:
        init, cout = '1,%d,%d,0' % (case['hard'], case['gumbel']), 1
    return 'walk cls=%s prec=[%s] cout=%d init=%s ops=[%s]' % (
        cls, ','.join(str(p) for p in prec), cout, init, ','.join(ops))


def _kept_indices(case, key):
    """positions, among the model's observations, that correspond to the harness's observations
    (construction, then every op; ops that do not concern this object still produce one)"""
    k = case['kind']
    prefix = PREFIX_MPS if k == 'mps' else PREFIX_SN if k == 'supernet' else []
    idx, pos = [len(prefix)], len(prefix)
    for op in case['ops']:
        if _render_op(op, key) is not None:
            pos += 1
        idx.append(pos)
    return idx


# ------------------------------------------------------------------ canonicalisation and oracle

def _is_prob(col, tol=1e-6):
    return all(v >= -tol for v in col) and abs(sum(col) - 1.0) <= tol * max(1, len(col))


def _onehot_idx(col, tol=0.0):
    big = [i for i, v in enumerate(col) if abs(v - 1.0) <= tol]
    if len(big) == 1 and all(abs(v) <= tol for i, v in enumerate(col) if i != big[0]):
        return big[0]
    return None


def _argmax(col):
    return max(range(len(col)), key=lambda i: (col[i], -i))


UNDERFLOW = 87.0      # exp(-x) is a normal, non-zero float32 for x < 87.3


def _may_saturate(src_col):
    """could the float32 softmax of this column (logits alpha / T at the time it was sampled) be EXACTLY
    one-hot?  Only if every entry but the largest is at least UNDERFLOW below it (exp() underflows to 0 or to a
    denormal); below that every entry is certainly non-zero."""
    if src_col is None:
        return False
    a, T = src_col
    mx = max(a)
    rest = sorted(((mx - v) / T for v in a))[1:]
    return all(g >= UNDERFLOW for g in rest)


def _describe(col, model_desc, src_col=None):
    if model_desc == 'GS':
        return 'GS' if _is_prob(col) else 'X'
    if model_desc == 'GH':
        return 'GH' if _onehot_idx(col, 1e-6) is not None else 'X'
    k = _onehot_idx(col)
    if k is not None:
        # a soft sample whose exp() underflowed is exactly one-hot in float32: still the soft sample
        # (a probability vector with the same arg-max); anything else that is one-hot is reported as such
        if model_desc.startswith('S') and len(col) > 1 and _may_saturate(src_col):
            return 'S%d' % k
        return 'H%d' % k
    return 'S%d' % _argmax(col) if _is_prob(col) else 'X'


def _tstr(T, cands):
    for c in cands:
        if abs(T - _f(c)) <= 1e-6 * max(1.0, abs(T)):
            return c
    return repr(T)


def _canon(o, model_obs, cands, src=None):
    """`src`: (alpha columns, T) the real object held at the forward that last sampled (None: not sampled
    by a forward of this walk)"""
    mparts = model_obs.split('|')
    mdesc = mparts[1].split(',') if len(mparts) == 3 else []
    descs = [_describe(col, mdesc[j] if j < len(mdesc) else '',
                       None if src is None or j >= len(src[0]) else (src[0][j], src[1]))
             for j, col in enumerate(o['theta'])]
    return '%s,%s,%d,%d|%s|%s' % (o['smp'], _tstr(o['T'], cands), o['h'], o['tr'], ','.join(descs),
                                 ','.join(str(i) for i in o['amax']))


def _flags_after(case, upto):
    """reference semantics of the options, written independently of model and code: every option keeps
    its last given value; train()/eval() set the mode.  Returns the flags in force after `upto` ops."""
    k = case['kind']
    if k in ('qL', 'qC'):
        f = {'h': case['init'][1], 'g': case['init'][2], 'd': case['init'][3], 'tr': 1}
    elif k == 'mps':
        f = {'h': 0, 'g': 0, 'd': 0, 'tr': 1}
    elif k == 'comb':
        f = {'h': case['hard'], 'g': case['gumbel'], 'd': 0, 'tr': 1}
    else:
        f = {'h': case['hard'], 'g': case['gumbel'], 'd': 0, 'tr': 0}    # conversion leaves the seed in eval mode
    sn = k in ('comb', 'supernet')
    for op in case['ops'][:upto]:
        t = op[0]
        if t == 'train':
            f['tr'] = 1
        elif t == 'eval':
            f['tr'] = 0
        elif t == 'H':
            f['h'] = op[1]
        elif t == 'G' and not sn:
            f['g'] = op[1]
        elif t == 'D' and not sn:
            f['d'] = op[1]
        elif t == 'U':
            if op[2] is not None:
                f['h'] = op[2]
            if op[3] is not None and not sn:
                f['g'] = op[3]
            if op[4] is not None and not sn:
                f['d'] = op[4]
    return f


def _T_after(case, upto):
    k = case['kind']
    T = case['init'][0] if k in ('qL', 'qC') else '1'
    for op in case['ops'][:upto]:
        if op[0] == 'T' or (op[0] == 'U' and op[1] is not None):
            T = op[1]
    return _f(T)


def _numeric(chk, case, res):
    """numeric cross-check with g = exp (float64 reference, 1e-4): after a forward that the reference
    semantics of the options says is a plain soft sample, theta_alpha = softmax(alpha / T)"""
    import math
    for i, op in enumerate(case['ops']):
        if op[0] != 'fwd':
            continue
        f, T = _flags_after(case, i), _T_after(case, i)
        for key, cls, prec, _ in res['objs']:
            sn = cls == 'sn'
            soft = (not f['h'] and not (f['g'] and f['tr'])) if sn else \
                   (not f['d'] and f['tr'] and not f['g'] and not f['h'])
            if not soft:
                continue
            o = res['obs'][i + 1][key]
            worst = 0.0
            for col, a in zip(o['theta'], o['alpha']):
                mx = max(a)
                e = [math.exp((v - mx) / T) for v in a]
                z = sum(e)
                worst = max([worst] + [abs(c - x / z) for c, x in zip(col, e)])
            chk.corr({'case': case, 'object': key, 'at_op': i}, 'close' if worst <= 1e-4 else 'off by %.3g' % worst,
                     'close', 'numeric: theta_alpha = softmax(alpha / T) with g = exp (float64 reference, 1e-4)')
            chk.hist['numeric-softmax-checks'] = chk.hist.get('numeric-softmax-checks', 0) + 1


CLASSNAME = {'mpsL': 'MPSPerLayerQtz', 'mpsC': 'MPSPerChannelQtz', 'sn': 'SuperNetCombiner'}


def _oracle(chk, case, res):
    """the property's own predicates on the real objects"""
    obs = res['obs']
    for i, op in enumerate(case['ops']):
        if op[0] != 'fwd':
            continue
        f = _flags_after(case, i)            # flags in force when this forward ran
        for key, cls, prec, _ in res['objs']:
            o = obs[i + 1][key]
            sn = cls == 'sn'
            must_hard = (not f['tr']) or (f['h'] and not f['g'])
            tag = 'eval' if not f['tr'] else 'train'
            base = {'kind': 'walk', 'case': case, 'at_op': i, 'object': key, 'flags': f}
            for j, col in enumerate(o['theta']):
                amax = _argmax(o['alpha'][j])
                if not _is_prob(col):
                    key_ = K_DISABLED if (f['d'] and not sn) else 'C10:%s:not-a-probability-vector' % CLASSNAME[cls]
                    chk.violation(key_, 'sampled coefficients are not a probability vector: %s' % col[:8],
                                  dict(base, column=j, theta=col))
                    continue
                if must_hard and _onehot_idx(col) != amax:
                    if f['d'] and not sn:
                        key_ = K_DISABLED
                    elif sn and not f['tr'] and not f['h']:
                        key_ = K_SN_SOFT
                    else:
                        key_ = 'C10:%s:%s:hard=%d:gumbel=%d:not-onehot-at-argmax' % (CLASSNAME[cls], tag, f['h'], f['g'])
                    chk.violation(key_, '%s mode, hard=%d gumbel=%d disable=%d: coefficients %s are not the one-hot '
                                  'at the largest raw coefficient (index %d)' % (tag, f['h'], f['g'], f['d'],
                                                                                 [round(v, 4) for v in col[:8]], amax),
                                  dict(base, column=j, theta=col, argmax_alpha=amax))
                elif (not must_hard) and f['g'] and f['h'] and not (f['d'] and not sn) and _onehot_idx(col, 1e-6) is None:
                    chk.violation('C10:%s:train:gumbel-hard-not-onehot' % CLASSNAME[cls],
                                  'hard Gumbel sample is not one-hot: %s' % col[:8], dict(base, column=j, theta=col))
            # what is *evaluated*: in eval mode every read of the coefficients during the forward sees the
            # one-hot at the largest raw coefficient as well (not a sample left by an earlier forward)
            if not f['tr'] and not (f['d'] and not sn):
                for r, cols in enumerate(o.get('reads', [])):
                    for j, col in enumerate(cols):
                        if _onehot_idx(col) != _argmax(o['alpha'][j]) and _onehot_idx(o['theta'][j]) == _argmax(o['alpha'][j]):
                            chk.violation(K_STALE_READ, 'eval-mode forward: read #%d of the coefficients of %s (scale of the '
                                          'bias quantizer) sees %s, left by an earlier forward, before the quantizer is '
                                          're-sampled to the one-hot at index %d' % (r, key, [round(v, 4) for v in col[:8]],
                                                                                    _argmax(o['alpha'][j])),
                                          dict(base, column=j, read=r, theta_read=col))
    if '__raised__' in res['exp']:
        fail = res['exp']['__raised__']
        chk.violation(fail['key'], 'export() raises on a tie-free coefficient assignment that summary() reports and the '
                      'eval-mode forward evaluates: ' + fail['what'],
                      {'kind': 'walk', 'case': case, 'at_op': len(case['ops']) - 1, 'object': 'export()'})
    # reported = exported = arg-max of the raw coefficients, at every observation point / at the end
    for i in range(len(obs)):
        for key, cls, prec, _ in res['objs']:
            o = obs[i][key]
            for rep in o['rep']:
                if rep != o['amax'][:len(rep)]:
                    chk.violation('C10:%s:summary-differs-from-argmax' % CLASSNAME[cls],
                                  'summary() / best_layer_index() reports alternative %s, arg-max of alpha is %s' % (rep, o['amax']),
                                  {'kind': 'walk', 'case': case, 'at_op': i - 1, 'object': key})
    last = obs[-1]
    for key, cls, prec, _ in res['objs']:
        amax = last[key]['amax']
        for ent in res['exp'].get(key, []):
            ok = True
            if ent[0] == 'prec':
                ok = ent[1] == [prec[amax[0]]]
            elif ent[0] == 'branch':
                ok = ent[1] == [amax[0]]
            elif ent[0] == 'groups':
                want = {}
                for c, k in enumerate(amax):
                    want.setdefault(prec[k], []).append(c)
                got = {p: sorted(ch) for p, ch in ent[1]}
                ok = got == want and len(ent[1]) == len(want)
            if not ok:
                chk.violation('C10:%s:export-differs-from-argmax' % CLASSNAME[cls],
                              'export() materialises %s, arg-max of alpha is %s (precisions %s)' % (ent, amax, prec),
                              {'kind': 'walk', 'case': case, 'at_op': len(case['ops']) - 1, 'object': key})


def _model_export(cls, prec, ent, mexp):
    """canonical string of what export materialised, in the driver's format"""
    if ent[0] == 'groups':
        return ','.join('%d:%s' % (p, '.'.join(str(c) for c in ch)) for p, ch in ent[1])
    if ent[0] == 'prec':
        return ','.join(str(prec.index(p)) if p in prec else '?%d' % p for p in ent[1])
    return ','.join(str(b) for b in ent[1])


def _process(chk, cases, results):
    from .. import common
    lines, refs = [], []
    for ci, (case, res) in enumerate(zip(cases, results)):
        if 'error' in res:
            continue
        for key, cls, prec, _ in res['objs']:
            lines.append(_line(case, key, cls, prec))
            refs.append((ci, key, cls, prec))
    model = chk.driver('C10', lines)
    for (ci, key, cls, prec), ans in zip(refs, model):
        case, res = cases[ci], results[ci]
        if '#' not in ans:
            raise common.InfraError('driver answered %r for %r' % (ans, _line(case, key, cls, prec)))
        body, mexp = ans.split('#')
        mobs = body.split(';')
        keep = _kept_indices(case, key)
        cands = TEMPS + [op[1] for op in case['ops'] if op[0] in ('T', 'U') and op[1] is not None]
        if case['kind'] in ('qL', 'qC'):
            cands = cands + [case['init'][0]]
        m_seq = [mobs[i] for i in keep]
        r_seq, src = [], None
        for n in range(len(keep)):
            if n > 0 and case['ops'][n - 1][0] == 'fwd':
                f = _flags_after(case, n - 1)
                if cls == 'sn' or not f['d']:           # this forward sampled: remember the logits it saw
                    src = (res['obs'][n][key]['alpha'], res['obs'][n][key]['T'])
            r_seq.append(_canon(res['obs'][n][key], m_seq[n], cands, src))
        # summary(): the index it reports, wherever the object is reported
        for n in range(len(keep)):
            msel = m_seq[n].split('|')[2]
            for rep in res['obs'][n][key]['rep']:
                r = ','.join(str(i) for i in rep)
                if r != msel and len(rep) == len(msel.split(',')):
                    r_seq[n] += ' summary=' + r
        chk.corr({'case': case, 'object': key}, r_seq, m_seq,
                 'sampler/temperature/hard/training | theta per column | arg-max, after construction and every call')
        for ent in res['exp'].get(key, []):
            chk.corr({'case': case, 'object': key, 'export': ent}, _model_export(cls, prec, ent, mexp), mexp,
                     'alternative materialised by export()')
    for case, res in zip(cases, results):
        if 'error' in res:
            chk.violation('C10:crash:%s' % res['error'].split(':')[0],
                          'the implementation raised on a walk of the property\'s alphabet: ' + res['error'],
                          {'kind': 'walk', 'case': case})
            continue
        _oracle(chk, case, res)
        _numeric(chk, case, res)
        nfw = sum(1 for op in case['ops'] if op[0] == 'fwd')
        chk.count(json.dumps(case, sort_keys=True), nontrivial=nfw > 0 and len(case['ops']) >= 2,
                  sample={'kind': case['kind'], 'ops': [_render_op(op, 'q') or 'A:..' for op in case['ops']][:8]},
                  bucket='target=%s' % case['kind'])
        for i, op in enumerate(case['ops']):
            if op[0] == 'fwd':
                f = _flags_after(case, i)
                b = 'forward:%s:h%d:g%d:d%d' % ('train' if f['tr'] else 'eval', f['h'], f['g'], f['d'])
                chk.hist[b] = chk.hist.get(b, 0) + 1
                # how far the logits alpha / T of this forward reach (the softmax saturates beyond ~17, exp()
                # underflows beyond ~87)
                big = 0.0
                for key, cls, prec, _ in res['objs']:
                    o = res['obs'][i + 1][key]
                    for a in o['alpha']:
                        big = max(big, (max(a) - min(a)) / max(o['T'], 1e-9))
                b = 'forward:logit-spread:%s' % ('<=30' if big <= 30 else '30..87' if big <= 87 else '>87')
                chk.hist[b] = chk.hist.get(b, 0) + 1


def run(chk):
    from .. import common
    chk.rule = ('enumerated: every hard/gumbel/disable x train/eval combination on per-layer and per-channel '
                'quantizers (1,2,3,8 alternatives; up to 8x16) and every hard/gumbel x train/eval on combiners '
                '(1,2,4,8 branches); random walks of <= 6 calls over {T, hard, gumbel, disable, several options '
                'at once, train, eval, forward, coefficient write} on stand-alone quantizers/combiners '
                '(1..8 alternatives, 1..16 channels, T in 0.05..20, coefficients in [-1,1], [-5,5] or [-100,100] '
                'with raw gaps >= 0.05, i.e. alpha/T up to +-2000: saturating softmax, enumerated on every run) and on the quantizers / '
                'combiners of small MPS models (per-layer and per-channel; families: residual add = shared '
                'quantizers, a layer invoked twice = its own output quantizer as input quantizer, depthwise '
                'conv sharing its producer\'s quantizers, Conv1d) and SuperNet models; in MPS models every read '
                'of a decision\'s coefficients during a forward is recorded; export() failures are classified by '
                'the layer being exported; non-trivial = at least two calls and one forward; distinct = distinct case')
    chk.assumptions.append('reading: "export() materialises the arg-max alternative" = which precision every decision '
                           '(every channel) ends up under, and that export() returns a network; not the function the '
                           'exported network computes (C02)')
    chk.trusted.append('tie guard on the raw coefficients only (relative gap of alpha / T >= 2.5e-3 in float32); the '
                       'softmax is allowed to saturate: a soft sample is accepted as exactly one-hot only when every '
                       'other logit is >= 87 below the largest (exp underflow); only one-hotness and arg-max are compared')
    chk.trusted.append('torch.argmax returns the first maximal index (documented); Gumbel noise is not modelled '
                       '(only "probability vector" / "one-hot" is compared for Gumbel samples)')
    chk.assumptions.append('reading: the one-hot clause is demanded literally, also with disable_sampling=True')
    chk.prove()
    rng = chk.rng
    q = 1 if chk.quick else 8
    cases = _gen_cases(rng, 1500 * q, 500 * q, 160 * q, 160 * q)
    results = common.pmap(_exec_case, cases)
    _process(chk, cases, results)
    if chk.proof_broken or chk.corr_disagreements:
        # escalate the failing-input search
        more = _gen_cases(rng, 4000 * q, 1500 * q, 300 * q, 300 * q)
        res2 = common.pmap(_exec_case, more)
        for case, res in zip(more, res2):
            if 'error' in res:
                chk.violation('C10:crash:%s' % res['error'].split(':')[0], res['error'], {'kind': 'walk', 'case': case})
            else:
                _oracle(chk, case, res)
                chk.count(json.dumps(case, sort_keys=True), bucket='escalated')
    for key in (K_DISABLED, K_SN_SOFT):
        n = sum(1 for v in chk.violations if v['key'] == key)
        chk.extra['occurrences:' + key] = n


def replay(data):
    import torch
    torch.set_num_threads(1)
    c = data['case']
    case = c['case']
    res = _exec_case(case)
    if 'error' in res:
        print('implementation raised:', res['error'])
        return 1

    class _Rec:
        def __init__(self):
            self.violations = []

        def violation(self, key, what, case):
            self.violations.append((key, what, case))
    rec = _Rec()
    _oracle(rec, case, res)
    hits = [v for v in rec.violations if v[0] == data.get('key')]
    for key, what, cs in hits[:5]:
        print('%s: %s (object %s, after op %s)' % (key, what, cs.get('object'), cs.get('at_op')))
    print('ops:', [_render_op(op, c.get('object', 'q')) or 'A:..' for op in case['ops']])
    return 1 if hits else 0
