"""C07 — importing a model is behaviour-preserving and leaves the user model intact.

proof leg            lean/PlinioVerif/Props/C07.lean (open masks: every feature and tap kept, export
                     plan = identity; BatchNorm fuse/fold algebra).
correspondence leg   export plan of the freshly imported model read back by ID-probing = the model's
                     plan at open masks (every index, original kernel/dilation) on grammar nets.
                     Channel-level integer nets: `seedStep` (OpenSeed.lean) executed on the weights of
                     the imported layers = the user's model(x), `pitStep`/`expStep` at open masks = the
                     same, exactly (Drivers/PITSem.lean).
oracle leg           on grammar nets (BatchNorm after conv/linear, bias on/off, depthwise, two-input
                     forward), fold_bn on/off, model passed in train or eval mode:
                     model(x) = PIT(model)(x) = PIT(model).export()(x) in eval mode; exported
                     architecture = original; parameters and outputs of the user's object unchanged;
                     PIT keeps the training/eval mode it found (wrapper and seed).  SuperNet: the
                     wrapped model and the user's object agree and the user's parameters are intact.
"""
import warnings

import torch
import torch.nn as nn

from .. import common, pitauto, pitcheck, pitsem


def _supernet_case(seed):
    """SuperNet import on a small hand-rolled family of supernets (worker function)."""
    warnings.filterwarnings('ignore')
    torch.set_num_threads(1)
    import random
    from plinio.methods import SuperNet
    from plinio.methods.supernet import SuperNetModule
    rng = random.Random(seed)
    torch.manual_seed(seed)
    c = rng.choice([3, 4])

    def block(cin, cout):
        br = [nn.Conv2d(cin, cout, 3, padding=1), nn.Conv2d(cin, cout, 1),
              nn.Sequential(nn.Conv2d(cin, cin, 3, padding=1, groups=cin), nn.Conv2d(cin, cout, 1))]
        if cin == cout:
            br.append(nn.Identity())
        rng.shuffle(br)
        return SuperNetModule(br[:rng.randint(2, len(br))])

    class Net(nn.Module):
        def __init__(self):
            super().__init__()
            self.stem = nn.Conv2d(3, c, 3, padding=1)
            self.b1 = block(c, c)
            self.bn = nn.BatchNorm2d(c)
            self.b2 = block(c, 5)
            self.fc = nn.Linear(5 * 6 * 6, 3)

        def forward(self, x):
            x = torch.relu(self.stem(x))
            x = torch.relu(self.bn(self.b1(x)))
            x = torch.relu(self.b2(x))
            return self.fc(torch.flatten(x, 1))
    out = {'seed': seed}
    try:
        train_mode = rng.random() < .5
        net = Net()
        with torch.no_grad():
            net.bn.running_mean.normal_()
            net.bn.running_var.uniform_(.5, 1.5)
        x = torch.randn(2, 3, 6, 6)
        net.eval()
        with torch.no_grad():
            y0 = net(x)
        net.train(train_mode)
        state0 = {k: v.clone() for k, v in net.state_dict().items()}
        sn = SuperNet(net, input_shape=(3, 6, 6))
        out['mode'] = (sn.training, train_mode)
        sn.eval()
        with torch.no_grad():
            y1 = sn(x)
        out['diff'] = None if torch.allclose(y0, y1, atol=2e-4, rtol=2e-4) else float((y0 - y1).abs().max())
        out['changed'] = [k for k, v in net.state_dict().items() if k in state0 and not torch.equal(v, state0[k])]
        net.eval()
        with torch.no_grad():
            out['user_output_changed'] = not torch.equal(net(x), y0)
    except Exception as ex:
        out['error'] = '%s: %s' % (type(ex).__name__, str(ex)[:160])
    return out


def run(chk):
    chk.rule = ('random grammar nets (supported topologies; BatchNorm after conv/linear, bias on/off, depthwise, two inputs, '
                'exclusions) x fold_bn on/off x model passed in train/eval mode, imported with PIT and exported at once; '
                'plus a family of SuperNets (2..4 branches per block). non-trivial = the net has a BatchNorm to fuse/fold, '
                'a depthwise layer or a shared mask; distinct = distinct programs')
    chk.trusted.append('torch kernels (rsqrt vs 1/sqrt rounding of the BatchNorm fold is float, compared with tolerance)')
    chk.assumptions.append('"keep the training/eval mode they found" is checked on the wrapper and its seed; the user\'s own root '
                           'module is left in eval mode by all converters (reported as an observation)')
    chk.prove()
    n = 40 if chk.quick else 600
    specs = pitcheck.specs_for(chk, n, {'excl': True, 'p_excl': .2, 'unsupported': False, 'train_mode': 'mix',
                                        'styles': ['open'], 'reuse': True})
    for r, assigns in pitcheck.run_nets(chk, specs):
        if r.get('harness_error'):
            raise RuntimeError('harness error on %s: %s %s' % (r['spec'], r['harness_error'], r.get('tb')))
        cid = dict(pitcheck.case_id(r), kind='net')
        if r.get('construct_error'):
            chk.violation('C07:' + pitcheck.raise_kind(r), 'PIT() raises: ' + r['construct_error'], cid)
            continue
        prog = r['prog']
        chk.count(tuple(prog) + (r['spec']['fold_bn'], r['spec']['train_mode']),
                  nontrivial=('bn' in prog or 'dw' in prog or 'add' in prog),
                  bucket='fold_bn=%d,train=%d' % (int(r['spec']['fold_bn']), int(r['spec']['train_mode'])),
                  sample={'prog': prog, 'fold_bn': r['spec']['fold_bn'], 'train_mode': r['spec']['train_mode']})
        if r.get('import_diff'):
            chk.violation('C07:import-changes-function' + (':fold_bn' if r['spec']['fold_bn'] else ''),
                          'PIT(model) differs from model in eval mode: ' + r['import_diff'], cid)
        if r.get('export0_diff'):
            chk.violation('C07:export-at-once-changes-function', 'export() right after import differs from the model: ' + r['export0_diff'], cid)
        if r.get('export0_arch_diff'):
            chk.violation('C07:export-at-once-changes-architecture', 'layer shapes differ: %s' % (r['export0_arch_diff'][:2],), cid)
        if r.get('user_params_changed'):
            chk.violation('C07:user-parameters-changed', 'conversion altered %s of the user\'s model' % r['user_params_changed'][:3], cid)
        m = r.get('mode_after_import')
        if m and (m['wrapper'] != m['expected'] or m['seed'] != m['expected']):
            chk.violation('C07:mode-not-kept', 'model passed in %s mode, wrapper.training=%s seed.training=%s'
                          % ('train' if m['expected'] else 'eval', m['wrapper'], m['seed']), cid)
        if m and m.get('modules_off') and m['wrapper'] == m['expected']:
            chk.violation('C07:mode-not-kept:submodules', 'model passed in %s mode, the wrapper reports that mode, but these modules of '
                          'it are in the other one: %s' % ('train' if m['expected'] else 'eval', m['modules_off']), cid)
        if r.get('import_diff_as_returned') and not r.get('import_diff'):
            chk.violation('C07:import-changes-function:as-returned', 'model passed in eval mode: the wrapper as returned by PIT() (which '
                          'reports eval mode) differs from the model: %s; after .eval() it agrees' % r['import_diff_as_returned'], cid)
        for a, head, rows in assigns:
            if 'err' in head or not a.get('assign_done'):
                continue
            pi, pm = pitcheck.plan_rows(r, a, head, rows)
            chk.corr(pitcheck.case_id(r, a), pi, pm, 'export plan at open masks (identity) by ID-probing')
            for node, pl in (a.get('plan') or {}).items():
                if pl and pl['regular'] and pl['okept'] != list(range(len(pl['okept']))):
                    chk.violation('C07:export-at-once-drops-features', 'layer n%s keeps %s' % (node, pl['okept']), cid)
    # the semantic model executed: seedStep with the weights read from the *imported* layers (folded or with
    # the BatchNorm as sub-layer) = the user's network; pitStep at open masks = the same values
    results, rows = pitsem.run_sem(chk, pitsem.sem_specs(chk, 40 if chk.quick else 1200, styles=('open',)))
    for r, row, real, mod in rows:
        cid = pitsem.sem_case_id(r, row)
        chk.corr(cid, 'seed=%s pit=%s exp=%s' % (real['seed'], real['pit'], real['exp']),
                 'seed=%s pit=%s exp=%s' % (mod.get('seed'), mod.get('pit'), mod.get('exp')) if 'err' not in mod else mod['err'],
                 'integer-valued execution of seedStep/pitStep/expStep at open masks vs model(x), PIT(model)(x), export()(x)')
        chk.count(('sem', row['request']), nontrivial=bool(r['spec']['fold_bn']) or bool(r.get('standalone_bn')),
                  bucket='sem:open-masks:fold_bn=%s' % r['spec']['fold_bn'])
        if not (real['seed'] == real['pit'] == real['exp']):
            chk.violation('C07:import-changes-function:integer-net', 'model / imported / exported-at-once outputs differ on an '
                          'integer-valued channel-level network (exact comparison): %s' % row['real'], cid)
    # autoconvert_layers=False with user-placed searchable layers
    for o in common.pmap(pitauto.auto_off_case, [(chk.rng.randint(0, 1 << 30), False) for _ in range(16 if chk.quick else 300)]):
        case = {'kind': 'auto_off', 'seed': o['seed']}
        chk.count(('auto_off', o['seed']), nontrivial=any(o.get('with_bn', [])), bucket='autoconvert-off:fold_bn=%s' % o.get('fold_bn'),
                  sample={'autoconvert': False, 'chans': o.get('chans'), 'with_bn': o.get('with_bn'), 'fold_bn': o.get('fold_bn')})
        if o.get('error'):
            chk.violation('C07:autoconvert-off:raises', o['error'], case)
            continue
        if o['import_diff'] is not None:
            chk.violation('C07:autoconvert-off:' + ('folded-bn-applied-twice' if o['fold_bn'] else 'import-changes-function'),
                          'PIT(model, autoconvert_layers=False, fold_bn=%s) differs from the model by %s' % (o['fold_bn'], o['import_diff']), case)
        elif o['export0_diff'] is not None:
            chk.violation('C07:autoconvert-off:export-at-once-changes-function', 'export() right after import differs by %s' % o['export0_diff'], case)
        if o.get('user_output_changed') is not None:
            chk.violation('C07:autoconvert-off:user-model-altered:bn-fused-into-shared-layer',
                          'autoconvert_layers=False: the outputs of the model object the user passed in change by %.3g after the '
                          'conversion (a user-placed PIT layer is shared with the wrapper; the BatchNorm that follows it is fused '
                          'into it in place, so the user\'s own forward applies it twice)' % o['user_output_changed'], case)
    outs = common.pmap(_supernet_case, [chk.rng.randint(0, 1 << 30) for _ in range(12 if chk.quick else 200)])
    for o in outs:
        case = {'kind': 'supernet', 'seed': o['seed']}
        chk.count(('sn', o['seed']), bucket='supernet')
        if o.get('error'):
            chk.violation('C07:supernet:constructor-raises', o['error'], case)
            continue
        if o['diff'] is not None:
            chk.violation('C07:supernet:import-changes-function', 'SuperNet(model) differs from model: %s' % o['diff'], case)
        if o['changed'] or o['user_output_changed']:
            chk.violation('C07:supernet:user-model-altered', 'changed %s, output changed %s' % (o['changed'][:3], o['user_output_changed']), case)
        if o['mode'][0] != o['mode'][1]:
            chk.observe('SuperNet wrapper mode after import %s, model was passed in %s' % (o['mode'][0], o['mode'][1]))


def replay(data):
    case = data['case']
    if case.get('kind') == 'sem':
        r = pitsem.sem_case(case['spec'])
        print(r.get('construct_error') or r.get('export_error') or [x['real'] for x in r['rows']])
        bad = [x for x in r['rows'] if len({kv.split('=')[1] for kv in x['real'].split()}) != 1]
        return 1 if (bad or r.get('export_error') or r.get('construct_error')) else 0
    if case.get('kind') == 'auto_off':
        o = pitauto.auto_off_case((case['seed'], False))
        print(o)
        return 1 if (o.get('error') or o['import_diff'] is not None or o['export0_diff'] is not None) else 0
    if case.get('kind') == 'supernet':
        o = _supernet_case(case['seed'])
        print(o)
        return 1 if (o.get('error') or o['diff'] is not None or o['changed'] or o['user_output_changed']) else 0
    from .. import pitcase
    spec = {'seed': case['seed'], 'dim': case['dim'], 'opts': case['opts'], 'fold_bn': case['fold_bn'],
            'excl_mode': case['excl_mode'], 'styles': ['open'], 'full_cost': case.get('full_cost'),
            'train_mode': case.get('train_mode'), 'extra_costs': []}
    r = pitcase.run_case(spec)
    keys = ('construct_error', 'import_diff', 'export0_diff', 'export0_arch_diff', 'user_params_changed', 'mode_after_import')
    print({k: r.get(k) for k in keys})
    m = r.get('mode_after_import') or {}
    bad = any(r.get(k) for k in keys[:5]) or (m and (m['wrapper'] != m['expected'] or m['seed'] != m['expected']))
    return 1 if bad else 0
