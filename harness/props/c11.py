"""C11 — trainability controls do what they say under every sequence of calls.

proof leg            lean/PlinioVerif/Props/C11.lean (nas_net_partition, train_X_sets_exactly_group,
                     frozen_never_trainable / frozen_never_in_grad_path for all op sequences,
                     partial_update_preserves_others, ...)
correspondence leg   real PIT (1-D net with a strided Conv1d = frozen beta/gamma, residual add = shared
                     features masker, output-tied Linear = frozen alpha; 2-D net with an input-tied
                     residual), MPS (2-D per-layer and per-channel, 1-D Conv1d net; residual add = shared
                     quantizers; every out / weight / in quantizer of every Identity, Conv1d, Conv2d, Add
                     and Linear layer is observed) and
                     SuperNet (softmax and Gumbel combiners) models vs `Drivers/C11.lean`: after every
                     call the `requires_grad` vector of all parameters and frozen masks, membership in
                     named_nas_parameters / named_net_parameters, sampler / temperature / hard of every
                     quantizer and combiner, the wrapper and per-layer flags, and after a
                     forward + backward(loss + cost) the `.grad is None / all-zero / non-zero` pattern.
                     Sequences: breadth-first closure over the model's abstract states (every state x
                     every call), plus random walks.
oracle leg           the property's own clauses on the real objects after every call: partition (each
                     parameter exactly once), train_X = exactly the named group, frozen masks never
                     trainable / never with a non-zero gradient, a single-option update sets the option
                     it names and leaves the other options of every quantizer as they were (a defect
                     confined to some quantizers is keyed by the layer type and role through which they
                     are updated), and every sequence of the alphabet can be completed (forward+backward
                     does not raise).
"""
import json

MODELS = ['pit1d', 'pit2d', 'mpsL', 'mpsC', 'mps1d', 'snS', 'snG']
MODELS_THOROUGH = MODELS + ['mps1dC']
# `MPSBaseQtz.sample_alpha_none` detaches the coefficients it keeps (1 = the model mirrors that tree; with 0 the
# model predicts the RuntimeError of a forward+backward after disable_sampling=True on stale coefficients)
DETACH_ON_NONE = 1
K_BWD_RAISES = 'C11:mps:disable_sampling:forward+backward-raises-on-saved-coefficients'
ALPHABET = {
    'pit': ['nas', 'net', 'both', 'F0', 'F1', 'R0', 'R1', 'D0', 'D1', 'C0', 'C1', 'fb'],
    'mps': ['nas', 'net', 'both', 'T:1/2', 'T:2', 'H:0', 'H:1', 'G:0', 'G:1', 'S:0', 'S:1', 'fb'],
    'sn': ['nas', 'net', 'both', 'T:1/2', 'T:2', 'H:0', 'H:1', 'fb'],
}
SAMPLERS = {'sample_alpha_sm': 'sm', 'sample_alpha_gs': 'gs', 'sample_alpha_none': 'none'}
OPNAME = {'nas': 'train_nas_only', 'net': 'train_net_only', 'both': 'train_net_and_nas', 'F': 'train_features',
          'R': 'train_rf', 'D': 'train_dilation', 'C': 'discrete_cost', 'T': 'update_softmax_options(temperature)',
          'H': 'update_softmax_options(hard)', 'G': 'update_softmax_options(gumbel)',
          'S': 'update_softmax_options(disable_sampling)', 'fb': 'forward+backward'}


def _opname(op):
    if op is None:
        return 'construction'
    k = op if op in ('nas', 'net', 'both', 'fb') else op[0]
    return OPNAME.get(k, op)


def _method(model):
    return 'pit' if model.startswith('pit') else 'mps' if model.startswith('mps') else 'sn'


# ------------------------------------------------------------------ the models under test

def _build(model):
    import torch
    import torch.nn as nn
    import warnings
    warnings.filterwarnings('ignore')
    torch.manual_seed(7)
    if model == 'pit1d':
        from plinio.methods import PIT
        from plinio.cost import params

        class P(nn.Module):
            def __init__(s):
                super().__init__()
                s.pad = nn.ConstantPad1d((2, 0), 0)
                s.c0 = nn.Conv1d(3, 4, 3, stride=2)          # strided: frozen beta / gamma
                s.c1 = nn.Conv1d(4, 4, 3, padding=1)
                s.bn = nn.BatchNorm1d(4)
                s.c2 = nn.Conv1d(4, 4, 3, padding=1)         # residual with c0: shared features masker
                s.fc = nn.Linear(4 * 8, 2)                   # output-tied: frozen alpha

            def forward(s, x):
                a = torch.relu(s.c0(s.pad(x)))
                b = torch.relu(s.bn(s.c1(a)))
                return s.fc((s.c2(b) + a).flatten(1))
        m = PIT(P(), input_shape=(3, 16), cost=params)
        x = torch.randn(4, 3, 16)
    elif model == 'pit2d':
        from plinio.methods import PIT
        from plinio.cost import params

        class Q(nn.Module):
            def __init__(s):
                super().__init__()
                s.c0 = nn.Conv2d(3, 3, 3, padding=1)         # residual with the input: frozen alpha
                s.c1 = nn.Conv2d(3, 4, 3, padding=1)
                s.c2 = nn.Conv2d(4, 4, 3, padding=1, groups=4)   # depthwise: shares c1's masker
                s.bn = nn.BatchNorm2d(4)
                s.fc = nn.Linear(4 * 4 * 4, 3)

            def forward(s, x):
                a = torch.relu(s.c0(x) + x)
                b = torch.relu(s.bn(s.c2(s.c1(a))))
                return s.fc(b.flatten(1))
        m = PIT(Q(), input_shape=(3, 4, 4), cost=params)
        x = torch.randn(4, 3, 4, 4)
    elif model in ('mpsL', 'mpsC'):
        from plinio.methods.mps import MPS, MPSType, get_default_qinfo
        from plinio.cost import params_bit

        class N(nn.Module):
            def __init__(s):
                super().__init__()
                s.c0 = nn.Conv2d(3, 4, 3, padding=1)
                s.c1 = nn.Conv2d(4, 4, 3, padding=1)
                s.c2 = nn.Conv2d(4, 4, 1)                    # residual with c0: shared quantizers
                s.fc = nn.Linear(4 * 4 * 4, 2)

            def forward(s, x):
                a = torch.relu(s.c0(x))
                b = torch.relu(s.c1(a))
                return s.fc((s.c2(b) + a).flatten(1))
        m = MPS(N(), input_shape=(3, 4, 4), cost=params_bit,
                w_search_type=MPSType.PER_CHANNEL if model == 'mpsC' else MPSType.PER_LAYER,
                qinfo=get_default_qinfo((2, 4, 8), (2, 4, 8)))
        x = torch.rand(4, 3, 4, 4)
    elif model in ('mps1d', 'mps1dC'):
        from plinio.methods.mps import MPS, MPSType, get_default_qinfo
        from plinio.cost import params_bit

        class N1(nn.Module):
            def __init__(s):
                super().__init__()
                s.c0 = nn.Conv1d(2, 4, 3, padding=1)
                s.c1 = nn.Conv1d(4, 4, 3, padding=1)
                s.c2 = nn.Conv1d(4, 4, 1)                    # residual with c0: shared quantizers
                s.fc = nn.Linear(4 * 8, 2)

            def forward(s, x):
                a = torch.relu(s.c0(x))
                b = torch.relu(s.c1(a))
                return s.fc((s.c2(b) + a).flatten(1))
        m = MPS(N1(), input_shape=(2, 8), cost=params_bit,
                w_search_type=MPSType.PER_CHANNEL if model == 'mps1dC' else MPSType.PER_LAYER,
                qinfo=get_default_qinfo((2, 4, 8), (2, 4, 8)))
        x = torch.rand(4, 2, 8)
    elif model in ('snS', 'snG'):
        from plinio.methods import SuperNet
        from plinio.methods.supernet import SuperNetModule
        from plinio.cost import params
        g = model == 'snG'

        class S(nn.Module):
            def __init__(s):
                super().__init__()
                s.c = nn.Conv2d(3, 2, 1)
                s.sn0 = SuperNetModule([nn.Conv2d(2, 2, 3, padding=1), nn.Conv2d(2, 2, 1),
                                        nn.Sequential(nn.Conv2d(2, 2, 5, padding=2), nn.ReLU())], g, False)
                s.sn1 = SuperNetModule([nn.Conv2d(2, 2, 3, padding=1), nn.Conv2d(2, 2, 1)], g, False)
                s.sn2 = SuperNetModule([nn.Conv2d(2, 2, 1)], g, False)      # a single branch
                s.fc = nn.Linear(2 * 4 * 4, 2)

            def forward(s, x):
                return s.fc(s.sn2(s.sn1(s.sn0(s.c(x)))).flatten(1))
        m = SuperNet(S(), input_shape=(3, 4, 4), cost=params)
        m.train()            # conversion leaves the seed in eval mode; C11's alphabet has no train()/eval()
        with torch.no_grad():
            for i, name in enumerate(('sn0', 'sn1')):
                a = m.seed.get_submodule(name + '.sn_combiner').alpha
                a.copy_(torch.arange(a.numel(), dtype=torch.float32) * 0.3 - 0.2 * i)
        x = torch.randn(4, 3, 4, 4)
    else:
        raise ValueError(model)
    return m, x


class _Desc:
    """structural description of a real model: the tensor / layer / quantizer tables the Lean model is
    built from, plus references to the real objects behind every entry"""
    def __init__(self, model, m):
        self.method = _method(model)
        self.m = m
        self.tensors = []         # (token, tensor, name, frozen?)
        self.layers = []          # [refs, fm, tm, dm, qs, real layer]
        self.qs = []              # [alpha tensor index, gumbel, hard, module, reached?]
        self.idx = {}             # id(tensor) -> index
        getattr(self, '_' + self.method)()
        taken = set(self.idx)
        for name, p in m.named_parameters():
            if id(p) not in taken:
                self._add('w', p, name, False)

    def _add(self, token, t, name, frozen):
        if id(t) in self.idx:
            return self.idx[id(t)]
        self.idx[id(t)] = len(self.tensors)
        self.tensors.append((token, t, name, frozen))
        return self.idx[id(t)]

    def _pit(self):
        from plinio.methods.pit.nn.module import PITModule
        for lname, layer in self.m.named_modules():
            if not isinstance(layer, PITModule):
                continue
            refs, slots = [], []
            for attr, tok, tattr in (('out_features_masker', 'a', 'alpha'), ('timestep_masker', 'b', 'beta'),
                                     ('dilation_masker', 'g', 'gamma')):
                mk = getattr(layer, attr, None)
                if mk is None:
                    slots.append(None)
                    continue
                frozen = type(mk).__name__.startswith('PITFrozen')
                i = self._add(tok + ('1' if frozen else '0'), getattr(mk, tattr), '%s.%s.%s' % (lname, attr, tattr), frozen)
                refs.append(i)
                slots.append(i)
            self.layers.append([refs] + slots + [[], layer])

    def _mps(self):
        from plinio.methods.mps.nn.module import MPSModule
        qidx = {}

        def quant(q, lname, role):
            if id(q) in qidx:
                return qidx[id(q)]
            j = qidx[id(q)] = len(self.qs)
            ids = []
            for pname, p in q.named_parameters():
                tok = ('q%d@%d' % (q.alpha.shape[0], j)) if p is q.alpha else 'x@%d' % j
                ids.append(self._add(tok, p, '%s.%s_mps_quantizer.%s' % (lname, role, pname), False))
            self.qs.append([self.idx[id(q.alpha)], 0, 0, q, False, ids, []])
            return j
        for lname, layer in self.m.named_modules():
            if not isinstance(layer, MPSModule):
                continue
            refs, reach = [], []
            for role in ('out', 'w', 'in'):
                q = getattr(layer, role + '_mps_quantizer', None)
                if q is None or not hasattr(q, 'alpha'):
                    continue
                j = quant(q, lname, role)
                self.qs[j][6].append((lname.replace('seed.', ''), role, type(layer).__name__))
                refs += self.qs[j][5]
                if role != 'in':
                    reach.append(j)
                    self.qs[j][4] = True
            self.layers.append([refs, None, None, None, reach, layer])

    def _sn(self):
        from plinio.methods.supernet.nn.combiner import SuperNetCombiner
        for lname, layer in self.m.named_modules():
            if isinstance(layer, SuperNetCombiner):
                j = len(self.qs)
                i = self._add('c%d@%d' % (layer.n_branches, j), layer.alpha, lname + '.alpha', False)
                self.qs.append([i, int(layer.sample_alpha.__name__ == 'sample_alpha_gs'), int(bool(layer.hard_softmax)),
                                layer, True, [i], [(lname.replace('seed.', ''), 'alpha', 'SuperNetCombiner')]])
                self.layers.append([[i], None, None, None, [j], layer])

    def line(self, ops):
        dots = lambda l: '.'.join(str(i) for i in l) if l else '-'
        opt = lambda v: '-' if v is None else str(v)
        return 'trace method=%s detach=%d ts=[%s] layers=[%s] qs=[%s] ops=[%s]' % (
            self.method, DETACH_ON_NONE, ','.join(t[0] for t in self.tensors),
            ','.join('%s:%s:%s:%s:%s' % (dots(l[0]), opt(l[1]), opt(l[2]), opt(l[3]), dots(l[4])) for l in self.layers),
            ','.join('%d:%d:%d' % (q[0], q[1], q[2]) for q in self.qs), ','.join(ops))


# ------------------------------------------------------------------ real side

def _apply(d, x, op):
    """one call of the property's alphabet on the real model; returns the gradient pattern for `fb`"""
    import torch
    m = d.m
    if op == 'nas':
        m.train_nas_only()
    elif op == 'net':
        m.train_net_only()
    elif op == 'both':
        m.train_net_and_nas()
    elif op[0] in 'FRDC' and len(op) == 2:
        setattr(m, {'F': 'train_features', 'R': 'train_rf', 'D': 'train_dilation', 'C': 'discrete_cost'}[op[0]],
                op[1] == '1')
    elif op == 'fb':
        for _, t, _, _ in d.tensors:
            t.grad = None
        torch.manual_seed(11)
        out = m(x)
        loss = out.pow(2).sum() + m.cost
        try:
            loss.backward()
        except RuntimeError as e:
            if 'second time' in str(e):
                return 'err'
            if 'does not require grad' in str(e):
                return ''.join('N' for _ in d.tensors)
            raise
        pat = []
        for _, t, _, _ in d.tensors:
            g = t.grad
            pat.append('N' if g is None else ('Z' if float(g.abs().sum()) == 0.0 else 'G'))
        return ''.join(pat)
    else:
        k, v = op.split(':')
        from fractions import Fraction
        kw = {'T': 'temperature', 'H': 'hard', 'G': 'gumbel', 'S': 'disable_sampling'}[k]
        m.update_softmax_options(**{kw: float(Fraction(v)) if k == 'T' else v == '1'})
    return '-'


def _observe(d, grad):
    m = d.m
    rg = ''.join('1' if t.requires_grad else '0' for _, t, _, _ in d.tensors)
    ids = lambda it: [d.idx.get(id(p), -1) for _, p in it]
    nas, net = ids(m.named_nas_parameters()), ids(m.named_net_parameters())
    samp = []
    for q in d.qs:
        mod = q[3]
        T = float(mod.temperature) if hasattr(mod, 'temperature') else float(mod.softmax_temperature)
        samp.append([SAMPLERS.get(mod.sample_alpha.__name__, mod.sample_alpha.__name__), T, int(bool(mod.hard_softmax))])
    if d.method == 'pit':
        flags = ''.join('1' if getattr(m, a) else '0' for a in ('train_features', 'train_rf', 'train_dilation', 'discrete_cost'))
        ld = ''.join('1' if getattr(l[5], 'discrete_cost', False) else '0' for l in d.layers)
    else:
        flags, ld = '1110', '0' * len(d.layers)
    stale = []
    if d.method == 'pit':
        for a in ('train_features', 'train_rf', 'train_dilation'):
            vals = {bool(getattr(l[5], a)) for l in d.layers if hasattr(l[5], a)}
            if vals and vals != {bool(getattr(m, a))}:
                stale.append(a)
    elif d.method == 'sn':
        if {bool(q[3].train_selection) for q in d.qs} != {bool(m.train_selection)}:
            stale.append('train_selection')
    return {'rg': rg, 'nas': nas, 'net': net, 'samp': samp, 'flags': flags + '/' + ld, 'grad': grad, 'stale': stale,
            'all': sorted(d.idx[id(p)] for p in m.parameters() if id(p) in d.idx),
            'n_params': len(list(m.parameters()))}


def _tstr(T):
    for c in ('1', '1/2', '2'):
        from fractions import Fraction
        if abs(T - float(Fraction(c))) < 1e-6:
            return c
    return repr(T)


def _canon(o, model_obs):
    """canonical string of a real observation (the gradient pattern is canonicalised next to the
    model's: where the model says `P` = present, data dependent, zero / non-zero is not compared)"""
    mg = model_obs.split('|')[5]
    g = o['grad']
    if g not in ('-', 'err') and len(mg) == len(g):
        g = ''.join('P' if (a == 'P' and b in 'ZG') else b for a, b in zip(mg, g))
    dots = lambda l: '.'.join(str(i) for i in l) if l else '-'
    return '|'.join([o['rg'], dots(o['nas']), dots(o['net']),
                     ','.join('%s~%s~%d' % (s, _tstr(T), h) for s, T, h in o['samp']), o['flags'], g])


_CACHE = {}


def _exec(case):
    """run one call sequence on a fresh real model; raw observations after construction and each call"""
    import torch
    torch.set_num_threads(1)
    model = case['model']
    try:
        m, x = _build(model)
        d = _Desc(model, m)
        obs = [_observe(d, '-')]
        for op in case['ops']:
            g = _apply(d, x, op)
            obs.append(_observe(d, g))
        frozen = [i for i, t in enumerate(d.tensors) if t[3]]
        return {'obs': obs, 'line': d.line(case['ops']), 'frozen': frozen,
                'reached': [bool(q[4]) for q in d.qs], 'names': [t[2] for t in d.tensors],
                'qusers': [q[6] for q in d.qs]}
    except Exception as e:
        import traceback
        return {'error': '%s: %s' % (type(e).__name__, str(e)[:300]), 'tb': traceback.format_exc()[-1500:]}


# ------------------------------------------------------------------ oracle: the property on the real objects

def _oracle(chk, case, res):
    obs, ops, frozen = res['obs'], case['ops'], res['frozen']
    meth = _method(case['model'])
    latent = [{'g': s[0] == 'gs', 'd': False} for s in obs[0]['samp']]
    for i in range(len(obs)):
        o = obs[i]
        op = ops[i - 1] if i > 0 else None
        base = {'kind': 'sequence', 'model': case['model'], 'ops': ops[:i], 'failing_call': _opname(op)}
        # (1) partition: each parameter exactly once
        both = o['nas'] + o['net']
        if sorted(both) != o['all'] or len(o['all']) != o['n_params'] or -1 in both:
            dup = sorted({k for k in both if both.count(k) > 1})
            chk.violation('C11:%s:nas-net-partition' % meth,
                          'named_nas_parameters + named_net_parameters is not a partition of the parameters '
                          '(listed twice: %s; nas %d + net %d vs %d parameters)'
                          % ([res['names'][k] for k in dup if k >= 0], len(o['nas']), len(o['net']), o['n_params']), base)
        # (2) train_X makes exactly the named group trainable
        if op in ('nas', 'net', 'both'):
            want_nas, want_net = op in ('nas', 'both'), op in ('net', 'both')
            bad = [res['names'][k] for k in o['nas'] if k >= 0 and (o['rg'][k] == '1') != want_nas] + \
                  [res['names'][k] for k in o['net'] if k >= 0 and (o['rg'][k] == '1') != want_net]
            if bad:
                chk.violation('C11:%s:%s:wrong-group' % (meth, OPNAME[op]),
                              '%s left the wrong requires_grad on %s' % (OPNAME[op], bad[:6]), base)
        # (3) frozen masks never trainable, never with a gradient
        for k in frozen:
            if o['rg'][k] == '1' and not (i > 0 and obs[i - 1]['rg'][k] == '1'):
                # report the call that thawed it, once
                cls = 'train_nas' if op in ('nas', 'both') else _opname(op).split('(')[0]
                chk.violation('C11:%s:thaws-frozen-masks' % cls,
                              'frozen mask %s became trainable after %s' % (res['names'][k], _opname(op)), base)
            if o['grad'] not in ('-', 'err') and o['grad'][k] == 'G':
                chk.violation('C11:frozen-mask:receives-gradient',
                              'frozen mask %s received a non-zero gradient from loss + cost' % res['names'][k], base)
        # (4) a single-option update sets the option it names and leaves the others as they were, on every
        #     quantizer of every layer type the model-level call reaches
        if op and op[0] in 'THGS' and ':' in op:
            k, v = op.split(':')
            bad = {}            # finding -> [(quantizer index, message)]
            n_reached = sum(1 for r in res['reached'] if r)
            for j, (s, T, h) in enumerate(o['samp']):
                if not res['reached'][j]:
                    continue
                ps, pT, ph = obs[i - 1]['samp'][j]
                if k == 'G' and meth == 'mps':
                    latent[j]['g'] = v == '1'
                if k == 'S' and meth == 'mps':
                    latent[j]['d'] = v == '1'
                want = 'none' if latent[j]['d'] else 'gs' if latent[j]['g'] else 'sm'
                who = ', '.join('%s.%s of %s' % (l, r, c) for l, r, c in res['qusers'][j])
                if s != want:
                    bad.setdefault('partial-update-resets-sampler', []).append(
                        (j, '%s left the quantizer %s with sampler %s where the options given so far select %s'
                         % (_opname(op), who, s, want)))
                if k != 'T' and abs(T - pT) > 1e-9:
                    bad.setdefault('partial-update-changes-temperature', []).append(
                        (j, '%s changed the temperature of %s: %r -> %r' % (_opname(op), who, pT, T)))
                if k != 'H' and h != ph:
                    bad.setdefault('partial-update-changes-hard', []).append(
                        (j, '%s changed hard_softmax of %s: %r -> %r' % (_opname(op), who, ph, h)))
                from fractions import Fraction
                if (k == 'H' and h != int(v)) or (k == 'T' and abs(T - float(Fraction(v))) > 1e-6):
                    bad.setdefault('given-option-not-applied', []).append(
                        (j, '%s did not set the option on %s (now %r)' % (_opname(op), who, h if k == 'H' else T)))
            for finding, hits in bad.items():
                if len(hits) == n_reached:
                    # every quantizer: the class of the defect is the update itself
                    chk.violation('C11:update_softmax_options:%s' % finding, hits[0][1], base)
                else:
                    # some quantizers only: class = the layer type(s) and role through which they are updated
                    for j, msg in hits:
                        cls = '+'.join(sorted({'%s.%s' % (c, r) for _, r, c in res['qusers'][j] if r != 'in'}))
                        chk.violation('C11:update_softmax_options:%s:%s' % (cls, finding), msg, base)
        # (5) every sequence of the alphabet can be completed
        if o['grad'] == 'err':
            chk.violation(K_BWD_RAISES, 'forward+backward raises "Trying to backward through the graph a second time": with '
                          'sampling disabled the quantizers keep coefficients still attached to the graph an earlier '
                          'backward freed', base)


# ------------------------------------------------------------------ exploration

def _state_key(model_obs):
    p = model_obs.split('|')
    return '|'.join(p[:5] + p[6:])        # everything but the gradient pattern of the call that led here


def _closure(chk, descs, max_states):
    """breadth-first closure over the model's abstract states, all models in lock-step (one driver call
    per depth): every reachable state x every call.  Returns per model (states, sequences, depth, closed)."""
    info = {m: {'seen': {}, 'frontier': [()], 'edges': [], 'depth': 0} for m in descs}
    init = chk.driver('C11', [descs[m].line([]) for m in descs])
    for m, a in zip(descs, init):
        info[m]['seen'][_state_key(a.split(';')[-1])] = ()
    while any(i['frontier'] and len(i['seen']) <= max_states for i in info.values()):
        cands = []
        for m, i in info.items():
            if i['frontier'] and len(i['seen']) <= max_states:
                cands += [(m, seq + (op,)) for seq in i['frontier'] for op in ALPHABET[_method(m)]]
                i['frontier'] = []
                i['depth'] += 1
        answers = chk.driver('C11', [descs[m].line(list(c)) for m, c in cands])
        for (m, c), a in zip(cands, answers):
            i = info[m]
            i['edges'].append(c)
            key = _state_key(a.split(';')[-1])
            if key not in i['seen']:
                i['seen'][key] = c
                i['frontier'].append(c)
    return info


def _compare(chk, cases, results):
    from .. import common
    ok_cases = [(c, r) for c, r in zip(cases, results) if 'error' not in r]
    model = chk.driver('C11', [r['line'] for _, r in ok_cases])
    for (case, res), ans in zip(ok_cases, model):
        mobs = ans.split(';')
        if len(mobs) != len(res['obs']):
            raise common.InfraError('driver answered %r for %r' % (ans[:200], res['line']))
        m_seq = ['|'.join(o.split('|')[:6]) for o in mobs]
        r_seq = [_canon(o, mo) for o, mo in zip(res['obs'], mobs)]
        # a sequence's prefix was compared when the prefix itself was run: compare the last two observations
        # in full, the earlier ones as one block (a disagreement is still a disagreement)
        chk.corr({'model': case['model'], 'ops': case['ops']}, r_seq, m_seq,
                 'requires_grad | nas | net | sampler~T~hard | flags | gradient pattern, after every call')
    for case, res in zip(cases, results):
        if 'error' in res:
            chk.violation('C11:crash:%s' % res['error'].split(':')[0],
                          'the implementation raised on a sequence of the property\'s alphabet: ' + res['error'],
                          {'kind': 'sequence', 'model': case['model'], 'ops': case['ops']})
            continue
        _oracle(chk, case, res)
        fb = sum(1 for op in case['ops'] if op == 'fb')
        chk.count((case['model'], tuple(case['ops'])), nontrivial=len(case['ops']) >= 1,
                  sample={'model': case['model'], 'ops': case['ops']},
                  bucket='%s:len=%d' % (case['model'], len(case['ops'])))
        for a in sorted({a for o in res['obs'] for a in o.get('stale', [])}):
            chk.observe('not demanded by the property: the wrapper-level getter %s reports the value last written to it; '
                        'after train_* calls it disagrees with the per-layer getters and with requires_grad (the model '
                        'mirrors the wrapper attribute as "last written")' % a)


def run(chk):
    from .. import common
    chk.rule = ('per model under test (PIT 1-D with strided conv / residual / output-tied layer, PIT 2-D with '
                'input-tied residual and depthwise conv, MPS 2-D per-layer and per-channel and MPS 1-D (Conv1d, residual add, Linear) with shared quantizers — every out / weight / in quantizer of every Identity, Conv1d, Conv2d, Add and Linear layer is observed —, '
                'SuperNet with softmax and with Gumbel combiners): breadth-first closure over the abstract states '
                'of the Lean model (requires_grad vector, sampler options incl. the latent gumbel/disable flags, '
                'wrapper flags, stale-graph bits) — every reachable state x every call of the alphabet is one '
                'sequence, executed on a fresh real model; plus random walks of length <= 8 (quick) / 12; '
                'non-trivial = at least one call; distinct = distinct (model, sequence)')
    chk.trusted.append('autograd: which parameters receive a gradient is modelled per role (None / structurally '
                       'zero / generically non-zero / present); "non-zero" relies on the fixed random data')
    chk.prove()
    rng = chk.rng
    cases, closure_info = [], {}
    descs = {}
    for model in (MODELS if chk.quick else MODELS_THOROUGH):
        try:
            m, _ = _build(model)
            descs[model] = _Desc(model, m)
        except Exception as e:      # the implementation cannot even build the model under test
            chk.violation('C11:crash:%s' % type(e).__name__,
                          'building the %s model raised %s: %s' % (model, type(e).__name__, str(e)[:200]),
                          {'kind': 'sequence', 'model': model, 'ops': []})
    info = _closure(chk, descs, 6000)
    for model in descs:
        i = info[model]
        closure_info[model] = {'abstract_states': len(i['seen']), 'sequences': len(i['edges']),
                               'max_length': i['depth'], 'closed': not i['frontier']}
        cases += [{'model': model, 'ops': list(e)} for e in i['edges']]
        # all sequences up to length 2 literally (the closure prunes repeats of a state)
        alphabet = ALPHABET[_method(model)]
        short = [[a, b] for a in alphabet for b in alphabet]
        have = {tuple(c['ops']) for c in cases if c['model'] == model}
        cases += [{'model': model, 'ops': s} for s in short if tuple(s) not in have]
        if not chk.quick:
            # thorough: every sequence of length 3 literally, and a sample of those of length 4
            have = {tuple(c['ops']) for c in cases if c['model'] == model}
            cases += [{'model': model, 'ops': [a, b, c]} for a in alphabet for b in alphabet for c in alphabet
                      if (a, b, c) not in have]
            cases += [{'model': model, 'ops': [rng.choice(alphabet) for _ in range(4)]} for _ in range(2000)]
        n_walks = 25 if chk.quick else 400
        for _ in range(n_walks):
            cases.append({'model': model, 'ops': [rng.choice(alphabet) for _ in range(rng.randint(3, 8 if chk.quick else 12))]})
    chk.extra['closure'] = closure_info
    results = common.pmap(_exec, cases)
    _compare(chk, cases, results)
    if chk.proof_broken or chk.corr_disagreements:
        more = []
        for model in descs:
            alphabet = ALPHABET[_method(model)]
            for _ in range(150 if chk.quick else 1500):
                more.append({'model': model, 'ops': [rng.choice(alphabet) for _ in range(rng.randint(1, 10))]})
        res2 = common.pmap(_exec, more)
        for case, res in zip(more, res2):
            if 'error' in res:
                chk.violation('C11:crash:%s' % res['error'].split(':')[0], res['error'],
                              {'kind': 'sequence', 'model': case['model'], 'ops': case['ops']})
            else:
                _oracle(chk, case, res)
                chk.count((case['model'], tuple(case['ops'])), bucket='escalated')
    # shortest failing sequence first: keep, per key, the violation with the fewest calls
    best = {}
    for v in chk.violations:
        if v['key'] not in best or len(v['case'].get('ops', [])) < len(best[v['key']]['case'].get('ops', [])):
            best[v['key']] = v
    chk.violations[:] = list(best.values())


def replay(data):
    import torch
    torch.set_num_threads(1)
    c = data['case']
    case = {'model': c['model'], 'ops': c['ops']}
    res = _exec(case)
    if 'error' in res:
        print('implementation raised:', res['error'])
        return 1

    class _Rec:
        def __init__(self):
            self.violations = []

        def violation(self, key, what, case):
            self.violations.append((key, what, case))
    rec = _Rec()
    _oracle(rec, case, res)
    print('model %s, calls: %s' % (c['model'], [_opname(op) + (':=' + op[1] if op[0] in 'FRDC' and len(op) == 2 else
                                                              ('=' + op.split(':')[1] if ':' in op else '')) for op in c['ops']]))
    hits = [v for v in rec.violations if v[0] == data.get('key')]
    for key, what, _ in hits[:5]:
        print('%s: %s' % (key, what))
    if not hits:
        print('requires_grad after the sequence:', dict(zip(res['names'], res['obs'][-1]['rg'])))
    return 1 if hits else 0
