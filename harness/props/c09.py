"""C09 — every layer sees exactly the alive features of the tensor that reaches it.

proof leg            lean/PlinioVerif/Props/C09.lean
correspondence leg   real PIT objects vs Drivers/PITNet.lean on grammar nets (add, channel concat of
                     2..3 tensors of searchable/fixed/input origin, time-axis concat, flatten and
                     squeeze variants, depthwise chains, exclusion by name/type, two inputs):
                     per searchable layer out mask, in mask, frozen flag, masker-sharing partition,
                     and the export plan read back by ID-probing (which features export keeps).
oracle leg           the property on the real code: reported in-features = exported in-features =
                     alive features of the producer(s); exported network shape-consistent (runs and
                     returns the original output shape) for every mask assignment incl. exclusions.
known findings       K9 residual sum with a concat operand, K10 depthwise fed by a concat
                     (generated on purpose, keyed from the model's `supported` analysis).
"""
from .. import common, pitauto, pitcheck

KEYS = {
    'add-with-concat-operand': 'C09:add-with-concat-operand',
    'depthwise-fed-by-concat': 'C09:depthwise-fed-by-concat',
    'layer-twice-fed-by-concat': 'C09:layer-twice-fed-by-concat',
}


def _oracle(chk, r, a, head, rows):
    """The property itself on the real objects of one assignment."""
    cid = pitcheck.case_id(r, a)
    unsup = pitcheck.unsupported_key(head, r) if (head.get('sup') == '0' or (head.get('sup') is None and r['spec']['opts'].get('unsupported'))) else None
    if a.get('export_error'):
        key = KEYS.get(unsup, 'C09:export-shape-inconsistent' + (':excluded' if r['excl'] else ''))
        chk.violation(key, 'exported network does not run: %s' % a['export_error'], dict(cid, kind='net'))
        return
    if not a.get('out_shape_ok', True):
        chk.violation(KEYS.get(unsup, 'C09:output-shape-changed'), 'exported network returns another shape',
                      dict(cid, kind='net'))
    if a.get('summary_vs_export'):
        chk.violation(KEYS.get(unsup, 'C09:reported-features!=exported-features'),
                      'summary() and the exported layer disagree: %s' % (a['summary_vs_export'][:2],),
                      dict(cid, kind='net'))
    if a.get('export_diff') and unsup:
        # wrong alive *positions* on an unsupported topology (K9): silent wrong export
        chk.violation(KEYS[unsup], 'exported network computes another function: %s' % a['export_diff'],
                      dict(cid, kind='net'))
    # in-features of every layer = alive features of the tensor feeding it: the in mask reported by
    # the layer must be the out mask of its producer chain; checked through the ID-probed plan:
    # exported in-width == number of input features export kept == reported in_features
    for row in a['rows']:
        pl = (a.get('plan') or {}).get(row['node'])
        if pl is None:
            continue
        n_in = row['in'].count('1')
        if pl['in'] != n_in and not pitcheck.is_dw(r, row['node']):
            chk.violation(KEYS.get(unsup, 'C09:in-features!=exported-in-width'),
                          'layer n%d reports %d alive input features, exported with %d' % (row['node'], n_in, pl['in']),
                          dict(cid, kind='net'))


def _calculator_trees(chk, n):
    """plinio/graph/features_calculation.py in isolation: random trees of the real calculator classes against the
    Lean definitions the theorems `calculator_features_eq_alive_mask` / `calculator_mask_length` speak about."""
    from .. import featcalc
    jobs = [featcalc.draw_line(chk.rng.randint(0, 1 << 30)) for _ in range(n)]
    real = common.pmap(featcalc.run_real, jobs)
    model = chk.driver('FeatCalc', [j[0] for j in jobs])
    for o, ans in zip(real, model):
        case = {'kind': 'calculator-tree', 'line': o['line'], 'shared': o['shared']}
        depth = o['line'].count('f ') + o['line'].count('k ')
        chk.count(('fc', o['line'], o['shared']), nontrivial=depth >= 2, bucket='calculator-tree:depth%d' % min(depth, 6))
        if o.get('error'):
            chk.violation('C09:features-calculator:raises', 'a features-calculator tree raises: ' + o['error'], case)
            continue
        chk.corr(case, o['answer'], ans, 'features calculators (count, width, mask) vs the Lean definitions')
        feat = int(o['answer'].split()[0].split('=')[1])
        bits = o['answer'].split('mask=')[1]
        if feat != bits.count('1') or feat != o['structural'] or not o['integral']:
            chk.violation('C09:features-calculator:count!=alive-mask',
                          'features = %d, alive entries of features_mask = %d, by the structure (sum across concat, product '
                          'across flatten) = %d' % (feat, bits.count('1'), o['structural']), case)
        if not o.get('deepcopy_ok', True):
            chk.violation('C09:features-calculator:buffers-lost-by-deepcopy', 'buffers of the registered tree differ after deepcopy', case)


def run(chk):
    chk.rule = ('random grammar nets (1D causal Conv1d and 2D; conv, depthwise, linear, fused BN, relu, pooling, '
                'residual add, channel concat of 2..3 tensors incl. the network input, time-axis concat, flatten '
                'module/function, gap+squeeze, two-input forward, exclusion by name/type/both) x mask assignments '
                '(random dyadic alpha/beta/gamma twice, all parameters at zero); every 6th net is one of the two '
                'unsupported families (known findings). non-trivial = the assignment prunes at least one feature of a '
                'non-frozen masker or the net has a concat/add/exclusion; distinct = distinct (program, masks)')
    chk.trusted.append('torch.fx tracing / ShapeProp and the torch kernels run by the oracle')
    chk.assumptions.append('grammar: BatchNorm only directly after conv/linear (fused), zero padding, eval mode')
    chk.prove()
    n = 36 if chk.quick else 600
    broken = bool(chk.proof_broken)
    specs = pitcheck.specs_for(chk, n, {'excl': True, 'unsupported': True, 'reuse': True})
    results = pitcheck.run_nets(chk, specs)
    n_unsup = 0
    for r, assigns in results:
        if r.get('harness_error'):
            raise RuntimeError('harness error on %s: %s %s' % (r['spec'], r['harness_error'], r.get('tb')))
        if r.get('construct_error'):
            # the only expected constructor failure: depthwise fed by a concat (masker None)
            opts = r['spec']['opts']
            if opts.get('unsupported') == 'dw_cat' and 'AttributeError' in r['construct_error'] and 'NoneType' in r['construct_error']:
                chk.violation(KEYS['depthwise-fed-by-concat'], 'PIT() raises on a depthwise conv fed by a concat: '
                              + r['construct_error'], dict(pitcheck.case_id(r), kind='net'))
                chk.count(('construct', r['spec']['seed']), bucket='unsupported:dw_cat')
                n_unsup += 1
            else:
                chk.violation('C09:' + pitcheck.raise_kind(r), 'PIT() raises on a supported net: ' + r['construct_error'],
                              dict(pitcheck.case_id(r), kind='net'))
            continue
        for a, head, rows in assigns:
            if head.get('err') == 'no-request':
                # a layer invoked twice per forward: not in the bookkeeping model, oracle only
                chk.count((tuple(r['prog']), a['style'], r['spec']['seed']), nontrivial=True, bucket='layer-invoked-twice',
                          sample={'prog': r['prog'], 'style': a['style']})
                _oracle(chk, r, a, head, rows)
                if a.get('export_diff') and not a.get('export_error'):
                    chk.violation('C09:layer-invoked-twice:features-not-tied',
                                  'a layer invoked twice: exported network computes another function (%s): the features of '
                                  'its call sites / of the tensors it is applied to are not the same' % a['export_diff'],
                                  dict(pitcheck.case_id(r, a), kind='net'))
                continue
            if 'err' in head and r['spec']['opts'].get('mlp_res'):
                # residual sum with the flattened network input: a component holding the input (width C) and a layer
                # (width C*L) is outside the model's certificate (one width per component); oracle only
                chk.count((tuple(r['prog']), a['style'], r['spec']['seed']), nontrivial=True, bucket='residual-with-flattened-input',
                          sample={'prog': r['prog'], 'style': a['style']})
                _oracle(chk, r, a, {}, rows)
                if a.get('export_diff') and not a.get('export_error'):
                    chk.violation('C09:residual-with-flattened-input', 'exported network computes another function (%s)' % a['export_diff'],
                                  dict(pitcheck.case_id(r, a), kind='net'))
                continue
            if 'err' in head:
                chk.corr(pitcheck.case_id(r, a), 'ok', head['err'], 'model could not label the program')
                continue
            sup = head.get('sup') == '1'
            nontriv = any('0' in x['out'] for x in a['rows']) or any(o.startswith(('cat', 'add', 'tcat')) for o in r['prog']) or bool(r['excl'])
            chk.count((tuple(r['prog']), a['request']), nontrivial=nontriv,
                      sample={'prog': r['prog'], 'excluded': r['excl'], 'style': a['style'], 'rows': a['rows'][:3]},
                      bucket=('supported' if sup else 'unsupported:' + head.get('why', '?')))
            for o in set(x.split('[')[0] for x in r['prog']):
                chk.hist['op:' + o] = chk.hist.get('op:' + o, 0) + 1
            if r['excl']:
                chk.hist['with-exclusion'] = chk.hist.get('with-exclusion', 0) + 1
            if sup:
                bi, bm = pitcheck.bookkeeping_rows(r, a, head, rows)
                chk.corr(pitcheck.case_id(r, a), bi, bm, 'feature bookkeeping (out/in masks, frozen, sharing partition)')
                if a.get('assign_done'):
                    pi, pm = pitcheck.plan_rows(r, a, head, rows)
                    chk.corr(pitcheck.case_id(r, a), pi, pm, 'export plan (kept out/in features by ID-probing)')
            else:
                n_unsup += 1
            _oracle(chk, r, a, head, rows)
    chk.extra['unsupported_cases'] = n_unsup
    _calculator_trees(chk, 150 if chk.quick else 3000)
    # autoconvert_layers=False: user-placed PIT layers; every conv converted (demanded) and one left plain (K11)
    jobs = [(chk.rng.randint(0, 1 << 30), i % 3 == 0) for i in range(12 if chk.quick else 200)]
    for o in common.pmap(pitauto.auto_off_case, jobs):
        case = {'kind': 'auto_off', 'seed': o['seed'], 'leave_plain': o['leave_plain']}
        chk.count(('auto_off', o['seed'], o['leave_plain']), nontrivial=bool(o.get('pruned')) or o['leave_plain'],
                  bucket='autoconvert-off:' + ('pit-feeds-plain' if o['leave_plain'] else 'all-converted'))
        if o.get('error'):
            chk.violation('C09:autoconvert-off:raises', o['error'], case)
        elif o.get('pruned_error') or o.get('pruned_diff') is not None:
            what = o.get('pruned_error') or 'exported network differs: %s' % o.get('pruned_diff')
            chk.violation('C09:autoconvert-off:' + ('pit-layer-feeds-plain-layer' if o['leave_plain'] else 'export-inconsistent'),
                          'autoconvert_layers=False: ' + what, case)
    if (broken or chk.corr_disagreements) and not chk.violations:
        # escalate the failing-input search
        more = pitcheck.run_nets(chk, pitcheck.specs_for(chk, n * 4, {'excl': True, 'unsupported': False}))
        for r, assigns in more:
            for a, head, rows in assigns:
                chk.count((tuple(r.get('prog', [])), a.get('request')), bucket='escalated')
                if 'err' not in head:
                    _oracle(chk, r, a, head, rows)


def replay(data):
    from .. import pitcase
    case = data['case']
    if case.get('kind') == 'auto_off':
        o = pitauto.auto_off_case((case['seed'], case['leave_plain']))
        print(o)
        return 1 if (o.get('error') or o.get('pruned_error') or o.get('pruned_diff') is not None) else 0
    if case.get('kind') == 'calculator-tree':
        from .. import featcalc
        o = featcalc.run_real((case['line'], case['shared']))
        print(o)
        if o.get('error'):
            return 1
        feat = int(o['answer'].split()[0].split('=')[1])
        return 0 if feat == o['answer'].split('mask=')[1].count('1') == o['structural'] else 1
    spec = {'seed': case['seed'], 'dim': case['dim'], 'opts': case['opts'], 'fold_bn': case['fold_bn'],
            'excl_mode': case['excl_mode'], 'styles': case.get('styles') or ['mixed', 'mixed', 'min'],
            'full_cost': case.get('full_cost'), 'train_mode': case.get('train_mode'),
            'extra_costs': case.get('extra_costs') or []}
    r = pitcase.run_case(spec)
    bad = 0
    print('prog', r.get('prog'), 'excluded', r.get('excl'), r.get('construct_error', ''))
    if r.get('construct_error'):
        bad = 1
    for a in r.get('assign', []):
        print(a['style'], {k: a.get(k) for k in ('export_error', 'export_diff', 'out_shape_ok', 'summary_vs_export')})
        if a.get('export_error') or a.get('export_diff') or a.get('summary_vs_export') or not a.get('out_shape_ok', True):
            bad = 1
    return bad
