"""C20 — precision refinement only promotes channels and never raises the cost.

proof leg            lean/PlinioVerif/Props/C20.lean.  Reassignment: the matrix is binary with at most one
                     precision per channel (all inputs); exactly one whenever the targets sum to the number
                     of channels (all inputs); "meets every count" is FALSE at full strength (negation
                     proved on a 2x2 witness) and proved under the decidable hypothesis `noOverlap` (no
                     channel within the top-`target` of two precisions), where the result is exactly the
                     top-`target` partition.  Search: every evaluated count vector is an upward move of
                     the layer's counts, the applied vector is one and does not cost more than the initial
                     one (any cost function, any precision order, any sizes); two `pinned_...` regression
                     witnesses for the loop as it was before the ordering repair.  One layer end to end:
                     counts = chosen and cost not higher under `noOverlap`; "no channel lower than
                     before" is FALSE even without overlap (witnesses).
correspondence leg   (1) `_reassign_precisions` vs `Drivers/C20.lean` on all score permutations of up to
                     6 (quick) / 8 (thorough) entries and sampled ones up to 4 x 8, each with every
                     composition of the channel count as targets (8 sampled per matrix beyond the
                     exhaustive sizes), plus every call made end to end; the Python class predicate
                     (top-k overlap) is compared with the Lean one on every case.  (2) the sequence of
                     count vectors `optimize_prec_assignment` hands to `_compute_cost`, the vectors it
                     accepts (as printed) and the vector it hands to the reassignment, on per-channel MPS
                     nets with the NE16 cost, vs `refineLayer` given the same cost table.  A layer takes
                     part if every float32 fraction the cost model received is exactly the float32 of
                     (whole channels)/C — true for every layer on the repaired tree.
oracle leg           the property's statement on the real code: (a) every `_reassign_precisions` output
                     is binary, one precision per channel, every count met; (b) end to end on nets of
                     2-4 convs + optional linear head: no channel lower than before, per-layer counts =
                     the counts handed to the reassignment, NE16 cost (eval mode, hard sampling) not
                     higher than before.  The call is preceded by a generated history (constructor with
                     hard_softmax on/off, eval/train mode, alpha written after the last forward pass, an
                     earlier update_softmax_options(hard=True) or an earlier refinement call; some nets with
                     disable_sampling / gumbel_softmax, some with two parallel branches sharing one weight
                     quantizer); the reference (bit-widths and cost before) is always the arg-max
                     assignment of the CURRENT alpha, its cost measured on an identical twin model.
                     Every failure is keyed by a class computed from the failing layer and the call
                     history — see `_e2e_failures` and `reassign_failure`.
"""
import contextlib
import io
import itertools
import json
import math
import random
import re

from .. import common

# ------------------------------------------------------------------------------- class predicates


def topk_sets(best, scores):
    """top-`target` channel lists per precision, by descending score (no ties in generated inputs)"""
    out = []
    for p, row in enumerate(scores):
        k = int(best[p])
        order = sorted(range(len(row)), key=lambda c: -row[c])
        out.append(order[:max(k, 0)])
    return out


def overlap(best, scores):
    """some channel is within the top-`target` of two precisions (= not `noOverlap` of the model)"""
    seen = set()
    for tp in topk_sets(best, scores):
        for c in tp:
            if c in seen:
                return True
            seen.add(c)
    return False


def owner_map(best, scores):
    own = {}
    for p, tp in enumerate(topk_sets(best, scores)):
        for c in tp:
            own.setdefault(c, p)
    return own


def dominates(new, old, order):
    """suffix sums of `new` >= those of `old` in ascending-precision coordinates, equal totals"""
    n = [new[i] for i in order]
    o = [old[i] for i in order]
    if sum(n) != sum(o):
        return False
    return all(sum(n[k:]) >= sum(o[k:]) for k in range(len(n)))


def is_integral(vec, total):
    return all(v == int(v) and v >= 0 for v in vec) and sum(vec) == total


def exact_counts(fracs, C):
    """The channel counts of a vector of float32 fractions if every fraction is exactly the float32
    nearest to k/C for a natural number k and the counts sum to C; else None (float residue)."""
    import numpy as np
    out = []
    for t in fracs:
        k = int(round(t * C))
        if k < 0 or float(np.float32(k) / np.float32(C)) != t:
            return None
        out.append(k)
    return out if sum(out) == C else None


def tie_free(scores):
    """no two equal scores in a row, and a unique maximum in every column (torch leaves ties unspecified)"""
    if any(len(set(r)) != len(r) for r in scores):
        return False
    return all(sorted((row[c] for row in scores), reverse=True)[:2].count(max(row[c] for row in scores)) == 1
               for c in range(len(scores[0])))


def assignment_of(matrix):
    """per channel: index of its single 1, -1 if the column is all zero, -2 if not a valid column"""
    P, C = len(matrix), len(matrix[0]) if matrix else 0
    out = []
    for c in range(C):
        col = [matrix[p][c] for p in range(P)]
        if any(v not in (0, 1) for v in col):
            out.append(-2)
        elif sum(col) == 0:
            out.append(-1)
        elif sum(col) == 1:
            out.append(col.index(1))
        else:
            out.append(-2)
    return out


def reassign_failure(best, scores, matrix):
    """(key, what) if the reassignment clause of the property fails on this output, else None"""
    P, C = len(scores), len(scores[0])
    flat = [v for row in matrix for v in row]
    if len(matrix) != P or any(len(r) != C for r in matrix):
        return 'C20:reassign:shape', 'output shape differs from the score matrix'
    if any(v not in (0, 1) for v in flat):
        return 'C20:reassign:not-binary', 'output matrix has an entry other than 0/1'
    cols = [sum(matrix[p][c] for p in range(P)) for c in range(C)]
    if any(s > 1 for s in cols):
        return 'C20:reassign:channel-with-two-precisions', 'a channel is assigned two precisions'
    rows = [sum(r) for r in matrix]
    if any(s != 1 for s in cols) and sum(int(b) for b in best) == C and all(int(b) >= 0 for b in best):
        # proved impossible for the model (`reassign_each_channel_exactly_one`)
        return ('C20:reassign:channel-without-precision',
                'targets %s sum to the number of channels but %d channel(s) got no precision'
                % ([int(b) for b in best], sum(1 for s in cols if s == 0)))
    if any(s != 1 for s in cols) or rows != [int(b) for b in best]:
        what = ('targets %s: got counts %s, %d channel(s) without precision'
                % ([int(b) for b in best], rows, sum(1 for s in cols if s == 0)))
        if overlap(best, scores):
            return 'C20:reassign:top-k-overlap', what + ' (a channel is top-k for two precisions)'
        return 'C20:reassign:counts-missed-without-overlap', what + ' (no top-k overlap)'
    return None


# ------------------------------------------------------------------------------- reassign leg


def compositions(n, k):
    if k == 1:
        yield (n,)
        return
    for i in range(n + 1):
        for r in compositions(n - i, k - 1):
            yield (i,) + r


def _reassign_cases(chk, scale):
    """(best, rows) with pairwise distinct scores"""
    rng = chk.rng
    max_entries = 6 if chk.quick else 8
    n_samp = (120 if chk.quick else 1200) * scale
    cases = []
    for P in (1, 2, 3, 4):
        for C in (1, 2, 3, 4, 5, 6, 7, 8):
            if P == 1 and C > 3:
                continue                        # one precision: nothing to decide
            vals = list(range(P * C))
            if P * C <= max_entries:
                perms = itertools.permutations(vals)
            else:
                perms = [tuple(rng.sample(vals, len(vals))) for _ in range(n_samp)]
            comps = list(compositions(C, P))
            for perm in perms:
                rows = [list(perm[i * C:(i + 1) * C]) for i in range(P)]
                if P * C <= max_entries:
                    cs = comps
                else:
                    cs = rng.sample(comps, min(len(comps), 8))
                for comp in cs:
                    cases.append((list(comp), rows))
    return cases


def _real_reassign(best, rows):
    import torch
    from plinio.methods.mps import utils as U
    out = U._reassign_precisions(torch.tensor(best, dtype=torch.float32),
                                 torch.tensor(rows, dtype=torch.float32))
    m = out.tolist()
    return [[int(v) if float(v).is_integer() else v for v in r] for r in m]


def _reassign_chunk(chunk):
    import torch
    torch.set_num_threads(1)
    common.use_repo_on_path()
    return [_real_reassign(b, r) for (b, r) in chunk]


def _canon_reassign(best, rows, matrix):
    asg = assignment_of(matrix)
    ok = all(a >= 0 for a in asg) and [sum(r) for r in matrix] == [int(b) for b in best]
    return 'asg=[%s] ov=%d meets=%d' % (','.join(map(str, asg)), int(overlap(best, rows)), int(ok))


def _reassign_line(best, rows):
    return 'reassign best=[%s] scores=[%s]' % (
        ','.join(str(int(b)) for b in best),
        ','.join('[' + ','.join(str(int(v)) for v in r) + ']' for r in rows))


# ------------------------------------------------------------------------------- end-to-end leg

DYADIC = (4, 8, 16, 32, 64)
OTHER = (3, 6, 12, 20, 24, 33, 40, 41, 47, 55)     # 41, 47, 55: float32 (k/C)*C < k for several k


# what precedes the call of optimize_prec_assignment (alpha = the matrix the refinement must work on):
#   forward       alpha written, forward pass                     (theta_alpha reflects alpha)
#   none          alpha written, no forward pass at all since construction
#   stale         other alpha, forward pass, alpha written        (end of a training loop: step after forward)
#   hard-stale    other alpha, update_softmax_options(hard=True), forward pass, alpha written
#   refine-stale  other alpha, forward pass, an earlier optimize_prec_assignment call, alpha written
PRE = ('forward', 'none', 'stale', 'hard-stale', 'refine-stale', 'stale')


def _gen_spec(rng, quick, idx):
    """a small per-channel MPS net: 2-4 convs (1x1 / 3x3) and optionally a linear head"""
    # every order of the precision tuples: the sorting permutation is its own inverse for ascending,
    # descending and single-swap orders only; cyclic orders such as (4,8,2) tell `sorted_indexes` from
    # `inverse_indexes`
    sets = list(itertools.permutations((2, 4, 8))) + list(itertools.permutations((0, 2, 4, 8)))
    if not quick:
        sets += [(2, 8), (8, 2), (4, 8), (0, 8), (8, 0), (0, 4, 8), (8, 0, 4), (4, 8, 0)]
    wp = sets[idx % len(sets)]
    n = rng.randint(2, 4)
    layers = []
    for _ in range(n):
        pool = DYADIC if rng.random() < 0.75 else OTHER
        c = rng.choice(pool)
        if rng.random() < 0.35:
            c = rng.choice((32, 64))           # large 3x3 layers: the search keeps mixed vectors
            k = 3
        else:
            k = rng.choice((1, 3, 3))
        layers.append([c, k])
    spec = {'wp': list(wp), 'layers': layers, 'hw': rng.choice((3, 4, 6)),
            'linear': rng.random() < 0.5, 'alpha_kind': rng.choice(('perm', 'coherent', 'coherent')),
            'seed': rng.randrange(1 << 30)}
    # call history before the refinement (see `_prepare`): sampling option of the constructor, mode,
    # and what happened between the last forward pass and the call
    spec['history'] = {'hard_ctor': rng.random() < 0.5, 'mode': rng.choice(('eval', 'eval', 'train')),
                       'pre': rng.choice(PRE)}
    # constructor options under which the coefficients the refinement reads are not the arg-max of alpha,
    # and a topology in which two layers share one weight quantizer (parallel branches that are summed)
    r = rng.random()
    if r < 0.08:
        spec['history']['option'] = 'disable_sampling'
    elif r < 0.16:
        spec['history']['option'] = 'gumbel'
        spec['history']['mode'] = 'train'
    elif r < 0.30 and len(layers) >= 2:
        spec['residual'] = rng.randrange(1, len(layers))     # convs[i](x) + shorts[i](x), shortcut 1x1
    elif r < 0.38 and 0 not in wp:
        spec['two_inputs'] = True               # forward(x, y) = ... convs[0](x) + aux(y) ..., own quantizers
    elif r < 0.42:
        spec['alpha_scale'] = 1e-9              # coefficients so small that the float32 softmax collapses them
    return spec


def _gen_alpha(rng, kind, P, C, zero_idx=None):
    """integer-valued score matrix with pairwise distinct entries per row and per column"""
    if kind == 'perm':
        vals = list(range(P * C))
        rng.shuffle(vals)
        return [vals[p * C:(p + 1) * C] for p in range(P)]
    # 'coherent': a trained-looking matrix. channel c chose precision pc[c] with strength s[c];
    # its score for another precision q is high if q prefers pc[c] as donor and c chose weakly.
    pc = [rng.randrange(P) for _ in range(C)]
    if rng.random() < 0.3:                      # skewed: most channels on few precisions
        a, b = rng.randrange(P), rng.randrange(P)
        pc = [rng.choice((a, a, b, rng.randrange(P))) for _ in range(C)]
    s = list(range(1, C + 1))
    rng.shuffle(s)
    donor = [rng.randrange(P) for _ in range(P)]
    rows = []
    for q in range(P):
        row = []
        for c in range(C):
            if pc[c] == q:
                row.append(100000 + 10 * s[c])
            elif pc[c] == donor[q]:
                row.append(50000 - 10 * s[c] + q)
            else:
                row.append(10000 - 10 * s[c] + q)
        rows.append(row)
    return rows


def _build(spec, alphas=None, twin=False):
    import torch
    import torch.nn as nn
    import torch.nn.functional as F
    from plinio.methods.mps import MPS, MPSType, get_default_qinfo
    from plinio.cost import ne16_latency

    layers, hw = spec['layers'], spec['hw']

    class Net(nn.Module):
        def __init__(self):
            super().__init__()
            self.convs = nn.ModuleList()
            self.shorts = nn.ModuleDict()
            cin = 3
            for i, (c, k) in enumerate(layers):
                self.convs.append(nn.Conv2d(cin, c, k, padding=k // 2))
                if spec.get('residual') == i:
                    self.shorts[str(i)] = nn.Conv2d(cin, c, 1)
                cin = c
            self.fc = nn.Linear(cin * hw * hw, 4) if spec['linear'] else None
            if spec.get('two_inputs'):
                self.aux = nn.Conv2d(3, layers[0][0], layers[0][1], padding=layers[0][1] // 2)

        def body(self, x, y):
            for i, c in enumerate(self.convs):
                if i == 0 and y is not None:
                    x = F.relu(c(x) + self.aux(y))
                elif str(i) in self.shorts:
                    x = F.relu(c(x) + self.shorts[str(i)](x))
                else:
                    x = F.relu(c(x))
            if self.fc is not None:
                x = self.fc(x.flatten(1))
            return x

        def forward(self, x):
            return self.body(x, None)

    class Net2(Net):
        def forward(self, x, y):
            return self.body(x, y)

    hist = spec.get('history')
    torch.manual_seed(spec['seed'])
    two = bool(spec.get('two_inputs'))
    xs = (torch.zeros(1, 3, hw, hw), torch.zeros(1, 3, hw, hw)) if two else (torch.zeros(1, 3, hw, hw),)
    m = MPS(Net2() if two else Net(), input_example=xs if two else xs[0], cost={'ne16': ne16_latency},
            disable_shared_quantizers=two,
            w_search_type=MPSType.PER_CHANNEL,
            qinfo=get_default_qinfo(tuple(spec['wp']), (8,)),
            hard_softmax=bool(hist and hist['hard_ctor']),
            gumbel_softmax=bool(hist and not twin and hist.get('option') == 'gumbel'),
            disable_sampling=bool(hist and not twin and hist.get('option') == 'disable_sampling'))
    rng = random.Random(spec['seed'])
    rng0 = random.Random(spec['seed'] ^ 0x5A5A5A)
    used, other = {}, {}
    params = [(n[:-len('.w_mps_quantizer.alpha')], p) for n, p in sorted(m.named_nas_parameters(), key=lambda t: t[0])
              if n.endswith('w_mps_quantizer.alpha')]
    first = {}
    for lname, p in params:
        if alphas is not None and lname in alphas:
            used[lname] = alphas[lname]
        else:
            used[lname] = _gen_alpha(rng, spec['alpha_kind'], p.shape[0], p.shape[1])
        other[lname] = _gen_alpha(rng0, spec['alpha_kind'], p.shape[0], p.shape[1])
        if id(p) in first:                      # one parameter under two names (shared weight quantizer)
            used[lname], other[lname] = used[first[id(p)]], other[first[id(p)]]
        first.setdefault(id(p), lname)

    def write(values):
        with torch.no_grad():
            for lname, p in params:
                p.copy_(torch.tensor(values[lname], dtype=torch.float32) * float(spec.get('alpha_scale', 1)))

    if hist is None or twin:
        # reference state: the arg-max assignment of `used`, hard sampling, coefficients refreshed
        write(used)
        m.eval() if (hist is None or hist['mode'] == 'eval') else m.train()
        m.update_softmax_options(hard=True)
        m(*xs)
        return m, used
    m.eval() if hist['mode'] == 'eval' else m.train()
    pre = hist['pre']
    if pre == 'forward':
        write(used)
        m(*xs)
    elif pre == 'none':
        write(used)
    else:
        write(other)
        if pre == 'hard-stale':
            m.update_softmax_options(hard=True)
        m(*xs)
        if pre == 'refine-stale':
            from plinio.methods.mps import utils as U
            try:
                with contextlib.redirect_stdout(io.StringIO()):
                    U.optimize_prec_assignment(m, 'ne16')
            except Exception as e:              # reported by the caller as the refinement raising
                m._c20_prior_error = type(e).__name__ + ': ' + str(e)[:120]
        write(used)                             # e.g. the optimizer step after the last forward pass
    return m, used


def _w_summary(m):
    out = {}
    for k, v in m.summary().items():
        if isinstance(v, dict) and isinstance(v.get('w_precision'), list):
            out[k] = [int(x) for x in v['w_precision']]
    return out


def _run_e2e(spec, alphas=None):
    """Run `optimize_prec_assignment` on the net of `spec` and record everything observable."""
    import torch
    from plinio.methods.mps import utils as U
    m, used = _build(spec, alphas)
    before = _w_summary(m)                      # arg-max assignment of the CURRENT alpha
    if spec.get('history') is None:
        cost_before = float(m.get_cost('ne16').detach())
    else:
        # cost of that assignment, measured on an identical twin so that the model under test is untouched
        tw, _ = _build(spec, used, twin=True)
        assert _w_summary(tw) == before
        cost_before = float(tw.get_cost('ne16').detach())
        del tw
    rec = {'layers': {}, 'order': [], 'saturated': {}}
    if getattr(m, '_c20_prior_error', None):
        rec.update(error=m._c20_prior_error, before=before, cost_before=cost_before, alphas=used)
        return rec
    # float32 softmax saturation: arg-max of softmax(alpha / T) differs from arg-max of alpha (no tie in alpha)
    for lname, _, layer in m._unique_leaf_modules:
        q = getattr(layer, 'w_mps_quantizer', None)
        if q is not None and getattr(q, 'alpha', None) is not None and q.alpha.dim() == 2:
            a = q.alpha.detach()
            rec['saturated'][lname] = bool((torch.softmax(a / q.temperature, 0).argmax(0) != a.argmax(0)).any())
    orig_cc, orig_rr = U._compute_cost, U._reassign_precisions
    state = {'lname': None, 'args': {}}

    def cc(model, layer, arr, cost_fn_map, lname, node):
        r = orig_cc(model, layer, arr, cost_fn_map, lname, node)
        C = layer.w_mps_quantizer.theta_alpha.shape[1]
        L = rec['layers'].setdefault(lname, {'passed_frac': [], 'costs': [], 'C': C,
                                             'precs': [int(p) for p in layer.w_mps_quantizer.precision.tolist()]})
        if lname not in rec['order']:
            rec['order'].append(lname)
        L['passed_frac'].append([float(t) for t in arr])
        L['costs'].append(float(r))
        L['qid'] = id(layer.w_mps_quantizer)
        state['lname'] = lname
        state['args'][lname] = (model, layer, cost_fn_map, lname, node)
        return r

    def rr(best, scores):
        out = orig_rr(best, scores)
        L = rec['layers'].get(state['lname'])
        if L is not None and 'chosen' not in L:
            L['chosen'] = [float(v) for v in best.tolist()]
            L['scores'] = [[float(v) for v in r] for r in scores.tolist()]
            L['out'] = [[float(v) for v in r] for r in out.tolist()]
            # the refinement's own cost model on the vector it chose, in the state it searched in
            a = state['args'][state['lname']]
            with torch.no_grad():
                L['cost_chosen'] = float(orig_cc(a[0], a[1], best.detach() / L['C'], *a[2:]))
        return out

    buf = io.StringIO()
    U._compute_cost, U._reassign_precisions = cc, rr
    err = None
    try:
        with contextlib.redirect_stdout(buf):
            U.optimize_prec_assignment(m, 'ne16')
    except Exception as e:                      # canonicalised: class name only
        err = type(e).__name__ + ': ' + str(e)[:120]
    finally:
        U._compute_cost, U._reassign_precisions = orig_cc, orig_rr
    rec['error'] = err
    rec['before'] = before
    rec['cost_before'] = cost_before
    rec['alphas'] = used
    if err is None:
        rec['after'] = _w_summary(m)
        if (spec.get('history') or {}).get('option'):
            # the model's own coefficients are noisy / frozen: cost of the arg-max assignment on a twin
            now = {n[:-len('.w_mps_quantizer.alpha')]: p.detach().tolist() for n, p in m.named_nas_parameters()
                   if n.endswith('w_mps_quantizer.alpha')}
            tw, _ = _build(spec, now, twin=True)
            rec['cost_after'] = float(tw.get_cost('ne16').detach())
            del tw
        else:
            rec['cost_after'] = float(m.get_cost('ne16').detach())
        with torch.no_grad():
            for lname, args in state['args'].items():
                layer = args[1]
                ta = layer.w_mps_quantizer.theta_alpha.mean(dim=1)
                rec['layers'][lname]['cost_after'] = float(orig_cc(args[0], layer, ta, *args[2:]))
    # accepted configurations as printed ("precisions: [...] ... new: [...]"), per layer
    acc, rep = {}, {}
    for mm in re.finditer(r"\* Layer '([^']+)' cost decreased from \S+ to \S+ with.*?precisions:\s*(\[[^\]]*\])"
                          r".*?new:\s*(\[[^\]]*\])", buf.getvalue(), re.S):
        try:
            pr = [float(x) for x in json.loads(mm.group(2))]
            nw = [float(x) for x in json.loads(mm.group(3))]
        except ValueError:
            continue
        acc.setdefault(mm.group(1), []).append(nw)
        rep[mm.group(1)] = [pr, nw]             # the last configuration reported for the layer
    rec['printed_reported'] = rep
    rec['printed_accepted'] = acc
    mm = re.search(r'Model cost decreased from (\S+) to (\S+)', buf.getvalue())
    rec['printed_total'] = [float(mm.group(1)), float(mm.group(2))] if mm else None
    return rec


def _e2e_worker(spec):
    import torch
    torch.set_num_threads(1)
    common.use_repo_on_path()
    try:
        return _run_e2e(spec)
    except Exception as e:
        return {'infra': type(e).__name__ + ': ' + str(e)[:300]}


def _layer_classes(L, prec_before, prec_after):
    """Class predicates of one layer (all computed from the failing input)."""
    precs, C = L['precs'], L['C']
    order = sorted(range(len(precs)), key=lambda i: precs[i])
    chosen = L['chosen']
    integral = is_integral(chosen, C)
    trunc = [int(v) for v in chosen]             # what `int(best[prec].item())` sees
    scores = L['scores']
    w_before = [sum(1 for b in prec_before if b == p) for p in precs]
    return {
        'ascending': all(precs[i] < precs[i + 1] for i in range(len(precs) - 1)),
        # the chosen counts are whole channels summing to C (else: float32 residue of +-1/C steps)
        'integral': integral,
        # count level: the chosen counts arise from the old ones by upward moves only ...
        'dominates': integral and dominates(trunc, w_before, order),
        # ... and do not cost more than the old ones under the refinement's own cost model
        'search_cost_ok': L.get('cost_chosen', 0) <= L['costs'][0],
        'zero_bit': 0 in precs,
        'overlap': overlap(trunc, scores),
        # the search started from the arg-max counts of the current alpha (else: stale theta_alpha)
        'fresh': exact_counts(L['passed_frac'][0], C) == w_before,
        'w_before': w_before,
        'trunc': trunc,
    }


def _reported_counts(rec, lname, precs, w_before):
    """The configuration the refinement reported last for the layer, in the quantizer's precision
    order; the old counts if it reported none; None if the report cannot be read."""
    rep = rec.get('printed_reported', {}).get(lname)
    if rep is None:
        return list(w_before)
    pr, nw = rep
    nwr = _round_vec(nw)
    if nwr is None or len(pr) != len(nwr) or sorted(pr) != sorted(float(p) for p in precs):
        return None
    return [nwr[pr.index(float(p))] for p in precs]


def _e2e_failures(spec, rec):
    """All failures of the end-to-end clauses: list of (key, what, layer).

    Classes (decidable from the failing layer), in order of precedence:
      stale-counts              the search did not start from the arg-max counts of the current alpha
                                (theta_alpha not refreshed before the search)
                                (key by known cause if the constructor option is disable_sampling, or
                                gumbel_softmax in train mode; else per clause, no known cause)
      float-residue             chosen counts are not whole channels summing to C
      shared-weight-quantizer   the layer shares its weight quantizer with another layer (parallel
                                branches): each layer is refined on its own, the last one wins
      precisions-not-ascending  the count-level search itself went wrong (chosen counts are not an
                                upward move of the old ones / cost more) and the tuple is not ascending
      search-*                  the same with an ascending tuple (no known cause)
      applied-vector-permuted   the vector handed to the reassignment is not the configuration the
                                refinement reported for the layer (counts clause only)
      matrix-not-applied        the layer does not hold the matrix its reassignment call returned
      demotes-with-0bit         count level fine, 0 among the precisions
      top-k-overlap             count level fine, a channel within the top-k of two precisions
      by-score-no-overlap       count level fine, no overlap: the channel's top-k precision is lower
    """
    out = []
    rose = []
    # the per-layer reports are usable if some layer was reported, or no layer was changed at all
    prints_ok = bool(rec.get('printed_reported')) or all(
        [round(v) for v in L['chosen']] == [sum(1 for x in rec['before'][k] if x == p) for p in L['precs']]
        for k, L in rec['layers'].items() if 'chosen' in L)
    option = (spec.get('history') or {}).get('option')
    if any(rec.get('saturated', {}).values()):
        # outside the property's domain as read in DESIGN section 5 (coefficients with an arg-max margin the
        # sampler resolves): the sampler's theta_alpha is not the arg-max of alpha; reported as observation
        lay = sorted(k for k, v in rec['saturated'].items() if v)
        stale = [ln for ln in rec['order'] if 'chosen' in rec['layers'][ln] and
                 exact_counts(rec['layers'][ln]['passed_frac'][0], rec['layers'][ln]['C']) !=
                 [sum(1 for x in rec['before'][ln] if x == p) for p in rec['layers'][ln]['precs']]]
        low = sum(1 for ln in rec['order'] if ln in rec.get('after', {})
                  for x, y in zip(rec['before'][ln], rec['after'][ln]) if y < x)
        return [('OBS:softmax-saturation', 'float32 softmax(alpha/T) collapses distinct coefficients (|alpha| ~ %g) in '
                 'layer(s) %s: the counts the refinement reads are not the arg-max counts of alpha in %d layer(s); '
                 '%d channel(s) lowered' % (spec.get('alpha_scale', 1) * 100, ','.join(lay), len(stale), low), None)]
    stale_key = {'disable_sampling': 'C20:refine:stale-counts:disable_sampling',
                 'gumbel': 'C20:refine:stale-counts:gumbel-train'}.get(option)
    qids = [L.get('qid') for L in rec['layers'].values() if 'chosen' in L]
    for lname in rec['order']:
        L = rec['layers'][lname]
        if 'chosen' not in L:
            continue
        precs = L['precs']
        b, a = rec['before'][lname], rec['after'][lname]
        cl = _layer_classes(L, b, a)
        cl['shared'] = qids.count(L.get('qid')) > 1
        out_m = [[int(v) if float(v).is_integer() else v for v in r] for r in L['out']]
        # the reassignment call itself (clause 2 of the property)
        f = reassign_failure(cl['trunc'], L['scores'], out_m) if tie_free(L['scores']) else None
        if f and cl['integral']:
            out.append((f[0], 'layer %s: %s' % (lname, f[1]), lname))
        # was the returned matrix applied to this layer?
        asg = assignment_of(out_m)
        expect_after = [precs[x] if x >= 0 else precs[0] for x in asg]
        applied = expect_after == a
        if not applied:
            out.append(('C20:refine:shared-weight-quantizer' if cl['shared'] else 'C20:refine:matrix-not-applied',
                        'layer %s: precisions after the call are not those of the matrix returned by the '
                        'reassignment for this layer' % lname, lname))
        # clause: no channel lower than before
        lowered = [c for c in range(len(b)) if a[c] < b[c]]
        if lowered:
            if not cl['fresh']:
                key = stale_key or 'C20:refine:demotes:stale-counts'
            elif not cl['integral']:
                key = 'C20:refine:float-residue:demotes'
            elif cl['shared']:
                key = 'C20:refine:shared-weight-quantizer'
            elif not cl['dominates']:
                key = ('C20:refine:demotes:search-moved-down' if cl['ascending']
                       else 'C20:refine:precisions-not-ascending:demotes')
            elif not applied:
                key = 'C20:refine:demotes:matrix-not-applied'
            elif cl['zero_bit']:
                key = 'C20:refine:demotes-with-0bit'
            elif cl['overlap']:
                key = 'C20:refine:demotes:top-k-overlap'
            else:
                own = owner_map(cl['trunc'], L['scores'])
                by_score = all(own.get(c) == asg[c] for c in range(len(b)))
                key = 'C20:refine:demotes:by-score-no-overlap' if by_score else 'C20:refine:demotes:unclassified'
            out.append((key, 'layer %s precisions %s: %d channel(s) lowered, e.g. channel %d %d -> %d bit; '
                        'counts %s -> chosen %s' % (lname, precs, len(lowered), lowered[0], b[lowered[0]],
                                                    a[lowered[0]], cl['w_before'], L['chosen']), lname))
        # clause: per-layer counts are the ones the refinement chose = the last configuration it reported
        # for the layer (the old counts when it reported none); the vector it hands to the reassignment
        # must be that configuration in the quantizer's precision order
        w_after = [sum(1 for x in a if x == p) for p in precs]
        reported = _reported_counts(rec, lname, precs, cl['w_before']) if prints_ok else None
        handed = [round(v) for v in L['chosen']]
        target = reported if reported is not None else L['chosen']
        if not cl['fresh'] and w_after != target:
            out.append((stale_key or 'C20:refine:counts:stale-counts',
                        'layer %s precisions %s: the search started from counts %s, the arg-max counts of the '
                        'current alpha are %s; counts after %s, chosen %s'
                        % (lname, precs, exact_counts(L['passed_frac'][0], L['C']) or L['passed_frac'][0],
                           cl['w_before'], w_after, target), lname))
        elif cl['integral'] and reported is not None and handed != reported:
            kind = 'permuted' if sorted(handed) == sorted(reported) else 'differs'
            out.append(('C20:refine:counts:applied-vector-' + kind,
                        'layer %s precisions %s: the refinement reported counts %s but handed %s to the '
                        'reassignment' % (lname, precs, reported, handed), lname))
        if w_after != target:
            if not cl['fresh']:
                key = None                      # already reported above
            elif not cl['integral']:
                key = 'C20:refine:float-residue:counts'
            elif cl['shared']:
                key = 'C20:refine:shared-weight-quantizer'
            elif reported is not None and handed != reported:
                key = None                      # already reported above
            elif not applied:
                key = 'C20:refine:counts:matrix-not-applied'
            elif cl['overlap']:
                key = 'C20:reassign:top-k-overlap'
            else:
                key = 'C20:refine:counts:unclassified'
            if key:
                out.append((key, 'layer %s precisions %s: counts after %s, chosen %s'
                            % (lname, precs, w_after, target), lname))
        rose.append((lname, cl, w_after, L.get('cost_after', 0) > L['costs'][0]))
    # clause: total cost not higher.  The best-so-far argument bounds the cost of the chosen counts of
    # every layer; it carries over to the model only if every layer really got its chosen counts
    # (a layer's cost also depends on how many channels its producer prunes).
    if rec['cost_after'] > rec['cost_before']:
        bad_search = [(ln, cl) for (ln, cl, _, _) in rose if not cl['search_cost_ok']]
        if any(not cl['fresh'] for (_, cl, _, _) in rose):
            key = stale_key or 'C20:refine:cost-raised:stale-counts'
        elif any(not cl['integral'] for (_, cl, _, _) in rose):
            key = 'C20:refine:float-residue:cost-raised'
        elif any(cl['shared'] for (_, cl, _, _) in rose):
            key = 'C20:refine:shared-weight-quantizer'
        elif bad_search:
            key = ('C20:refine:cost-raised:search-chose-costlier' if all(cl['ascending'] for (_, cl) in bad_search)
                   else 'C20:refine:precisions-not-ascending:cost-raised')
        elif any(w_after != rec['layers'][ln]['chosen'] and cl['overlap'] for (ln, cl, w_after, _) in rose):
            key = 'C20:refine:cost-raised:top-k-overlap'
        else:
            key = 'C20:refine:cost-raised:unclassified'
        up = [(ln, rec['layers'][ln]['costs'][0], rec['layers'][ln]['cost_after']) for (ln, _, _, r) in rose if r]
        out.append((key, 'NE16 cost %g -> %g; layers whose own cost rose: %s'
                    % (rec['cost_before'], rec['cost_after'],
                       ', '.join('%s %g -> %g' % t for t in up) or 'none'), up[0][0] if up else None))
    return out


def _vec(v):
    return '[' + ','.join(str(int(x)) for x in v) + ']'


def _frac(x):
    from fractions import Fraction
    f = Fraction(x)
    return str(f.numerator) if f.denominator == 1 else '%d/%d' % (f.numerator, f.denominator)


def _round_vec(v):
    """printed counts (float32 products fraction * C) as whole channels, or None"""
    out = [int(round(x)) for x in v]
    return out if all(abs(x - r) < 1e-3 for x, r in zip(v, out)) else None


def _refine_line_and_real(L, printed):
    """Driver request for one layer and the implementation's side, or None if some fraction the
    cost model received is not exactly the float32 of (whole channels)/C (float32 residue: outside
    the count-level model)."""
    C = L['C']
    if 'chosen' not in L or not is_integral(L['chosen'], C):
        return None
    vecs = [exact_counts(fr, C) for fr in L['passed_frac']]
    if any(v is None for v in vecs):
        return None
    table = {}
    for v, c in zip(vecs, L['costs']):
        k = _vec(v)
        if k in table and table[k] != c:
            return None
        table[k] = c
    line = 'refine precs=%s w=%s table=[%s]' % (_vec(L['precs']), _vec(vecs[0]),
                                               ','.join('%s:%s' % (k, _frac(c)) for k, c in table.items()))
    real = 'passed=[%s] applied=%s' % (','.join(_vec(v) for v in vecs[1:]), _vec(L['chosen']))
    acc = [_round_vec(v) for v in printed]
    real_acc = None if any(v is None for v in acc) else '[%s]' % ','.join(_vec(v) for v in acc)
    return line, real, real_acc


def _model_refine_view(ans):
    m = re.match(r'passed=(\S+) accepted=(\S+) best=(\S+) cost=(\S+) applied=(\S+)$', ans)
    if not m:
        return ans, None
    return 'passed=%s applied=%s' % (m.group(1), m.group(5)), m.group(2)


# ------------------------------------------------------------------------------- run / replay


def run(chk):
    chk.rule = ('reassignment: every permutation of P*C distinct scores for P*C <= %d, random ones up to 4x8, '
                'each with every composition of C into P targets (8 sampled per matrix beyond the exhaustive sizes); '
                'non-trivial = the targets differ from the arg-max counts (something must move); distinct = '
                'distinct (targets, matrix). end to end: nets of 2-4 convs (1x1/3x3, 3..64 channels) + optional '
                'linear head (a quarter of the layers with 3..55 channels that are no power of two), per-channel weights, 8-bit activations, NE16 cost, every order of the precision tuples (2,4,8) and (0,2,4,8) (30 tuples, incl. the cyclic '
                'orders whose sorting permutation is not its own inverse) [thorough: also 2- and 3-precision tuples '
                'with 0 in several orders], integer-valued alpha '
                'matrices (random permutations / trained-looking); non-trivial = the search changed the '
                'counts of some layer' % (6 if chk.quick else 8))
    chk.trusted.append('torch.argmax/argsort/isin and tensor index assignment as modelled by list functions '
                       '(ties of scores excluded); channel counts carried as float32 fractions count/C, modelled as '
                       'natural numbers (the harness checks every fraction it sees is exactly float32(k/C)); the '
                       'cost model itself (NE16) is an arbitrary function of the count vector in the theorems')
    chk.prove()
    import torch  # noqa: F401  (fail early if the environment is broken)
    from plinio.methods.mps import utils as U
    for fn in ('_reassign_precisions', '_compute_cost', 'optimize_prec_assignment'):
        if not hasattr(U, fn):
            chk.corr({'function': fn}, 'missing', 'present', 'plinio.methods.mps.utils.%s is gone: '
                     'the correspondence cannot observe the refinement' % fn)
    if chk.corr_disagreements:
        return

    # ---- (1) reassignment: real vs model, and the property on the real output
    cases = _reassign_cases(chk, 1)
    n_chunks = 48
    chunks = [cases[i::n_chunks] for i in range(n_chunks)]
    outs = common.pmap(_reassign_chunk, chunks)
    real_out = [None] * len(cases)
    for i, ch in enumerate(outs):
        for j, o in enumerate(ch):
            real_out[i + j * n_chunks] = o

    # ---- (2) end to end
    n_e2e = 210 if chk.quick else 3000
    specs = [_gen_spec(chk.rng, chk.quick, i) for i in range(n_e2e)]
    recs = common.pmap(_e2e_worker, specs)
    infra = [r['infra'] for r in recs if 'infra' in r]
    if infra:
        raise common.InfraError('end-to-end worker failed: ' + infra[0])

    lines = [_reassign_line(b, r) for (b, r) in cases]
    e2e_reassign = []                           # calls made by the real refinement, integral targets
    refine_items = []
    for spec, rec in zip(specs, recs):
        if rec['error'] is not None:
            continue
        for lname in rec['order']:
            L = rec['layers'][lname]
            if 'chosen' in L and is_integral(L['chosen'], L['C']) and L['C'] <= 64 and tie_free(L['scores']) \
                    and all(float(v).is_integer() for r in L['scores'] for v in r):
                e2e_reassign.append((spec, lname, [int(v) for v in L['chosen']],
                                     [[int(v) for v in r] for r in L['scores']],
                                     [[int(v) if float(v).is_integer() else v for v in r] for r in L['out']]))
            item = _refine_line_and_real(L, rec['printed_accepted'].get(lname, []))
            if item is None:
                chk.hist['refine-corr:skipped-non-integral-counts'] = \
                    chk.hist.get('refine-corr:skipped-non-integral-counts', 0) + 1
            else:
                refine_items.append((spec, lname, L) + item)
    lines += [_reassign_line(b, s) for (_, _, b, s, _) in e2e_reassign]
    lines += [it[3] for it in refine_items]
    model = chk.driver('C20', lines)

    idx = 0
    for (best, rows), out in zip(cases, real_out):
        case = {'kind': 'reassign', 'best': best, 'scores': rows}
        chk.corr(case, _canon_reassign(best, rows, out), model[idx],
                 '_reassign_precisions vs model (assignment, overlap class, meets)')
        idx += 1
        P, C = len(rows), len(rows[0])
        cur = [0] * P
        for c in range(C):
            cur[max(range(P), key=lambda p: rows[p][c])] += 1
        ov = overlap(best, rows)
        take = cur != best and P >= 3 and C >= 3 and len(chk.samples) < 3
        chk.count((tuple(best), tuple(map(tuple, rows))), nontrivial=cur != best,
                  sample={'best': best, 'scores': rows, 'impl': out, 'overlap': ov} if take else None,
                  bucket='reassign:%dx%d' % (P, C))
        chk.hist['reassign:overlap=%d' % ov] = chk.hist.get('reassign:overlap=%d' % ov, 0) + 1
        f = reassign_failure(best, rows, out)
        if f:
            chk.violation(f[0], '_reassign_precisions: ' + f[1], dict(case, impl=out))
        elif not ov and cur != best:
            chk.hist['reassign:no-overlap-nontrivial-holds'] = chk.hist.get('reassign:no-overlap-nontrivial-holds', 0) + 1
    for (spec, lname, best, scores, out) in e2e_reassign:
        chk.corr({'kind': 'reassign', 'best': best, 'scores': scores, 'from': 'end-to-end'},
                 _canon_reassign(best, scores, out), model[idx],
                 '_reassign_precisions as called by optimize_prec_assignment vs model')
        idx += 1
    for (spec, lname, L, line, real, real_acc) in refine_items:
        view, acc = _model_refine_view(model[idx])
        idx += 1
        case = {'kind': 'refine-trace', 'spec': spec, 'layer': lname, 'precs': L['precs']}
        chk.corr(case, real, view, 'count vectors handed to _compute_cost and to the reassignment vs refineLayer')
        if real_acc is None:
            chk.observe('printed accepted configurations are not whole channel counts')
        elif real_acc != '[]' or acc == '[]':
            chk.corr(case, real_acc, acc, 'accepted best-so-far vectors (as printed) vs refineLayer')
        else:
            chk.observe('accepted configurations are no longer printed: the accept trace is compared through '
                        'the vector handed to the reassignment only')
        chk.hist['refine-corr:P=%d' % len(L['precs'])] = chk.hist.get('refine-corr:P=%d' % len(L['precs']), 0) + 1

    _oracle_e2e(chk, specs, recs)

    # ---- escalate the failing-input search when a leg broke
    broken = bool(chk.proof_broken or chk.corr_disagreements)
    new_keys = {v['key'] for v in chk.violations} - set(common.load_known(chk.prop))
    if broken and not new_keys:
        extra_specs = [_gen_spec(chk.rng, False, i) for i in range(3 * n_e2e)]
        _oracle_e2e(chk, extra_specs, common.pmap(_e2e_worker, extra_specs))
        extra = _reassign_cases(chk, 3)[len(cases):]
        chunks = [extra[i::n_chunks] for i in range(n_chunks)]
        outs = common.pmap(_reassign_chunk, chunks)
        for i, ch in enumerate(outs):
            for j, o in enumerate(ch):
                best, rows = extra[i + j * n_chunks]
                chk.count((tuple(best), tuple(map(tuple, rows))), bucket='reassign:escalated')
                f = reassign_failure(best, rows, o)
                if f:
                    chk.violation(f[0], '_reassign_precisions: ' + f[1],
                                  {'kind': 'reassign', 'best': best, 'scores': rows, 'impl': o})


def _oracle_e2e(chk, specs, recs):
    for spec, rec in zip(specs, recs):
        if 'infra' in rec:
            raise common.InfraError('end-to-end worker failed: ' + rec['infra'])
        case = {'kind': 'e2e', 'spec': spec, 'alphas': rec.get('alphas')}
        if rec['error'] is not None:
            cls = rec['error'].split(':')[0]
            chk.violation('C20:refine:raises:' + cls, 'optimize_prec_assignment raised ' + rec['error'], case)
            chk.count(json.dumps(spec), bucket='e2e:raised')
            continue
        changed = any('chosen' in L and [round(v) for v in L['chosen']] !=
                      [sum(1 for b in rec['before'][k] if b == p) for p in L['precs']]
                      for k, L in rec['layers'].items())
        mixed = any('chosen' in L and sum(1 for v in L['chosen'] if v > 0.5) > 1 for L in rec['layers'].values())
        promoted = sum(sum(1 for x, y in zip(rec['before'][k], rec['after'][k]) if y > x) for k in rec['before'])
        chk.count(json.dumps(spec), nontrivial=changed,
                  sample={'spec': spec, 'cost': [rec['cost_before'], rec['cost_after']],
                          'chosen': {k: L.get('chosen') for k, L in rec['layers'].items()}},
                  bucket='e2e:wp=%s' % ','.join(map(str, spec['wp'])))
        for tag, flag in (('search-changed-counts', changed), ('mixed-vector-chosen', mixed),
                          ('some-channel-promoted', promoted > 0)):
            if flag:
                chk.hist['e2e:' + tag] = chk.hist.get('e2e:' + tag, 0) + 1
        fails = _e2e_failures(spec, rec)
        obs = [f for f in fails if f[0].startswith('OBS:')]
        fails = [f for f in fails if not f[0].startswith('OBS:')]
        for (key, what, lname) in obs:
            chk.hist['e2e:' + key] = chk.hist.get('e2e:' + key, 0) + 1
            if chk.hist['e2e:' + key] == 1:
                chk.observe(what + ' (first such net; same family as the C10/C02 softmax observations)')
        if obs:
            continue
        for (key, what, lname) in fails:
            chk.violation(key, what, dict(case, layer=lname, key=key))
        if not fails:
            chk.hist['e2e:all-clauses-hold'] = chk.hist.get('e2e:all-clauses-hold', 0) + 1
            if changed and promoted:
                chk.hist['e2e:all-clauses-hold-with-promotion'] = chk.hist.get('e2e:all-clauses-hold-with-promotion', 0) + 1
            if mixed:
                chk.hist['e2e:all-clauses-hold-mixed'] = chk.hist.get('e2e:all-clauses-hold-mixed', 0) + 1


def replay(data):
    case = data['case']
    if case.get('kind') == 'reassign':
        out = _real_reassign(case['best'], case['scores'])
        f = reassign_failure(case['best'], case['scores'], out)
        print('best=%s scores=%s -> %s' % (case['best'], case['scores'], out))
        print('failure: %s' % (f,))
        return 1 if f else 0
    if case.get('kind') == 'e2e':
        rec = _run_e2e(case['spec'], case.get('alphas'))
        if rec['error'] is not None:
            print('raised', rec['error'])
            return 1
        fails = _e2e_failures(case['spec'], rec)
        for (key, what, lname) in fails:
            print(key, '|', what)
        want = case.get('key')
        hit = [f for f in fails if want is None or f[0] == want]
        print('cost %g -> %g; %d failing clause(s), %d of the recorded class' % (
            rec['cost_before'], rec['cost_after'], len(fails), len(hit)))
        return 1 if hit else 0
    print('replay of kind %r: re-run ./check C20' % case.get('kind'))
    return 1
