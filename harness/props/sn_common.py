"""Shared by C03 and C06: generator of SuperNets from JSON-able specs, fx-graph canonicaliser,
request lines for the Lean drivers.

A *spec* is a plain dict (it is the replay format):

  {'C': channels, 'hw': spatial size, 'wseed': seed of weights and input,
   'blocks': [{'br': [branch kinds], 'use': 'once' | 'twice' | 'twice-pool',
               'gumbel': bool, 'hard_ctor': bool, 'post': 'relu' | 'none' | 'conv'}, ...]}

`use = 'twice'` invokes the same SuperNetModule twice at the same resolution, `'twice-pool'` with a
fixed MaxPool2d(2) in between (second call site at half the resolution).
"""
import re
import warnings
from fractions import Fraction

BRANCH_KINDS = ['conv3', 'conv1', 'conv5', 'conv3nb', 'dw3', 'seq', 'dwsep', 'seq1', 'id', 'pool',
                'ub', 'ubn', 'ubf', 'ubr', 'uba', 'ubm', 'ub2x', 'ubrand', 'ubip', 'ubaux']
# user blocks whose returned value has another user inside the block: an in-place statement whose result
# is unused (`y.mul_(0.5)`), an auxiliary layer whose result is discarded (`_ = self.aux(y)`)
SIDE_USER_INSIDE = {'ubip', 'ubaux'}
INPLACE_STATEMENT_INSIDE = {'ubip'}
# in-place statements outside the choice blocks (spec['stmt']): result unused, effect on the tensor
STATEMENTS = ['module', 'method', 'functional']
# user blocks containing a torch random function, which fx treats as impure (dead-code elimination keeps
# it): finding "discarded branch with an impure op survives" of C03; their output is a random variable
IMPURE_INSIDE = {'ubrand'}
# user blocks that invoke one of their layers twice (per-invocation metrics: finding (g) of C06)
LAYER_TWICE_INSIDE = {'ub2x'}
# user blocks whose forward ends in a functional / method op (the F8 class)
FUNCTIONAL_TAIL = {'ubf', 'ubr', 'uba', 'ubm'}
KIND_CLASS = {'conv3': 'single', 'conv1': 'single', 'conv5': 'single', 'conv3nb': 'single', 'dw3': 'single',
              'pool': 'single', 'seq': 'sequential', 'dwsep': 'sequential', 'seq1': 'sequential',
              'id': 'identity', 'ub': 'user-module-tail', 'ubn': 'user-module-tail',
              'ubf': 'user-functional-tail', 'ubr': 'user-functional-tail', 'uba': 'user-functional-tail',
              'ubm': 'user-functional-tail', 'ub2x': 'user-module-tail',
              'ubrand': 'user-module-tail', 'ubip': 'user-functional-tail', 'ubaux': 'user-module-tail'}


def _torch():
    import torch
    torch.set_num_threads(1)
    warnings.filterwarnings('ignore')
    return torch


def make_classes():
    """User-defined blocks (defined lazily so that importing this module does not import torch)."""
    torch = _torch()
    import torch.nn as nn
    import torch.nn.functional as F

    class UB(nn.Module):
        """two layers, ends in a module"""
        def __init__(s, c):
            super().__init__()
            s.a = nn.Conv2d(c, c, 3, padding=1)
            s.b = nn.Conv2d(c, c, 1)

        def forward(s, x):
            return s.b(F.relu(s.a(x)))

    class UBN(nn.Module):
        """nested containers, ends in a module"""
        def __init__(s, c):
            super().__init__()
            s.inner = nn.Sequential(nn.Conv2d(c, c, 1), nn.ReLU())
            s.bn = nn.BatchNorm2d(c)

        def forward(s, x):
            return s.bn(s.inner(x))

    class UBF(nn.Module):
        """residual block, ends in a functional op"""
        def __init__(s, c):
            super().__init__()
            s.a = nn.Conv2d(c, c, 3, padding=1)
            s.b = nn.Conv2d(c, c, 1)

        def forward(s, x):
            return F.relu(s.b(F.relu(s.a(x))) + x)

    class UBR(nn.Module):
        def __init__(s, c):
            super().__init__()
            s.conv = nn.Conv2d(c, c, 3, padding=1)

        def forward(s, x):
            return F.relu(s.conv(x))

    class UBA(nn.Module):
        def __init__(s, c):
            super().__init__()
            s.conv = nn.Conv2d(c, c, 1)

        def forward(s, x):
            return x + s.conv(x)

    class UBM(nn.Module):
        """ends in a tensor method"""
        def __init__(s, c):
            super().__init__()
            s.conv = nn.Conv2d(c, c, 3, padding=1, bias=False)

        def forward(s, x):
            return s.conv(x).clamp(-1.0, 1.0)

    class UB2X(nn.Module):
        """one layer invoked twice inside the block"""
        def __init__(s, c):
            super().__init__()
            s.conv = nn.Conv2d(c, c, 3, padding=1)

        def forward(s, x):
            return s.conv(F.relu(s.conv(x)))

    class UBIP(nn.Module):
        """conv, then an in-place statement whose result is not used"""
        def __init__(s, c):
            super().__init__()
            s.conv = nn.Conv2d(c, c, 3, padding=1)

        def forward(s, x):
            y = s.conv(x)
            y.mul_(0.5)
            return y

    class UBAux(nn.Module):
        """conv, then an auxiliary layer whose result is discarded"""
        def __init__(s, c):
            super().__init__()
            s.conv = nn.Conv2d(c, c, 1)
            s.aux = nn.Conv2d(c, 1, 1)

        def forward(s, x):
            y = s.conv(x)
            _ = s.aux(y)
            return y

    class UBRand(nn.Module):
        """conv -> random channel gate (torch.bernoulli: an op fx regards as impure) -> conv"""
        def __init__(s, c):
            super().__init__()
            s.c1 = nn.Conv2d(c, c, 3, padding=1)
            s.c2 = nn.Conv2d(c, c, 1)

        def forward(s, x):
            h = s.c1(x)
            return s.c2(h * torch.bernoulli(torch.full_like(h, 0.9)))

    def branch(kind, c):
        if kind == 'conv3':
            return nn.Conv2d(c, c, 3, padding=1)
        if kind == 'conv1':
            return nn.Conv2d(c, c, 1)
        if kind == 'conv5':
            return nn.Conv2d(c, c, 5, padding=2)
        if kind == 'conv3nb':
            return nn.Conv2d(c, c, 3, padding=1, bias=False)
        if kind == 'dw3':
            return nn.Conv2d(c, c, 3, padding=1, groups=c)
        if kind == 'pool':
            return nn.AvgPool2d(3, stride=1, padding=1)
        if kind == 'seq':
            return nn.Sequential(nn.Conv2d(c, c, 5, padding=2), nn.BatchNorm2d(c), nn.ReLU())
        if kind == 'dwsep':
            return nn.Sequential(nn.Conv2d(c, c, 3, padding=1, groups=c), nn.Conv2d(c, c, 1))
        if kind == 'seq1':
            return nn.Sequential(nn.Conv2d(c, c, 3, padding=1))
        if kind == 'id':
            return nn.Identity()
        return {'ub': UB, 'ubn': UBN, 'ubf': UBF, 'ubr': UBR, 'uba': UBA, 'ubm': UBM, 'ub2x': UB2X, 'ubrand': UBRand, 'ubip': UBIP, 'ubaux': UBAux}[kind](c)

    return branch


def build_net(spec):
    """The user's network described by `spec` (a real nn.Module; fx traces its Python forward)."""
    torch = _torch()
    import torch.nn as nn
    import torch.nn.functional as F
    from plinio.methods.supernet import SuperNetModule
    branch = make_classes()
    C = spec['C']

    class Net(nn.Module):
        def __init__(s):
            super().__init__()
            # a depthwise convolution that comes FIRST in graph order (before every regular convolution)
            s.dw0 = nn.Conv2d(3, 3, 3, padding=1, groups=3) if spec.get('dw_stem') else None
            s.c0 = nn.Conv2d(3, C, 3, padding=1)
            s.bn0 = nn.BatchNorm2d(C)
            for i, b in enumerate(spec['blocks']):
                setattr(s, 'blk%d' % i, SuperNetModule([branch(k, C) for k in b['br']],
                                                       gumbel_softmax=bool(b.get('gumbel')),
                                                       hard_softmax=bool(b.get('hard_ctor'))))
                if b['use'] == 'twice-pool':
                    setattr(s, 'pool%d' % i, nn.MaxPool2d(2))
                if b.get('post') == 'conv':
                    setattr(s, 'mid%d' % i, nn.Conv2d(C, C, 1))
            s.shared_fix = nn.Conv2d(C, C, 3, padding=1) if spec.get('fixed_twice') else None
            s.stmt_act = nn.Hardtanh(-0.25, 0.25, inplace=True) if spec.get('stmt') == 'module' else None
            s.gap = nn.AdaptiveAvgPool2d(1)
            s.fc = nn.Linear(C, 3)

        def _post(s, i, b, x):
            if b.get('post') == 'relu':
                return F.relu(x)
            if b.get('post') == 'conv':
                return getattr(s, 'mid%d' % i)(x)
            return x

        def forward(s, x):
            if s.dw0 is not None:
                x = s.dw0(x)
            x = F.relu(s.bn0(s.c0(x)))
            # an in-place statement outside the choice blocks, its return value unused
            if spec.get('stmt') == 'module':
                s.stmt_act(x)
            elif spec.get('stmt') == 'method':
                x.mul_(0.5)
            elif spec.get('stmt') == 'functional':
                F.hardtanh(x, -0.25, 0.25, inplace=True)
            if s.shared_fix is not None:
                x = s.shared_fix(x)
            for i, b in enumerate(spec['blocks']):
                blk = getattr(s, 'blk%d' % i)
                x = s._post(i, b, blk(x))
                if b['use'] == 'twice':
                    x = s._post(i, b, blk(x))
                elif b['use'] == 'twice-pool':
                    x = getattr(s, 'pool%d' % i)(x)
                    x = s._post(i, b, blk(x))
            if s.shared_fix is not None:
                x = s.shared_fix(x)
            return s.fc(torch.flatten(s.gap(x), 1))

    torch.manual_seed(spec.get('wseed', 0))
    net = Net()
    # non-trivial BatchNorm statistics, so that eval-mode BN is not the identity
    with torch.no_grad():
        for m in net.modules():
            if isinstance(m, nn.BatchNorm2d):
                m.running_mean.uniform_(-0.5, 0.5)
                m.running_var.uniform_(0.5, 2.0)
                m.weight.uniform_(0.5, 1.5)
                m.bias.uniform_(-0.5, 0.5)
    return net


def input_shape(spec):
    return (3, spec['hw'], spec['hw'])


def combiners(sn):
    """[(qualified name of the SuperNetModule, combiner)] in spec order."""
    from plinio.methods.supernet.nn.combiner import SuperNetCombiner
    out = []
    for name, m in sn.seed.named_modules():
        if isinstance(m, SuperNetCombiner):
            out.append((name, m))
    out.sort(key=lambda p: int(re.search(r'blk(\d+)', p[0]).group(1)))
    return out


def set_alpha(sn, alphas):
    torch = _torch()
    with torch.no_grad():
        for (name, c), a in zip(combiners(sn), alphas):
            c.alpha.copy_(torch.tensor(a, dtype=torch.float32))


def frac(x):
    f = Fraction(float(x))
    return '%d/%d' % (f.numerator, f.denominator) if f.denominator != 1 else str(f.numerator)


# ------------------------------------------------------------------ fx graph -> driver tokens
_SAN = re.compile(r'[^A-Za-z0-9_.;#~{}()<>\-]')


def _enc_arg(a, node_args):
    """Encode one fx argument: node arguments become '#' (and are appended to node_args in order),
    containers keep their shape, everything else its repr."""
    import torch.fx as fx
    if isinstance(a, fx.Node):
        node_args.append(a)
        return '#'
    if isinstance(a, (list, tuple)):
        return '(' + ';'.join(_enc_arg(x, node_args) for x in a) + ')'
    if isinstance(a, dict):
        return '{' + ';'.join('%s~%s' % (k, _enc_arg(v, node_args)) for k, v in sorted(a.items())) + '}'
    return repr(a)


def _fn_name(t):
    if isinstance(t, str):
        return t
    mod = getattr(t, '__module__', None) or getattr(getattr(t, '__objclass__', None), '__name__', None) \
        or getattr(getattr(t, '__self__', None), '__name__', None) or ''
    return '%s.%s' % (mod, getattr(t, '__name__', type(t).__name__))


def graph_tokens(gm, combiner_type=None):
    """Canonical node list of an fx GraphModule: one token `kind|target|a+b` per node, arguments as
    positions in the list.  Function/method targets carry their non-tensor arguments."""
    nodes = list(gm.graph.nodes)
    idx = {n: i for i, n in enumerate(nodes)}
    toks = []
    nph = 0
    for n in nodes:
        if n.op == 'placeholder':
            toks.append('in|%d|' % nph)
            nph += 1
            continue
        node_args = []
        if n.op == 'call_module':
            sub = gm.get_submodule(n.target)
            if combiner_type is not None and isinstance(sub, combiner_type):
                # positional list of branch outputs: n.args[0]
                outs = list(n.args[0])
                toks.append('comb|%s|%s' % (n.target, '+'.join(str(idx[a]) for a in outs)))
                continue
            extra = _enc_arg(tuple(n.args), node_args) + _enc_arg(dict(n.kwargs), node_args)
            tgt = n.target if extra == '(#){}' else n.target + '@' + extra
            toks.append('mod|%s|%s' % (_SAN.sub('_', tgt), '+'.join(str(idx[a]) for a in node_args)))
        elif n.op in ('call_function', 'call_method'):
            extra = _enc_arg(tuple(n.args), node_args) + _enc_arg(dict(n.kwargs), node_args)
            kind = 'fn' if n.op == 'call_function' else 'meth'
            if n.op == 'call_function':
                try:
                    if n.is_impure():       # what Graph.eliminate_dead_code will not remove
                        kind = 'fni'
                except Exception:           # noqa: BLE001 - purity query not available for this target
                    pass
            toks.append('%s|%s|%s' % (kind, _SAN.sub('_', _fn_name(n.target) + extra),
                                      '+'.join(str(idx[a]) for a in node_args)))
        elif n.op == 'output':
            extra = _enc_arg(tuple(n.args), node_args)
            toks.append('out||%s' % '+'.join(str(idx[a]) for a in node_args))
        elif n.op == 'get_attr':
            toks.append('fn|get_attr.%s|' % _SAN.sub('_', str(n.target)))
        else:
            toks.append('fn|%s|' % n.op)
    return toks


def alpha_field(sn):
    return '[' + ','.join('%s|%s' % (name, '|'.join(frac(v) for v in c.alpha.detach().tolist()))
                          for name, c in combiners(sn)) + ']'


def module_names(gm):
    return [n for n, _ in gm.named_modules()]


# ------------------------------------------------------------------ generator
def random_spec(rng, max_blocks=3, max_br=12, allow_pool=True, force=None, exclude=()):
    kinds = [k for k in BRANCH_KINDS if k not in exclude]
    nb = rng.randint(1, max_blocks)
    blocks = []
    for i in range(nb):
        r = rng.random()
        k = rng.randint(2, 4) if r < 0.6 else (rng.randint(5, 8) if r < 0.85 else rng.randint(9, max_br))
        k = min(k, max_br)
        br = [rng.choice(kinds) for _ in range(k)]
        use = rng.choice(['once', 'once', 'twice', 'twice-pool' if allow_pool else 'twice'])
        blocks.append({'br': br, 'use': use, 'gumbel': rng.random() < 0.3, 'hard_ctor': rng.random() < 0.3,
                       'post': rng.choice(['relu', 'none', 'conv', 'none'])})
    npool = sum(1 for b in blocks if b['use'] == 'twice-pool')
    hw = (1 << npool) * rng.choice([1, 2, 3] if npool >= 2 else [2, 3, 4] if npool == 1 else [3, 4, 6, 8])
    spec = {'C': rng.choice([2, 3, 4]), 'hw': hw, 'wseed': rng.randrange(1 << 30),
            'blocks': blocks, 'fixed_twice': rng.random() < 0.25}
    if 'stmt' not in exclude and rng.random() < 0.3:
        spec['stmt'] = rng.choice(STATEMENTS)
    if 'dw_stem' not in exclude and rng.random() < 0.35:
        spec['dw_stem'] = True
    if force:
        spec.update(force)
    return spec


def argmax_alpha(rng, n, w, T=1.0):
    """A coefficient vector of length n whose unique arg-max (margin >= 0.05*max(1,T)) is at w;
    all entries exactly representable in float32 (multiples of 1/64)."""
    style = rng.randrange(4)
    if style == 0:      # one-hot-ish
        a = [0.0] * n
    elif style == 1:    # random, mixed signs
        a = [rng.randint(-128, 128) / 64.0 for _ in range(n)]
    elif style == 2:    # all negative
        a = [-rng.randint(64, 256) / 64.0 for _ in range(n)]
    else:               # close to uniform initialisation
        a = [rng.randint(28, 36) / 64.0 for _ in range(n)]
    m = max(a[:w] + a[w + 1:]) if n > 1 else 0.0
    margin = max(4, int(4 * T + 0.999)) / 64.0
    a[w] = m + margin + rng.randint(0, 64) / 64.0
    return a


def driver_parallel(chk, name, lines, chunk=350, threads=10):
    """`chk.driver` over chunks of the request list in parallel (the Lean driver is single-threaded)."""
    from concurrent.futures import ThreadPoolExecutor
    if len(lines) <= chunk:
        return chk.driver(name, lines)
    chunks = [lines[i:i + chunk] for i in range(0, len(lines), chunk)]
    out = chk.driver(name, chunks[0])            # builds what the driver imports, once
    with ThreadPoolExecutor(max_workers=threads) as ex:
        for res in ex.map(lambda c: chk.driver(name, c), chunks[1:]):
            out.extend(res)
    return out
