"""C08 — no setting of the architectural parameters can search a layer out of existence.

proof leg            lean/PlinioVerif/Props/C08.lean (keep-alive feature, last tap alive for every
                     beta/gamma, kernel_size_opt in [1,K], dilation_opt = 2^t*d0 >= 1, exported
                     receptive field <= seed's, frozen maskers full width; generic versions over any
                     linearly ordered field).
correspondence leg   real PITFeaturesMasker / PITConv1d vs Drivers/PITTime.lean:
                     (a) exhaustively every combination of fully-pruned (0) vs open (1) beta and gamma
                         elements for K 1..12 (quick: K <= 10 exhaustive, 11..12 sampled);
                     (b) adversarial real vectors (zero, negative, 1e30, 2^-30, next to the threshold):
                         theta compared exactly where float32 sums are exact, discrete outcomes always.
oracle leg           on grammar nets incl. input- and output-connected layers: drive every mask
                     parameter to zero / negative / huge values, export, run on the original input
                     shape: succeeds, returns the original output shape, every layer keeps >= 1
                     feature, >= 1 tap, dilation >= 1, frozen layers keep full width, exported sizes
                     equal those summary() reports.
"""
import itertools
import warnings
from fractions import Fraction

import torch

from .. import common, pitcheck, pittime


def _real_alpha(C, vals):
    warnings.filterwarnings('ignore')
    from plinio.methods.pit.nn.features_masker import PITFeaturesMasker, PITFrozenFeaturesMasker
    from plinio.methods.pit.nn.binarizer import PITBinarizer
    m = PITFeaturesMasker(C)
    with torch.no_grad():
        m.alpha.copy_(torch.tensor(vals, dtype=torch.float32))
    th = m.theta.detach()
    b = PITBinarizer.apply(th, 0.5)
    return th, b


def _binary_chunk(args):
    """Exhaustive/sampled binary (beta, gamma) patterns of one kernel size on a real PITConv1d.
    Returns canonical strings (worker function)."""
    K, d0, patterns = args
    warnings.filterwarnings('ignore')
    torch.set_num_threads(1)
    layer = pittime.real_time(K, d0, [1.0] * K, [1.0] * pittime.gamma_len(K))
    out = []
    for beta, gamma in patterns:
        with torch.no_grad():
            layer.timestep_masker.beta.copy_(torch.tensor(beta, dtype=torch.float32))
            layer.dilation_masker.gamma.copy_(torch.tensor(gamma, dtype=torch.float32))
        out.append(pittime.real_answer(layer, d0, exact_theta=True))
    return out


def _patterns(K, rng, limit):
    L = pittime.gamma_len(K)
    allp = itertools.product(itertools.product([0.0, 1.0], repeat=K), itertools.product([0.0, 1.0], repeat=L))
    if 2 ** (K + L) <= limit:
        return [(list(b), list(g)) for b, g in allp], True
    pats = set()
    while len(pats) < limit:
        pats.add((tuple(rng.choice([0.0, 1.0]) for _ in range(K)), tuple(rng.choice([0.0, 1.0]) for _ in range(L))))
    return [(list(b), list(g)) for b, g in sorted(pats)], False


def run(chk):
    chk.rule = ('(a) exhaustive fully-pruned/open combinations of beta and gamma for K 1..12 (quick: exhaustive to K=10, '
                '4096 sampled patterns for K=11,12) on a real PITConv1d; (b) adversarial real vectors from palettes '
                '{dyadic, threshold neighbours, +-1e30, 2^-30}; (c) grammar nets with every mask parameter driven to '
                'zero, negative or huge values, exported and run. non-trivial = at least one parameter pruned; '
                'distinct = distinct parameter vectors / (program, masks)')
    chk.trusted.append('float32 sums of mask parameters (modelled as exact rationals; inf/NaN parameters are outside "real values")')
    chk.prove()
    rng = chk.rng
    # ---- (a) exhaustive binary patterns
    limit = 4096 if chk.quick else 1 << 17
    jobs, linesets, exhaustive_to = [], [], 0
    for K in range(1, 13):
        pats, ex = _patterns(K, rng, limit)
        if ex:
            exhaustive_to = K
        d0 = 1 + (K % 3)
        for i in range(0, len(pats), 2048):
            chunk = pats[i:i + 2048]
            jobs.append((K, d0, chunk))
    outs = common.pmap(_binary_chunk, jobs)
    lines = [pittime.line(K, d0, b, g) for (K, d0, chunk) in jobs for (b, g) in chunk]
    answers = chk.driver('PITTime', lines)
    idx = 0
    for (K, d0, chunk), real in zip(jobs, outs):
        for (b, g), rl in zip(chunk, real):
            mod, toks = pittime.model_answer(answers[idx])
            idx += 1
            case = {'kind': 'time', 'K': K, 'd0': d0, 'beta': b, 'gamma': g}
            chk.corr(case, rl, mod, 'binary (beta,gamma) pattern: theta, time mask, kernel_size_opt, dilation_opt')
            chk.count(('bin', K, tuple(b), tuple(g)), nontrivial=(0.0 in b or 0.0 in g), bucket='binary:K=%d' % K,
                      sample=case if (K == 6 and sum(b) == 2) else None)
            k, d = int(rl.split(' k=')[1].split()[0]), int(rl.split(' d=')[1].split()[0])
            if k < 1 or d < 1 or k > K:
                chk.violation('C08:conv1d-searched-out', 'kernel_size_opt=%d dilation_opt=%d on a %d-tap kernel' % (k, d, K), case)
    chk.extra['binary_patterns_exhaustive_up_to_K'] = exhaustive_to
    # ---- (b) adversarial reals
    n_adv = 400 if chk.quick else 6000
    lines, reals, meta = [], [], []
    for _ in range(n_adv):
        K = rng.randint(1, 12)
        pal, exact = rng.choice([(pittime.PAL_DYADIC, True), (pittime.PAL_THRESH, True),
                                 (pittime.PAL_HUGE, False), (pittime.PAL_TINY, False)])
        beta = [float(rng.choice(pal)) for _ in range(K)]
        gamma = [float(rng.choice(pal)) for _ in range(pittime.gamma_len(K))]
        d0 = rng.choice([1, 2, 3])
        layer = pittime.real_time(K, d0, beta, gamma)
        lines.append(pittime.line(K, d0, beta, gamma))
        reals.append(pittime.real_answer(layer, d0, exact_theta=exact))
        meta.append((K, d0, beta, gamma, exact))
    for (K, d0, beta, gamma, exact), rl, ans in zip(meta, reals, chk.driver('PITTime', lines)):
        mod, _ = pittime.model_answer(ans, exact_theta=exact)
        case = {'kind': 'time', 'K': K, 'd0': d0, 'beta': beta, 'gamma': gamma}
        chk.corr(case, rl, mod, 'adversarial real (beta,gamma)' + ('' if exact else ' (discrete outcomes only)'))
        chk.count(('adv', K, tuple(beta), tuple(gamma)), bucket='adversarial:' + ('exact' if exact else 'discrete'),
                  sample=case if not exact and K == 5 else None)
        k, d = int(rl.split(' k=')[1].split()[0]), int(rl.split(' d=')[1].split()[0])
        if k < 1 or d < 1 or k > K:
            chk.violation('C08:conv1d-searched-out', 'kernel_size_opt=%d dilation_opt=%d on a %d-tap kernel' % (k, d, K), case)
    # features masker
    lines, reals, cases = [], [], []
    for _ in range(200 if chk.quick else 3000):
        C = rng.randint(1, 9)
        pal = rng.choice([pittime.PAL_DYADIC, pittime.PAL_THRESH, pittime.PAL_HUGE, pittime.PAL_TINY])
        vals = [float(rng.choice(pal)) for _ in range(C)]
        th, b = _real_alpha(C, vals)
        lines.append('alpha C=%d v=[%s]' % (C, ','.join(pittime.frac(v) for v in vals)))
        reals.append('theta=[%s] bin=[%s] opt=%d' % (','.join(str(Fraction(float(v))) for v in th),
                                                     ','.join(str(int(v)) for v in b), int(b.sum())))
        cases.append({'kind': 'alpha', 'C': C, 'alpha': vals})
        if int(b.sum()) < 1:
            chk.violation('C08:features-searched-out', 'a features masker binarises to zero alive features', cases[-1])
    for case, rl, ans in zip(cases, reals, chk.driver('PITTime', lines)):
        mod = ' '.join(t for t in ans.split() if not t.startswith('eff='))
        chk.corr(case, rl, mod, 'PITFeaturesMasker theta / binarised mask')
        chk.count(('alpha', tuple(case['alpha'])), bucket='alpha')
    # ---- (c) grammar nets with masks at their minimum
    n = 30 if chk.quick else 500
    if chk.proof_broken or chk.corr_disagreements:
        n *= 4
    specs = pitcheck.specs_for(chk, n, {'excl': True, 'p_excl': .2, 'unsupported': False, 'styles': ['min', 'mixed'],
                                        'flags': 'random'})
    for r, assigns in pitcheck.run_nets(chk, specs):
        if r.get('harness_error'):
            raise RuntimeError('harness error on %s: %s %s' % (r['spec'], r['harness_error'], r.get('tb')))
        if r.get('construct_error'):
            chk.violation('C08:' + pitcheck.raise_kind(r), 'PIT() raises on a supported net: ' + r['construct_error'],
                          dict(pitcheck.case_id(r), kind='net'))
            continue
        for a, head, rows in assigns:
            cid = dict(pitcheck.case_id(r, a), kind='net')
            chk.count((tuple(r['prog']), a.get('request') or (a['style'], r['spec']['seed'])), bucket='net:' + a['style'],
                      sample={'prog': r['prog'], 'style': a['style'], 'min_sizes': a.get('min_sizes')} if a['style'] == 'min' else None)
            if a.get('export_error'):
                chk.violation('C08:export-fails', 'export()/exported forward raises with masks at %s: %s' % (a['style'], a['export_error']), cid)
                continue
            if not a.get('out_shape_ok', True):
                chk.violation('C08:output-shape-changed', 'exported network returns another output shape', cid)
            if a.get('summary_vs_export'):
                chk.violation('C08:summary!=exported-sizes', 'summary() vs exported layer sizes: %s' % (a['summary_vs_export'][:2],), cid)
            for row in a['rows']:
                if row['out'].count('1') < 1:
                    chk.violation('C08:features-searched-out', 'layer n%d keeps no output feature' % row['node'], cid)
                if row['frozen'] and '0' in row['out']:
                    chk.violation('C08:frozen-layer-pruned', 'layer n%d (tied to network input/output) lost features' % row['node'], cid)
            if 'err' not in head:
                for row in a['rows']:
                    m = rows.get(row['node'])
                    if m and head.get('sup') == '1':
                        chk.corr(cid, row['out'], m['out'], 'out-features mask of layer n%d' % row['node'])


def replay(data):
    case = data['case']
    if case.get('kind') == 'time':
        layer = pittime.real_time(case['K'], case['d0'], case['beta'], case['gamma'])
        k, d = layer.kernel_size_opt[0], layer.dilation_opt[0]
        print('kernel_size_opt', k, 'dilation_opt', d, 'time_mask', layer.time_mask)
        return 1 if (k < 1 or d < 1) else 0
    if case.get('kind') == 'alpha':
        th, b = _real_alpha(case['C'], case['alpha'])
        print(th, b)
        return 1 if int(b.sum()) < 1 else 0
    from . import c09
    return c09.replay(data)
