"""C14 — integer (MATCH / MAUPITI) layers reproduce their fake-quantized counterparts.

proof leg            lean/PlinioVerif/Props/C14.lean: binary_search specification and closed form, ranges and
                     minimality of _integer_approximation, requantisation ranges / bound, MAUPITI zero-point
                     compensation for every (p_in, p_out), last-layer identities, zero-stuffed = dilated kernel.
correspondence leg   (a) the functions alone: real `binary_search`, `_integer_approximation` (MATCH options and
                     MAUPITI constants), `_pad_dilation_in_weight` vs Drivers/C14.lean on exact rationals;
                     (b) generated networks: MPS(net) -> export() -> integerize_arch(backend) WITHOUT any onnx
                     export; for every integer layer the stored integers (weights, zero-stuffed kernels, integer
                     bias, scale, shift, scaled bias, zero-point) and the outputs it produced on the activations
                     of the integer network itself are compared with the model (exact; outputs whose exact
                     pre-floor value lies within float32 error of an integer are counted as
                     `near_boundary_skipped`, and must still be within one level).
oracle leg           the property's statement on the real layers: every stored quantity an integer in its declared
                     range; each integer layer, fed the integer image of the input its fake-quantized counterpart
                     receives, is within  floor(1 + |a - b| + max(0, M-1-top) + float slack)  levels of the integer
                     image of that counterpart's output, where a, b are the exact rational pre-rounding values of
                     the two layers (theorem `requant_error_bound`; |a - b| is the scale/shift approximation term
                     plus PACT's stabiliser term, theorem `preact_gap`); last layer: logits clause.
The end-to-end clause is partial: float32 accumulation of the real layers is bounded by an explicit slack, not
proved.
"""
import copy
import math
import types
from fractions import Fraction as Fr

from . import c13 as q

F, rs, rl = q.F, q.rs, q.rl
MAUPITI_SB, MAUPITI_SP = 16, 32          # constants hard-coded in the MAUPITI layers
CAP = 40                                  # outputs per channel sent to the model
U = Fr(1, 2 ** 24)


# ----------------------------------------------------------------------------- network generator
def out_size(n, k, s, p, d):
    return (n + 2 * p - d * (k - 1) - 1) // s + 1


def gen_net(rng, feature=None):
    """A sequential / depthwise-separable 2D network spec (JSON-serialisable)."""
    cin = rng.choice([1, 2, 3])
    h, w = rng.choice([6, 7, 8, 9]), rng.choice([6, 7, 8, 9])
    convs = []
    c, hh, ww = cin, h, w
    n_conv = rng.randint(2 if feature in ('tied', 'zpad') else 1, 4)
    pool_at = rng.randrange(n_conv) if rng.random() < 0.3 else None
    i = 0
    while i < n_conv:
        kind = rng.choice(['conv3', 'conv3', 'pw', 'dwsep', 'dil0', 'dil1', 'conv3s2', 'dwdil0', 'dwdil1'])
        if feature in ('dil0', 'dil1', 'asym', 'dwdil') and i == 0:
            kind = {'dil0': 'dil0', 'dil1': 'dil1', 'asym': 'conv3', 'dwdil': rng.choice(['dwdil0', 'dwdil1'])}[feature]
        layer = {'groups': 1, 'stride': [1, 1], 'dil': [1, 1], 'bias': rng.random() < 0.6, 'bn': rng.random() < 0.3}
        if kind == 'conv3':
            p = rng.choice([0, 1])
            layer.update(cout=rng.randint(2, 6), k=[3, 3], pad=[p, p])
        elif kind == 'conv3s2':
            layer.update(cout=rng.randint(2, 6), k=[3, 3], pad=[1, 1], stride=[2, 2])
        elif kind == 'pw':
            layer.update(cout=rng.randint(2, 6), k=[1, 1], pad=[0, 0])
        elif kind == 'dwsep':
            layer.update(cout=c, k=[3, 3], pad=[1, 1], groups=c)
        elif kind == 'dil0':
            k, d = rng.choice([(2, 2), (3, 2), (2, 3)])
            p = rng.choice([0, d * (k - 1) // 2])
            layer.update(cout=rng.randint(2, 5), k=[k, 1], dil=[d, 1], pad=[p, 0] if rng.random() < 0.5 else [0, 0])
        elif kind == 'dil1':
            k, d = rng.choice([(2, 2), (3, 2), (2, 3)])
            layer.update(cout=rng.randint(2, 5), k=[1, k], dil=[1, d], pad=[0, 0])
        elif kind in ('dwdil0', 'dwdil1'):                 # depthwise AND dilated (one kernel row per channel)
            k, d = rng.choice([(2, 2), (3, 2), (2, 3)])
            p = rng.choice([0, d * (k - 1) // 2])
            if kind == 'dwdil0':
                layer.update(cout=c, groups=c, k=[k, 1], dil=[d, 1], pad=[p, 0])
            else:
                layer.update(cout=c, groups=c, k=[1, k], dil=[1, d], pad=[0, p])
        if feature == 'asym' and i == 0:
            layer['pad'] = rng.choice([[1, 0], [0, 1]])
        if max(layer['pad']) == 1 and min(hh, ww) >= 2 and (feature == 'pmode' or rng.random() < 0.1):
            layer['pmode'] = rng.choice(['reflect', 'replicate', 'circular'])
        if feature == 'sym':
            layer['pad'] = [layer['pad'][0], layer['pad'][0]] if layer['k'] == [3, 3] else [0, 0]
            if layer['dil'] != [1, 1]:
                layer['pad'] = [0, 0]
        if feature == 'zpad' and i == 1 and min(hh, ww) >= 3:
            layer.update(cout=rng.randint(2, 6), k=[3, 3], pad=[0, 0], stride=[1, 1], dil=[1, 1], groups=1)
            layer.pop('pmode', None)
        if layer['pad'] == [0, 0] and layer['k'] != [1, 1] and i >= 1 and (feature == 'zpad' and i == 1 or rng.random() < 0.06):
            # explicit nn.ZeroPad2d / ConstantPad2d(0) module in front of the convolution (asymmetric 'same' padding)
            layer['zpad'] = [rng.randint(0, 1), rng.randint(0, 1), rng.randint(0, 1), rng.randint(0, 1)]
            if sum(layer['zpad']) == 0:
                layer['zpad'][rng.randrange(4)] = 1
        zp = layer.get('zpad', [0, 0, 0, 0])
        nh = out_size(hh + zp[2] + zp[3], layer['k'][0], layer['stride'][0], layer['pad'][0], layer['dil'][0])
        nw = out_size(ww + zp[0] + zp[1], layer['k'][1], layer['stride'][1], layer['pad'][1], layer['dil'][1])
        if i >= 1 and nh == hh and nw == ww and layer['cout'] == c and 'zpad' not in layer and rng.random() < 0.08:
            layer['twice'] = True          # the same layer applied twice in a row (weight tying)
            layer['bn'] = False
        # 'tied': the second layer is invoked twice; 'tied0': the FIRST one (its two call sites then read the network
        # input and its own output)
        if (feature == 'tied' and i == 1 or feature == 'tied0' and i == 0) and 'twice' not in layer:
            layer.update(cout=c, k=[3, 3], pad=[1, 1], stride=[1, 1], dil=[1, 1], groups=1, twice=True, bn=False)
            layer.pop('pmode', None)
            layer.pop('zpad', None)
            nh, nw = hh, ww
        if nh < 1 or nw < 1:
            continue
        convs.append(layer)
        c, hh, ww = layer['cout'], nh, nw
        if kind == 'dwsep' and i + 1 < n_conv:            # depthwise-separable: follow with a pointwise conv
            convs.append({'groups': 1, 'stride': [1, 1], 'dil': [1, 1], 'bias': rng.random() < 0.6,
                          'bn': rng.random() < 0.3, 'cout': rng.randint(2, 6), 'k': [1, 1], 'pad': [0, 0]})
            c = convs[-1]['cout']
            i += 1
        if pool_at == i and hh >= 2 and ww >= 2:
            convs[-1]['pool'] = 'avg' if rng.random() < 0.25 else 'max'
            hh, ww = hh // 2, ww // 2
        i += 1
    while c * hh * ww > 400:                               # keep |acc| < 2^24: float32 accumulation exact
        convs.append({'groups': 1, 'stride': [2, 2], 'dil': [1, 1], 'bias': True, 'bn': False, 'cout': 3,
                      'k': [3, 3], 'pad': [1, 1]})
        c, hh, ww = 3, out_size(hh, 3, 2, 1, 1), out_size(ww, 3, 2, 1, 1)
    fcs = [{'out': rng.randint(2, 6), 'bias': rng.random() < 0.6} for _ in range(rng.choice([1, 1, 2]))]
    if feature == 'fconv' or (feature is None and rng.random() < 0.2):
        # fully convolutional: the network ends in a Conv2d (no ReLU after it), its output are the logits
        kh = rng.choice([1, min(3, hh), hh])
        kw = rng.choice([1, min(3, ww), ww])
        convs.append({'groups': 1, 'stride': [1, 1], 'dil': [1, 1], 'bias': rng.random() < 0.6, 'bn': False,
                      'cout': rng.randint(2, 5), 'k': [kh, kw], 'pad': rng.choice([[0, 0], [0, 0], [kh // 2, kw // 2]]),
                      'final': True})
        if rng.random() < 0.25:            # the network ends in a depthwise (or one-channel) convolution
            convs[-1].update(cout=c, groups=c)
        fcs = []
    bits = rng.choice([[8], [4], [2], [2, 4, 8], [2, 4, 8], [4, 8]])
    abits = rng.choice([[8], [4], [2], [2, 4, 8], [2, 4, 8], [2, 8]])
    spec = {'cin': cin, 'h': h, 'w': w, 'convs': convs, 'fcs': fcs, 'wp': bits, 'ap': abits,
            'seed': rng.randrange(2 ** 31)}
    if feature == 'frelu' or rng.random() < 0.08:
        spec['final_act'] = True                           # a ReLU after the last layer (non-negative outputs)
    if feature == 'relu6' or (feature is None and rng.random() < 0.15):
        spec['act'] = rng.choice(['relu6', 'ReLU6'])      # functional / module form; PACT clip values stay <= 6
    if rng.random() < 0.4:
        spec['bias_mode'] = rng.choice(['neg', 'neg', 'pos', 'both'])
        if rng.random() < 0.6:
            spec['ap'] = [8]               # the guard is active for |bias| > ~clip only with 8-bit outputs
        for l in convs + fcs:
            if rng.random() < 0.7:
                l['bias'] = True
    return spec


def spec_features(spec):
    f = set()
    for l in spec['convs']:
        if l['dil'][0] != 1:
            f.add('dilation-axis0')
        if l['dil'][1] != 1:
            f.add('dilation-axis1')
        if l['pad'][0] != l['pad'][1]:
            f.add('asymmetric-padding')
        if not l['bias'] and not l['bn']:
            f.add('no-bias')
        if l['groups'] > 1:
            f.add('depthwise')
            if l['dil'] != [1, 1]:
                f.add('depthwise-dilation')
        if l.get('final'):
            f.add('fully-conv')
            if l['groups'] > 1 or (l['cout'] == 1 and l['groups'] == 1):
                f.add('last-layer-depthwise')
        if l.get('pmode'):
            f.add('padding-mode')
        if l.get('zpad'):
            f.add('zero-pad-module')
        if l.get('twice'):
            f.add('layer-invoked-twice')
        if l.get('pool') == 'avg':
            f.add('avgpool')
        if l['stride'] != [1, 1]:
            f.add('stride')
        if l['bn']:
            f.add('bn')
    if any(not l['bias'] for l in spec['fcs']):
        f.add('no-bias')
    if spec.get('act'):
        f.add('relu6')
    if spec.get('final_act'):
        f.add('final-relu')
    return f


def big_bias(b, mode, g):
    """one or two large-magnitude entries so that the 32-bit guard of _integer_approximation becomes active:
    'neg' / 'pos' = the dominating entry has that sign (a smaller one of the other sign next to it), 'both' = random"""
    import torch
    if not mode:
        return
    sign = {'neg': -1.0, 'pos': 1.0}.get(mode) or (1.0 if float(torch.rand(1, generator=g)) < 0.5 else -1.0)
    j = int(torch.randint(0, b.numel(), (1,), generator=g))
    b[j] = sign * float(torch.empty(1).uniform_(5.0, 60.0, generator=g))
    if b.numel() > 1:
        b[(j + 1) % b.numel()] = -sign * float(torch.empty(1).uniform_(1.0, 4.5, generator=g))


def build_net(spec):
    import torch
    import torch.nn as nn
    import torch.nn.functional as Fn
    g = torch.Generator().manual_seed(spec['seed'])

    class Net(nn.Module):
        def __init__(self):
            super().__init__()
            if spec.get('act') == 'ReLU6':
                self.act6 = nn.ReLU6()
            c, hh, ww = spec['cin'], spec['h'], spec['w']
            self.conv_names, self.fc_names = [], []
            for i, l in enumerate(spec['convs']):
                conv = nn.Conv2d(c, l['cout'], tuple(l['k']), tuple(l['stride']), tuple(l['pad']),
                                 tuple(l['dil']), l['groups'], l['bias'], l.get('pmode', 'zeros'))
                with torch.no_grad():
                    conv.weight.copy_(torch.randn(conv.weight.shape, generator=g) *
                                      2.0 ** float(torch.empty(1).uniform_(-3, 1, generator=g)))
                    for ch, val in enumerate(l.get('fill', [])):       # hand-made witnesses: constant channels
                        conv.weight[ch] = val
                    if conv.bias is not None:
                        conv.bias.copy_(torch.randn(conv.bias.shape, generator=g) * 0.3)
                        big_bias(conv.bias, spec.get('bias_mode'), g)
                setattr(self, 'c%d' % i, conv)
                if l['bn']:
                    bn = nn.BatchNorm2d(l['cout'])
                    with torch.no_grad():
                        bn.running_mean.copy_(torch.randn(l['cout'], generator=g) * 0.2)
                        bn.running_var.copy_(torch.empty(l['cout']).uniform_(0.25, 4, generator=g))
                        if spec.get('bias_mode'):          # small running variance: the folded bias becomes large
                            bn.running_var.copy_(torch.empty(l['cout']).uniform_(0.002, 0.05, generator=g))
                            sgn = {'neg': 1.0, 'pos': -1.0}.get(spec['bias_mode'], 0.0)
                            bn.running_mean.copy_(torch.randn(l['cout'], generator=g) * 0.3 +
                                                  sgn * torch.empty(l['cout']).uniform_(0.2, 1.5, generator=g))
                        bn.weight.copy_(torch.empty(l['cout']).uniform_(0.5, 1.5, generator=g))
                        bn.bias.copy_(torch.randn(l['cout'], generator=g) * 0.2)
                    setattr(self, 'bn%d' % i, bn)
                if l.get('pool'):
                    setattr(self, 'pool%d' % i, nn.AvgPool2d(2) if l['pool'] == 'avg' else nn.MaxPool2d(2))
                self.conv_names.append(i)
                c = l['cout']
                zp = l.get('zpad', [0, 0, 0, 0])
                if l.get('zpad'):
                    setattr(self, 'zp%d' % i, nn.ZeroPad2d(tuple(zp)) if i % 2 else nn.ConstantPad2d(tuple(zp), 0.0))
                hh = out_size(hh + zp[2] + zp[3], l['k'][0], l['stride'][0], l['pad'][0], l['dil'][0])
                ww = out_size(ww + zp[0] + zp[1], l['k'][1], l['stride'][1], l['pad'][1], l['dil'][1])
                if l.get('pool'):
                    hh, ww = hh // 2, ww // 2
            f = c * hh * ww
            for j, l in enumerate(spec['fcs']):
                fc = nn.Linear(f, l['out'], l['bias'])
                with torch.no_grad():
                    fc.weight.copy_(torch.randn(fc.weight.shape, generator=g) * 0.2)
                    if fc.bias is not None:
                        fc.bias.copy_(torch.randn(fc.bias.shape, generator=g) * 0.3)
                        big_bias(fc.bias, spec.get('bias_mode'), g)
                setattr(self, 'fc%d' % j, fc)
                f = l['out']

        def forward(self, x):
            for i, l in enumerate(spec['convs']):
                for rep_ in range(2 if l.get('twice') else 1):
                    if l.get('zpad'):
                        x = getattr(self, 'zp%d' % i)(x)
                    x = getattr(self, 'c%d' % i)(x)
                    if l['bn']:
                        x = getattr(self, 'bn%d' % i)(x)
                    if l.get('final'):
                        return Fn.relu(x) if spec.get('final_act') else x
                    x = self.act(x)
                if l.get('pool'):
                    x = getattr(self, 'pool%d' % i)(x)
            x = x.flatten(1)
            n = len(spec['fcs'])
            for j in range(n):
                x = getattr(self, 'fc%d' % j)(x)
                if j + 1 < n:
                    x = self.act(x)
            return Fn.relu(x) if spec.get('final_act') else x

        def act(self, x):
            if spec.get('act') == 'relu6':
                return Fn.relu6(x)
            if spec.get('act') == 'ReLU6':
                return self.act6(x)
            return Fn.relu(x)
    net = Net()
    net.eval()
    return net, g


def build_fq(spec):
    """MPS(net) with a seeded precision assignment and clip values, exported (fake-quantized network)."""
    import torch
    from plinio.methods.mps import MPS, get_default_qinfo
    net, g = build_net(spec)
    m = MPS(net, input_shape=(spec['cin'], spec['h'], spec['w']),
            qinfo=get_default_qinfo(w_precision=tuple(spec['wp']), a_precision=tuple(spec['ap'])))
    with torch.no_grad():
        for n, p in m.named_nas_parameters():
            if n.endswith('alpha'):
                v = torch.zeros_like(p)
                v.view(-1)[int(torch.randint(0, p.numel(), (1,), generator=g))] = 5.0
                p.copy_(v)
            elif n.endswith('clip_val') and 'fixed_clip' in spec:
                p.fill_(spec['fixed_clip'])
            elif n.endswith('clip_val') and 'input_quantizer' not in n and 'in_mps_quantizer' not in n:
                # with ReLU6 after the quantizer a clip value above 6 leaves the quantization grid (6.0 is not a level):
                # there is no integer image then, such nets are outside what C14 can state
                p.fill_(round(float(torch.empty(1).uniform_(0.4, 6.0 if spec.get('act') else 8.0, generator=g)), 3))
    m.eval()
    x = torch.rand((2, spec['cin'], spec['h'], spec['w']), generator=g)
    m(x)
    fq = m.export().eval()
    return fq, x


POSTS = [[], ['fwd'], ['fwd', 'scale'], ['fwd', 'redraw'], ['load'], ['fwd', 'redraw', 'fwd'], ['scale'],
         ['fwd', 'load'], ['fwd', 'scale', 'fwd'], []]


def apply_post(fq, x, post, seed):
    """what happens to the fake-quantized network between export() and integerize_arch: forwards, in-place weight /
    bias edits (an optimizer step), re-drawn parameters, a state_dict loaded from a checkpoint.  The property is
    demanded for the network as it is at integerize time."""
    import torch
    from plinio.methods.mps.quant.nn import QuantConv2d, QuantLinear
    g = torch.Generator().manual_seed(seed + 17)
    layers = [l for _, l in fq.named_modules() if isinstance(l, (QuantConv2d, QuantLinear))]
    with torch.no_grad():
        for op in post:
            if op == 'fwd':
                fq(x)
            elif op == 'scale':
                for l in layers:
                    l.weight.mul_(2.0 ** float(torch.empty(1).uniform_(-2.5, 2.5, generator=g)))
                    if l.bias is not None:
                        l.bias.mul_(float(torch.empty(1).uniform_(0.3, 2.0, generator=g)))
            elif op == 'redraw':
                for l in layers:
                    l.weight.copy_(torch.randn(l.weight.shape, generator=g) *
                                   2.0 ** float(torch.empty(1).uniform_(-4, 1, generator=g)))
                    if l.bias is not None:
                        l.bias.copy_(torch.randn(l.bias.shape, generator=g) * 0.4)
            elif op == 'load':
                sd = {}
                for k, v in fq.state_dict().items():
                    if k.endswith('.weight') and v.dim() >= 2:
                        sd[k] = torch.randn(v.shape, generator=g) * 2.0 ** float(torch.empty(1).uniform_(-4, 1, generator=g))
                    elif k.endswith('.bias'):
                        sd[k] = torch.randn(v.shape, generator=g) * 0.4
                fq.load_state_dict(sd, strict=False)


# ----------------------------------------------------------------------------- one case on the real code
def chan_lists(t, cap=None):
    """(B, C, ...) tensor -> per channel list of Python numbers"""
    c = t.shape[1]
    out = t.transpose(0, 1).reshape(c, -1)
    if cap is not None:
        out = out[:, :cap]
    return out.tolist()


def layer_feature(fl):
    """class of a layer for finding keys and histograms, e.g. 'dilation-axis1+no-bias'"""
    import torch.nn as nn
    from plinio.methods.mps.quant.quantizers import DummyQuantizer
    f = []
    if isinstance(fl, nn.Conv2d):
        if isinstance(getattr(fl, 'out_quantizer', None), DummyQuantizer):
            f.append('last-conv')
        if fl.groups > 1:
            f.append('depthwise')
        if fl.padding_mode != 'zeros':
            f.append('padding-mode')
        if fl.padding[0] != fl.padding[1]:
            f.append('asymmetric-padding')
        if fl.dilation[0] != 1:
            f.append('dilation-axis0')
        if fl.dilation[1] != 1:
            f.append('dilation-axis1')
    if fl.bias is None:
        f.append('no-bias')
    return '+'.join(f) or 'plain'


def exc_key(e):
    return type(e).__name__


def run_case(case):
    """Everything that needs the real code for one (network, backend, options): returns driver lines with what
    the real code gave for each, oracle violations, counters.  Top-level function (process pool)."""
    import torch
    torch.set_num_threads(1)
    import warnings
    warnings.filterwarnings('ignore')
    res = {'lines': [], 'viol': [], 'counts': {}, 'obs': [], 'layers': 0, 'skipped': 0, 'near_tie': 0,
           'max_bound': 0, 'max_gap': 0.0}
    try:
        _run_case(case, res)
    except Exception as e:                      # harness or plinio outside the integer backends
        import traceback
        res['error'] = '%s: %s | %s' % (type(e).__name__, str(e)[:200], traceback.format_exc()[-600:])
    return res


def cnt(res, k, n=1):
    res['counts'][k] = res['counts'].get(k, 0) + n


def _run_case(case, res):
    import torch
    import torch.nn as nn
    import torch.nn.functional as Fn
    from plinio.methods.mps.quant.backends import Backend, integerize_arch, backend_factory
    from plinio.methods.mps.quant.nn import QuantConv2d, QuantLinear
    from plinio.methods.mps.quant.quantizers import DummyQuantizer, PACTAct
    spec, bname, kw = case['spec'], case['backend'], case['kwargs']
    backend = Backend[bname]
    fq, x = build_fq(spec)
    apply_post(fq, x, case.get('post', []), spec['seed'])
    names = [n for n, l in fq.named_modules() if isinstance(l, (QuantConv2d, QuantLinear))]
    bk = bname.lower()

    def viol(key, what, layer=None):
        c = dict(case)
        c['layer'] = layer
        res['viol'].append({'key': key, 'what': what, 'case': c})

    inner_dummy = [n for n in names[:-1] if isinstance(fq.get_submodule(n).out_quantizer, DummyQuantizer)]
    # ---- integerize (no onnx export anywhere)
    try:
        im = integerize_arch(copy.deepcopy(fq), backend, dict(kw))
        im.eval()
    except Exception as e:
        # locate the layer whose conversion raises, to class the finding
        fq2 = copy.deepcopy(fq)
        where, feat, exc = None, 'unknown', e
        for n in names:
            l = fq2.get_submodule(n)
            try:
                backend_factory(l, backend)(l, l.in_quantizer, l.out_quantizer, l.w_quantizer, l.b_quantizer, **kw)
            except Exception as e2:
                where, feat, exc = n, layer_feature(fq.get_submodule(n)), e2
                break
        key = 'C14:%s:integerize-raises:%s:%s' % (bk, exc_key(exc), feat)
        if bk == 'match' and 'depthwise' in feat and 'dilation' in feat and isinstance(exc, IndexError):
            key = 'C14:match:depthwise-dilation'               # _pad_dilation_in_weight loops over all in_channels
        elif 'layer-invoked-twice' in spec_features(spec) and 'Trying to export a layer of type' in str(exc):
            key = 'C14:layer-invoked-twice'                    # the second call site finds the layer already converted
        elif bk == 'maupiti' and 'last-conv' in feat and 'no-bias' in feat and isinstance(exc, TypeError):
            key = 'C14:maupiti:last-layer-conv:no-bias'        # zero-point of a bias-free final conv
        viol(key,
             'integerize_arch(%s) raises %s: %s (layer %s, %s)' % (bname, exc_key(exc), str(exc)[:120], where, feat), where)
        return
    # ---- run the integer network on integer inputs, capture what every integer layer saw and produced
    inq = None
    for n, l in fq.named_modules():
        if n.endswith('input_quantizer.out_quantizer') or n.endswith('input_quantizer_out_quantizer'):
            inq = l
    if inq is None:
        inq = fq.get_submodule(names[0]).in_quantizer
    io = {}
    calls = []                # (layer name, input, output) in call order: a layer may be invoked more than once

    def mk(n):
        def hook(mod, i, o):
            rec = (i[0].detach().clone(), o.detach().clone())
            io.setdefault(n, []).append(rec)
            calls.append((n,) + rec)
        return hook
    hooks = [im.get_submodule(n).register_forward_hook(mk(n)) for n in names]
    with torch.no_grad():
        if bname == 'MAUPITI':
            old = inq.dequantize
            inq.dequantize = False
            xin = inq(x) - 2 ** (inq.precision - 1)
            inq.dequantize = old
        else:
            xin = x
        fwd_exc = None
        try:
            y_int_net = im(xin)
        except Exception as e:
            fwd_exc = e
    for h in hooks:
        h.remove()
    if inner_dummy:
        # MPS gave a layer that is NOT the last one a DummyQuantizer as output quantizer (network ending in a depthwise
        # / one-channel convolution: the whole output-connected sharing component is left un-quantized): there is no
        # integer image of that tensor; the property is checked end to end on the logits
        with torch.no_grad():
            ref = fq(x)
        cnt(res, 'nets-with-unquantized-inner-tensor')
        if fwd_exc is not None:
            viol('C14:last-layer-depthwise', 'the layers %s before the last one have a DummyQuantizer output; the integer '
                 'network raises %s' % (inner_dummy, str(fwd_exc)[:120]), inner_dummy[0])
            return
        Ll = im.get_submodule(names[-1])
        got = y_int_net * (Ll.s_x * Ll.s_w).reshape([1, -1] + [1] * (y_int_net.dim() - 2)) if bname == 'MATCH' else y_int_net
        err = float((got - ref).abs().max())
        mx = float(ref.abs().max())
        a_in = io[names[-1]][-1][0]
        if err > 0.02 * mx + 1e-4 or not bool(torch.all(a_in == a_in.round())):
            viol('C14:last-layer-depthwise',
                 'network ending in a depthwise / one-channel Conv2d: layers %s before it carry a DummyQuantizer output (treated '
                 'as last layers: no requantisation, no clip); activations fed to the last integer layer in [%g, %g], logits of '
                 'the integer network off by %.4g (largest fake-quantized logit %.4g)'
                 % (inner_dummy, float(a_in.min()), float(a_in.max()), err, mx), names[-1])
        return
    sb = kw.get('scale_bit', 24) if bname == 'MATCH' else MAUPITI_SB
    sp = kw.get('shift_pos', 24) if bname == 'MATCH' else MAUPITI_SP
    crashed_at = None
    between_layers(case, res, viol, fq, calls, bname)
    if spec.get('final_act') and fwd_exc is None and calls:
        # a ReLU after the last layer acts on its output (real-valued logits for MAUPITI, integers for MATCH)
        want = torch.relu(calls[-1][2])
        cnt(res, 'final-relu-checked')
        if tuple(want.shape) != tuple(y_int_net.shape) or not bool(torch.equal(want, y_int_net)):
            viol('C14:%s:final-relu-removed' % bk,
                 'the network ends in a ReLU after its last layer; the integer network returns %r where relu(last layer) is %r'
                 % ([round(v, 4) for v in y_int_net.reshape(-1).tolist()[:5]], [round(v, 4) for v in want.reshape(-1).tolist()[:5]]),
                 names[-1])
    for li, n in enumerate(names):
        fl, L = fq.get_submodule(n), im.get_submodule(n)
        cls = type(L).__name__
        feat = layer_feature(fl)
        if n not in io:
            if crashed_at is None:
                crashed_at = n
                key = 'C14:%s:%s:forward-raises:%s:%s' % (bk, cls, exc_key(fwd_exc) if fwd_exc else 'not-run', feat)
                if bname == 'MAUPITI' and res.get('asym_shape'):
                    key = 'C14:maupiti:asymmetric-padding'      # wrong shape handed over by an earlier layer
                viol(key, 'integer network forward raises at layer %s: %s' % (n, str(fwd_exc)[:160]), n)
            continue
        with torch.no_grad():
            for rec in io[n]:
                check_layer(case, res, viol, fq, im, n, fl, L, cls, feat, rec, sb, sp, li == len(names) - 1)
            if len(io[n]) > 1:
                cnt(res, 'layers-invoked-twice')
    res['layers'] += len(calls)


def between_layers(case, res, viol, fq, calls, bname):
    """what happens BETWEEN two integer layers (activation, pooling, flatten) must commute with the integer image:
    the input of layer k+1 in the integer network = levels of [ops of the fake-quantized network applied to the
    de-quantized output of integer layer k].  (The per-layer comparison alone cannot see an op that acts on integer
    levels as if they were real values, e.g. ReLU6 clipping the levels at 6.)"""
    import torch
    import torch.nn.functional as Fn
    from plinio.methods.mps.quant.quantizers import DummyQuantizer
    spec = case['spec']
    for (a, _, ya), (b, xb, _) in zip(calls, calls[1:]):
        la = fq.get_submodule(a)
        if isinstance(la.out_quantizer, DummyQuantizer):
            return
        p = int(la.out_quantizer.precision)
        lb = fq.get_submodule(b)
        if not isinstance(lb.in_quantizer, DummyQuantizer) and (
                int(lb.in_quantizer.precision) != p or float(lb.in_quantizer.scale) != float(la.out_quantizer.scale)):
            # the integers layer b receives are levels of a's output quantizer, b interprets them with another one
            if a == b == 'c0' and spec['convs'][0].get('twice'):
                key = 'C14:first-layer-invoked-twice'
            else:
                key = 'C14:%s:in-quantizer-differs-from-producer' % bname.lower()
            viol(key, 'layer %s reads the output of %s (%d bit, scale %.6g) with an input quantizer of %d bit, scale %.6g%s'
                 % (b, a, p, float(la.out_quantizer.scale), int(lb.in_quantizer.precision), float(lb.in_quantizer.scale),
                    ': the first layer is invoked twice and has ONE input quantizer, that of the network input'
                    if key.endswith('twice') else ''), b)
            return
        off = 2 ** (p - 1) if bname == 'MAUPITI' else 0
        sf = (2 ** p - 1) / (la.out_quantizer.clip_val.data[0] + 1e-3)
        with torch.no_grad():
            t = (ya + off) / sf                             # de-quantized image of the integer output
            if spec.get('act'):
                t = Fn.relu6(t)
            else:
                t = Fn.relu(t)
            lspec = spec['convs'][int(a[1:])] if a.startswith('c') else {}
            bspec = spec['convs'][int(b[1:])] if b.startswith('c') else {}
            if lspec.get('pool') and a != b:
                t = Fn.avg_pool2d(t, 2) if lspec['pool'] == 'avg' else Fn.max_pool2d(t, 2)
            if bspec.get('zpad'):
                t = Fn.pad(t, tuple(bspec['zpad']), value=0.0)          # a real 0: level 0 of the unsigned image
            want = t * sf
            have = xb + off
            if have.dim() != want.dim():
                want = want.flatten(1)
        cnt(res, 'between-layers-checked')
        if tuple(want.shape) != tuple(have.shape):
            continue                                        # reported by the shape clause of the producing layer
        d = float((want - have).abs().max())
        if d > 1e-2:
            key = 'C14:%s:between-layers' % bname.lower()
            if bspec.get('zpad') and float((want - have)[..., 1:-1, 1:-1].abs().max() if want.dim() == 4 and min(want.shape[2:]) > 2 else 1) <= 1e-2:
                key = 'C14:%s:zero-pad-between-layers' % bname.lower()      # only the padded border is wrong
            elif spec.get('act'):
                key = 'C14:relu6:clips-integer-levels'
            ops = spec.get('act', 'relu') + (' + %s-pool' % lspec['pool'] if lspec.get('pool') and a != b else '') + \
                (' + ZeroPad2d%r' % (tuple(bspec['zpad']),) if bspec.get('zpad') else '')
            viol(key, 'the input of integer layer %s differs by up to %.4g levels from the integer image of what its '
                 'fake-quantized counterpart receives (the ops between %s and %s, %s, are applied to the integer levels as they '
                 'are)' % (b, d, a, b, ops), b)
            return


def check_layer(case, res, viol, fq, im, n, fl, L, cls, feat, io_n, sb, sp, is_last):
    import torch
    import torch.nn as nn
    import torch.nn.functional as Fn
    from plinio.methods.mps.quant.quantizers import DummyQuantizer
    bname = case['backend']
    bk = bname.lower()
    x_int, y_int = io_n
    is_conv = isinstance(fl, nn.Conv2d)
    last = isinstance(fl.out_quantizer, DummyQuantizer)
    pin, pw = int(fl.in_quantizer.precision), int(fl.w_quantizer.precision)
    pout = None if last else int(fl.out_quantizer.precision)
    cout = fl.weight.shape[0]
    key0 = 'C14:%s:%s' % (bk, cls)
    cnt(res, 'layer:%s:%s' % (bk, feat))
    cnt(res, 'bits:in=%d,w=%d,out=%s' % (pin, pw, pout))

    if not bool(torch.all(x_int == x_int.round())) and 'avgpool' in spec_features(case['spec']):
        viol('C14:avgpool:non-integer-activations',
             'an AvgPool2d between two quantized layers is left in place: integer layer %s receives fractions of a level '
             '(e.g. %r)' % (n, [v for v in x_int.reshape(-1).tolist() if v != round(v)][:3]), n)
        return
    # ------------------------------------------------------------------ stored integers: real values
    wq = copy.deepcopy(fl.w_quantizer)
    wq.dequantize = False
    W = wq(fl.weight.detach())                              # integer weights of the network as it is NOW
    # reference scales: those of the weights / clip values at integerize time (a quantizer just called on fl.weight),
    # never the state an earlier call left behind; the integer layer's stored s_w is compared against them
    s_w = wq.scale.detach().reshape(-1).clone()
    s_x = fl.in_quantizer.scale.detach().reshape(()).clone()
    s_y = torch.tensor(1.) if last else fl.out_quantizer.scale.detach().reshape(()).clone()
    s_w_L = L.s_w.detach().reshape(-1)
    stale = tuple(s_w_L.shape) != tuple(s_w.shape) or not bool(torch.equal(s_w_L, s_w))
    if fl.bias is not None:
        bq = copy.deepcopy(fl.b_quantizer)
        bq.dequantize = False
        nb_t = bq(fl.bias.detach(), L.s_x.detach().reshape(()), s_w_L)     # what the integer layer computed
        nbq_t = bq(fl.bias.detach(), s_x, s_w)                             # integer bias of the fake-quantized layer
    else:
        nb_t = nbq_t = torch.zeros(cout)
    nb = [int(v) if math.isfinite(v) and v == int(v) else v for v in nb_t.tolist()]
    nbq = [int(v) if math.isfinite(v) and v == int(v) else v for v in nbq_t.tolist()]
    S = [int(v) for v in L.scale.reshape(-1).tolist()]
    sh = int(L.shift.reshape(-1)[0])
    target = (s_w * s_x / s_y).detach().reshape(-1).tolist()     # the expression of _integer_approximation, fresh scales
    stale_key = 'C14:%s:stale-weight-scale' % bk
    Wi = L.weight.detach()

    def bad(key, what):
        viol('%s:%s' % (key0, key), '%s (layer %s, in/w/out bits %s/%s/%s)' % (what, n, pin, pw, pout), n)

    # the code evaluates its 32-bit guard in float32: a candidate product within 128 of +-2^31 is rounded onto it
    # (observation, not demanded); layers with a candidate in a 2^12-wide window are excluded from the two clauses
    # that depend on the exact guard
    ubs = 2 ** (sb - 1) - 1
    window = False
    guard = set()
    if all(isinstance(v, int) for v in nb):
        for c in range(min(cout, len(target))):
            tq = F(target[c])
            for k in range(sp):
                sc = min(max(math.ceil(tq * 2 ** k), 1), max(ubs, 1))
                if abs(abs(nb[c] * sc) - 2 ** 31) <= 2 ** 12:
                    window = True
                if nb[c] * sc > 2 ** 31 - 1:
                    guard.add('positive')
                elif nb[c] * sc < -2 ** 31:
                    guard.add('negative')
    for gs in guard:
        cnt(res, '32bit-guard-active:%s:%s:%s' % (bk, 'conv' if is_conv else 'linear', gs))
    # ------------------------------------------------------------------ oracle: declared ranges
    ok_int = True
    if not bool(torch.all(Wi == Wi.round())) or float(Wi.min()) < -2 ** (pw - 1) or float(Wi.max()) > 2 ** (pw - 1) - 1:
        bad('weight-range', 'stored weights are not integers of the signed %d-bit range: min %r max %r'
            % (pw, float(Wi.min()), float(Wi.max())))
        ok_int = False
    if not all(isinstance(v, int) for v in nb + nbq):
        bad('bias-integer', 'integer bias is not integer-valued / finite: %r' % nb[:4])
        return
    if min(S) < 1 or max(S) > 2 ** (sb - 1):
        bad('scale-range', 'scale %r outside [1, 2^%d)' % ([v for v in S if v < 1 or v > 2 ** (sb - 1)][:2], sb - 1))
    elif max(S) == 2 ** (sb - 1):
        viol('C14:scale-equals-upper-bound',
             '%s layer %s stores scale %r with scale_bits=%d: a scale equals 2^(scale_bits-1) = %d, it is not below the '
             'bound (does not fit a signed %d-bit integer)' % (bname, n, S[:4], sb, 2 ** (sb - 1), sb), n)
    if not (0 <= sh < sp):
        bad('shift-range', 'shift %d outside [0, %d)' % (sh, sp))
    if getattr(L, 'bias', None) is not None:
        pb = L.bias.detach().reshape(-1).tolist()
        if not all(math.isfinite(v) and v == int(v) for v in pb):
            viol('C14:bias-parameter-not-written',
                 '%s layer %s: the `bias` Parameter kept in the state_dict is never written (default-initialised floats %r); '
                 'the layer computes with add_bias / _zero_point, integer bias %r' % (cls, n, [round(v, 4) for v in pb[:3]], nb[:3]), n)
        elif pb != [float(v) for v in nb]:
            bad('bias-parameter', 'the `bias` Parameter %r is not the integer bias %r' % (pb[:3], nb[:3]))
    if not last or cls.endswith('Linear'):
        ab = L.add_bias.detach().reshape(-1).tolist()
        lim = [(abs(v) if v >= 0 else abs(v) - 1) for v in ab]
        if (not last) and (not all(math.isfinite(v) and v == int(v) for v in ab) or max(lim) > 2 ** 31 - 1):
            if window:
                cnt(res, 'float32-guard-window-layers')
            else:
                viol('C14:%s:scaled-bias-out-of-int32' % bk,
                     '%s layer %s stores scaled bias %r (int_bias %r x scale %r, shift %d): outside [-2^31, 2^31-1]'
                     % (cls, n, [v for v, l in zip(ab, lim) if l > 2 ** 31 - 1 or v != int(v)][:3], nb[:6], S[:6], sh), n)
    if not bool(torch.all(y_int == y_int.round())) and not (last and bname == 'MAUPITI'):
        bad('activation-integer', 'layer output is not integer-valued')
        return
    if not last:
        lo, hi = (0, 2 ** pout - 1) if bname == 'MATCH' else (-2 ** (pout - 1), 2 ** (pout - 1) - 1)
        if float(y_int.min()) < lo or float(y_int.max()) > hi:
            bad('activation-range', 'layer output outside [%d, %d]: min %r max %r' % (lo, hi, float(y_int.min()), float(y_int.max())))
    if not bool(torch.all(x_int == x_int.round())):
        bad('activation-integer', 'layer input is not integer-valued')
        return
    off_in = 2 ** (pin - 1) if bname == 'MAUPITI' else 0
    n_x = x_int + off_in                                     # unsigned integer image of the input
    if (float(n_x.min()) < 0 or float(n_x.max()) > 2 ** pin - 1) and n == 'c0' and case['spec']['convs'][0].get('twice'):
        viol('C14:first-layer-invoked-twice',
             'the first layer is invoked twice: its second call site receives its own %s-bit output while the layer has ONE '
             'input quantizer, the %d-bit network-input quantizer (MPS does not put the network input and the layer output in '
             'one sharing component): input image in [%g, %g]' % (pout, pin, float(n_x.min()), float(n_x.max())), n)
        return
    if float(n_x.min()) < 0 or float(n_x.max()) > 2 ** pin - 1:
        bad('activation-range', 'layer input image outside [0, %d]: min %r max %r' % (2 ** pin - 1, float(n_x.min()), float(n_x.max())))
        return

    # ------------------------------------------------------------------ the fake-quantized counterpart
    sfx = (2 ** pin - 1) / (fl.in_quantizer.clip_val.data[0] + 1e-3)         # as PACTActSTE.forward
    x_fq = n_x / sfx                                                         # its dequantized output
    gx = 1 / F(float(sfx))                                                   # step actually used (exact rational)
    if last:
        y_fq = fl(x_fq)
    else:
        oq = fl.out_quantizer
        old = oq.dequantize
        oq.dequantize = False
        y_fq = fl(x_fq)                                                      # integer image of its output
        top_real = float(oq(torch.tensor([1e30]))[0])
        oq.dequantize = old
    if tuple(y_fq.shape) != tuple(y_int.shape):
        k = '%s:output-shape:%s' % (key0, feat)
        if bname == 'MAUPITI' and ('asymmetric-padding' in feat or res.get('asym_shape')):
            k = 'C14:maupiti:asymmetric-padding'
            res['asym_shape'] = True
        viol(k, 'integer layer %s returns shape %s, its fake-quantized counterpart %s (padding %s)'
             % (n, tuple(y_int.shape), tuple(y_fq.shape), getattr(fl, 'padding', None)), n)
        return

    # exact accumulators (float64 arithmetic on small integers is exact)
    Wd = W.double()
    if is_conv:
        geo = dict(stride=fl.stride, padding=fl.padding, dilation=fl.dilation, groups=fl.groups)
        xin_d = n_x.double()
        if fl.padding_mode != 'zeros':          # as nn.Conv2d._conv_forward: explicit padding in that mode, then valid
            xin_d = Fn.pad(xin_d, fl._reversed_padding_repeated_twice, mode=fl.padding_mode)
            geo['padding'] = 0
        acc = Fn.conv2d(xin_d, Wd, None, **geo)
        absacc = Fn.conv2d(xin_d, Wd.abs(), None, **geo)
        nterms = Wd[0].numel()
    else:
        acc = Fn.linear(n_x.double(), Wd)
        absacc = Fn.linear(n_x.double(), Wd.abs())
        nterms = Wd.shape[1]
    if float(absacc.max()) >= 2 ** 24:
        res['obs'].append('accumulator beyond 2^24 (float32 accumulation no longer exact): layer skipped')
        return
    accL, absL = chan_lists(acc), chan_lists(absacc)
    yiL, yfL = chan_lists(y_int), chan_lists(y_fq)
    sw, sx, sy = [F(v) for v in s_w.tolist()], F(float(s_x)), F(float(s_y))
    if len(sw) == 1 and cout > 1:
        sw = sw * cout
    off_out = 0 if (last or bname == 'MATCH') else 2 ** (pout - 1)
    if stale:
        cnt(res, 'layers-with-stale-stored-s_w')

    # ------------------------------------------------------------------ oracle: the stored scale approximates the TRUE
    # target s_w*s_x/s_y ("the bound implied by its own scale/shift approximation", theorem scale_error_lt):
    # 0 <= scale/2^shift - target < 2^-shift wherever the search is not clamped
    if not last and not window:
        for c in range(cout):
            T = sw[c] * sx / sy
            if T <= 0 or T * 2 ** sh * (1 + Fr(1, 2 ** 21)) > ubs:
                continue
            e = Fr(S[c], 2 ** sh) - T
            if e < -T / 2 ** 21 or e >= Fr(1, 2 ** sh) + T / 2 ** 21:
                viol(stale_key if stale else '%s:scale-not-approximating-target' % key0,
                     'layer %s channel %d: scale/2^shift = %d/2^%d = %.6g does not approximate s_w*s_x/s_y = %.6g of the '
                     'weights as they are at integerize time within 2^-shift (stored s_w %.6g, scale of the current '
                     'weights %.6g)' % (n, c, S[c], sh, S[c] / 2 ** sh, float(T),
                                        float(s_w_L.reshape(-1)[min(c, s_w_L.numel() - 1)]), float(sw[c])), n)
                break

    # ------------------------------------------------------------------ oracle: per-layer statement
    if not last:
        gy = 1 / F(float((2 ** pout - 1) / (fl.out_quantizer.clip_val.data[0] + 1e-3)))
        M = 2 ** pout - 1
        extra = max(0, M - 1 - int(top_real))
        worst = None
        for c in range(cout):
            a_coef = Fr(S[c], 2 ** sh)
            for j, (a_, ab_, yi, yf) in enumerate(zip(accL[c], absL[c], yiL[c], yfL[c])):
                a_, ab_ = int(a_), int(ab_)
                av = (a_ + nbq[c]) * a_coef        # theorem layer_vs_fq: the same integer bias on both sides
                bv = (a_ * sw[c] * gx + nbq[c] * sx * sw[c]) / gy
                # the theorem holds for any two pre-rounding values with the same clipped floors: clamping both
                # to [-1, M+1] changes neither output and can only shrink |a - b|
                gap = abs(min(max(av, -1), M + 1) - min(max(bv, -1), M + 1))
                slack = (ab_ + abs(nbq[c])) * a_coef / 2 ** 21 + \
                    (nterms + 8) * (ab_ * sw[c] * gx + abs(nbq[c]) * sx * sw[c]) / gy / 2 ** 23
                if bname == 'MAUPITI':      # offset inputs and zero-point: larger intermediate magnitudes
                    slack += (2 ** (pin - 1) * sum(abs(int(v)) for v in W[c].reshape(-1).tolist()) * 2 + 2 ** (pout - 1) * 2 ** sh / max(S[c], 1)) \
                        * a_coef / 2 ** 21
                bound = math.floor(1 + gap + slack + extra)
                d = abs(int(yi) + off_out - int(yf))
                res['max_bound'] = max(res['max_bound'], bound)
                res['max_gap'] = max(res['max_gap'], float(gap))
                if d > bound and (worst is None or d - bound > worst[0]):
                    worst = (d - bound, c, j, int(yi) + off_out, int(yf), bound, float(gap))
        cnt(res, 'outputs-checked', sum(len(v) for v in yiL))
        if worst is not None:
            _, c, j, yi, yf, bound, gap = worst
            if stale:
                k = stale_key
            elif 'padding-mode' in feat:
                k = 'C14:padding-mode-ignored'
            elif bname == 'MAUPITI' and pin != pout:
                k = 'C14:maupiti:p_in!=p_out'
            else:
                k = '%s:output-vs-fq:%s' % (key0, feat)
            viol(k, 'layer %s (%s, bits in/w/out %d/%d/%d): integer output %d vs fake-quantized level %d at channel %d '
                 'element %d; proven bound %d (|a-b| = %.4g)' % (n, feat, pin, pw, pout, yi, yf, c, j, bound, gap), n)
    else:
        # last layer: MATCH out * (s_x*s_w) reproduces the logits; MAUPITI out is the logits
        worst = None
        for c in range(cout):
            a_coef = Fr(S[c], 2 ** sh)
            wabs = sum(abs(int(v)) for v in W[c].reshape(-1).tolist())
            for j, (a_, ab_, yi, yf) in enumerate(zip(accL[c], absL[c], yiL[c], yfL[c])):
                a_, ab_ = int(a_), int(ab_)
                logit = F(yf)
                fl_slack = (nterms + 8) * (ab_ * sw[c] * gx + abs(nbq[c]) * sx * sw[c]) / 2 ** 23
                stab = abs(a_) * sw[c] * abs(gx - sx)
                if bname == 'MATCH':
                    got = F(yi) * sx * sw[c]
                    tol = stab + fl_slack + (abs(a_) + abs(nbq[c])) * sx * sw[c] / 2 ** 23      # acc + int_bias in float32
                else:
                    got = F(yi)
                    tol = abs(a_ + nbq[c]) * abs(a_coef - sx * sw[c]) + stab + fl_slack + \
                        (ab_ + abs(nbq[c]) + 2 ** pin * wabs) * a_coef / 2 ** 20
                err = abs(got - logit)
                if err > tol and (worst is None or err / max(tol, Fr(1, 10 ** 30)) > worst[0]):
                    worst = (err / max(tol, Fr(1, 10 ** 30)), c, j, float(got), float(logit), float(tol))
        cnt(res, 'logits-checked', sum(len(v) for v in yiL))
        if worst is not None:
            _, c, j, got, logit, tol = worst
            k = '%s:logits:%s' % (key0, feat)
            if stale:
                k = stale_key
            elif bname == 'MAUPITI' and is_conv:
                k = 'C14:maupiti:last-layer-conv'
            viol(k, 'last layer %s: integer network gives logit %.6g, fake-quantized %.6g (channel %d element %d), '
                 'allowed %.3g' % (n, got, logit, c, j, tol), n)

    # ------------------------------------------------------------------ correspondence lines
    def add(line, **cmp):
        cmp['line'] = line
        cmp['layer'] = '%s/%s/%s' % (bname, n, feat)
        res['lines'].append(cmp)

    # weights (un-stuffed integer weights, per channel) -- the model quantizes the float weights itself
    Wf = fl.weight.detach().reshape(cout, -1).tolist()
    Wr = W.reshape(cout, -1).tolist()
    for c in range(min(cout, 4)):
        ch = Wf[c]
        sm = (2 * max(abs(F(v)) for v in ch) or Fr(1)) / (2 ** pw - 1)
        skip = []
        for v in ch:
            qv = F(v) / sm
            exact = (sw[c] == sm) and q.is_f32(qv)
            skip.append((not exact) and q.near_half(qv, abs(qv) / 2 ** 21 + q.TINY))
        add('w bits=%d w=%s' % (pw, rl(F(v) for v in ch)), kind='ints', real=[int(v) for v in Wr[c]], skip=skip,
            what='stored integer weights')
    # stored weights = the quantizer's integer output, zero-stuffed along the dilated axis for MATCH (d = 1: as is)
    if is_conv:
        ax = 1 if fl.dilation[1] != 1 else 0
        d = fl.dilation[ax] if bname == 'MATCH' else 1
        rows = W.transpose(2, 3).reshape(-1, W.shape[2]) if ax == 0 else W.reshape(-1, W.shape[3])
        rows_i = Wi.transpose(2, 3).reshape(-1, Wi.shape[2]) if ax == 0 else Wi.reshape(-1, Wi.shape[3])
    else:
        d, rows, rows_i = 1, W, Wi
    if rows.shape[0] != rows_i.shape[0]:
        add('stuff d=%d w=[]' % d, kind='str', real='stored weight tensor of shape %s' % (tuple(Wi.shape),),
            what='stored weights vs quantizer output')
    else:
        for r in range(min(rows.shape[0], 6)):
            add('stuff d=%d w=%s' % (d, rl(int(v) for v in rows[r].tolist())), kind='ints',
                real=[int(v) if v == int(v) else v for v in rows_i[r].tolist()], skip=None,
                what='stored (zero-stuffed) kernel row vs quantizer output')
    # integer bias
    if fl.bias is not None:
        bl = fl.bias.detach().tolist()
        skip = []
        for b, s in zip(bl, sw):
            st = sx * s
            if abs(abs(st) - Fr(1, 10 ** 8)) <= Fr(1, 10 ** 8) / 2 ** 18:
                skip.append(True)
            elif abs(st) <= Fr(1, 10 ** 8):
                skip.append(False)
            else:
                qv = F(b) / st
                skip.append(q.near_half(qv, abs(qv) / 2 ** 20 + q.TINY))
        add('b sa=%s sw=%s b=%s' % (rs(sx), rl(sw), rl(F(b) for b in bl)), kind='ints', real=nb, skip=skip,
            what='integer bias')
    # scale / shift selection
    if window:
        cnt(res, 'float32-guard-window-layers')
    else:
        add('ia sb=%d sp=%d t=%s b=%s' % (sb, sp, rl(F(t) for t in target), rl(nb)), kind='ia', real=(S, sh),
            what='scale / shift of _integer_approximation (exact 32-bit guard, scales of the current weights)')
    # scaled bias as stored: fl32(n_b * scale)
    if not last:
        add('sb s=%s nb=%s' % (rl(S), rl(nb)), kind='sb', real=L.add_bias.detach().reshape(-1).tolist(),
            what='stored scaled bias = float32 of int_bias*scale')
    # outputs on the integer activations of the integer network itself
    accM = chan_lists(acc, CAP)
    if not last:
        if bname == 'MATCH':
            skip = [[need_skip((int(a) + nb[c]) * Fr(S[c], 2 ** sh),
                               (int(ab) + abs(nb[c])) * Fr(S[c], 2 ** sh) / 2 ** 21 + q.TINY, 0, 2 ** pout - 1)
                     and not (abs(int(ab)) * S[c] < 2 ** 24 and abs(nb[c]) * S[c] < 2 ** 24)      # then float32 is exact
                     for a, ab in zip(accM[c], chan_lists(absacc, CAP)[c])] for c in range(cout)]
            add('match p=%d sh=%d s=%s nb=%s acc=%s' % (pout, sh, rl(S), rl(nb), rl2(accM)), kind='ints2',
                real=chan_lists(y_int, CAP), skip=skip, what='MATCH layer output')
        else:
            # accumulator over the offset inputs, as the layer computes it (its own padding)
            if is_conv:
                accp = Fn.conv2d(L.pad(x_int).double(), Wi.double(), None, L.stride, 0, L.dilation, L.groups)
            else:
                accp = Fn.linear(x_int.double(), Wi.double())
            wsum = [int(v) for v in Wi.double().reshape(cout, -1).sum(1).tolist()]
            accpM, absM = chan_lists(accp, CAP), chan_lists(absacc, CAP)
            skip = []
            for c in range(cout):
                zpm = nb[c] * S[c] - 2 ** (pout - 1) * 2 ** sh + 2 ** (pin - 1) * S[c] * wsum[c]
                mag = (2 ** (pin - 1) * sum(abs(int(v)) for v in Wi[c].reshape(-1).tolist()) * S[c] * 2 + abs(nb[c]) * S[c]
                       + 2 ** (pout - 1) * 2 ** sh)
                skip.append([need_skip(Fr(int(a) * S[c] + zpm, 2 ** sh), Fr(int(ab) * S[c] + mag, 2 ** sh) / 2 ** 21 + q.TINY,
                                       -2 ** (pout - 1), 2 ** (pout - 1) - 1)
                             for a, ab in zip(accpM[c], absM[c])])
            if is_conv and fl.padding_mode == 'zeros':          # the model's padGrid is the constant padding
                grid = x_int[0, 0][:6, :6]
                add('pad p0=%d p1=%d v=%d x=%s' % (fl.padding[0], fl.padding[1], -2 ** (pin - 1), rl2(grid.tolist())),
                    kind='ints2', real=[[int(v) for v in row] for row in L.pad(grid[None, None])[0, 0].tolist()], skip=None,
                    what='MAUPITI padding of the layer input (each axis its own amount, value in_offset)')
            zp_real = L._zero_point.detach().reshape(-1).tolist()
            if max(abs(v) for v in zp_real) > 2 ** 31:
                res['obs'].append('MAUPITI: the constant added in forward, _zero_point = add_bias + clip_inf*2^shift - '
                                  'in_offset*scale*sum(w), exceeds 32 bits (only add_bias is range-checked by the code; C14 '
                                  'declares a range for the scaled bias, none for the zero-point)')
            add('maupiti pin=%d pout=%d sh=%d s=%s nb=%s wsum=%s acc=%s' % (pin, pout, sh, rl(S), rl(nb), rl(wsum), rl2(accpM)),
                kind='maupiti', real=chan_lists(y_int, CAP), skip=skip, zp=zp_real, what='MAUPITI layer output / zero-point',
                zpmag=[float(abs(nb[c]) * S[c] + 2 ** (pout - 1) * 2 ** sh + 2 ** (pin - 1) * S[c] * abs(wsum[c])) for c in range(cout)])
        # integer image of the fake-quantized output vs the model of the fake-quantized layer
        clipy = F(float(fl.out_quantizer.clip_val.data[0]))
        eps = F(float(fl.out_quantizer.clip_val.data[0] + 1e-3)) - clipy      # stabiliser the float run effectively used
        absM = chan_lists(absacc, CAP)
        skip = [[need_skip((int(a) * sw[c] * gx + nb[c] * sx * sw[c]) / gy,
                           (nterms + 8) * (int(ab) * sw[c] * gx + abs(nb[c]) * sx * sw[c]) / gy / 2 ** 22 + q.TINY,
                           0, int(top_real))
                 for a, ab in zip(accM[c], absM[c])] for c in range(cout)]
        add('fq eps=%s p=%d clip=%s sx=%s gx=%s sw=%s nb=%s acc=%s' % (rs(eps), pout, rs(clipy), rs(sx), rs(gx), rl(sw), rl(nb), rl2(accM)),
            kind='fq', real=chan_lists(y_fq, CAP), skip=skip, top=int(top_real), what='fake-quantized layer: integer image of the output')
    else:
        if bname == 'MATCH':
            # acc + int_bias is a float32 addition: exact below 2^24 only
            skip = [[abs(int(a)) + abs(nb[c]) >= 2 ** 24 for a in accM[c]] for c in range(cout)]
            add('matchlast nb=%s acc=%s' % (rl(nb), rl2(accM)), kind='ints2', real=chan_lists(y_int, CAP), skip=skip,
                what='last layer output (acc + int_bias)')
        else:
            if is_conv:        # as the repaired layer computes it: its own padding (value in_offset), no bias
                accp = Fn.conv2d(L.pad(x_int).double(), Wi.double(), None, L.stride, 0, L.dilation, L.groups)
            else:
                accp = Fn.linear(x_int.double(), Wi.double())
            wsum = [int(v) for v in Wi.double().reshape(cout, -1).sum(1).tolist()]
            add('maupitilast pin=%d sh=%d s=%s nb=%s wsum=%s acc=%s' % (pin, sh, rl(S), rl(nb), rl(wsum), rl2(chan_lists(accp, CAP))),
                kind='maupitilast', real=chan_lists(y_int, CAP), what='last MAUPITI layer output',
                mag=[[float(Fr(int(ab) * S[c] + (abs(nb[c]) + 2 ** pin * sum(abs(int(v)) for v in Wi[c].reshape(-1).tolist())) * S[c], 2 ** sh))
                      for ab in chan_lists(absacc, CAP)[c]] for c in range(cout)])


def need_skip(v, delta, lo, hi):
    """could float32 error `delta` on the exact pre-floor value `v` change clip(floor(v), lo, hi)?"""
    a, b = math.floor(v - delta), math.floor(v + delta)
    return min(max(a, lo), hi) != min(max(b, lo), hi)


def rl2(xss):
    return '[' + ','.join(rl(int(v) for v in xs) for xs in xss) + ']'


# ----------------------------------------------------------------------------- comparing with the model
def parse_ints2(s):
    s = s.strip()
    assert s.startswith('[') and s.endswith(']')
    inner = s[1:-1]
    if not inner:
        return []
    return [q.parse_ints(t if t.endswith(']') else t + ']') for t in inner.replace('],[', ']|[').split('|')]


def canon_ints(real, model, skip):
    r, m = [], []
    for i, (a, b) in enumerate(zip(real, model)):
        sk = bool(skip[i]) if skip is not None else False
        ai = int(a) if isinstance(a, (int, float)) and math.isfinite(a) and a == int(a) else a
        if sk and isinstance(ai, int) and abs(ai - b) <= 1 + abs(b) // 2 ** 23:     # float32 error at that magnitude
            r.append('~')
            m.append('~')
        else:
            r.append(str(ai))
            m.append(str(b))
    if len(real) != len(model):
        r.append('len=%d' % len(real))
        m.append('len=%d' % len(model))
    return ','.join(r), ','.join(m)


def compare(chk, cmp, ans, stats):
    kind = cmp['kind']
    case = {'layer': cmp.get('layer'), 'line': cmp['line'][:300]}
    if ans == 'bad-request':
        from .. import common
        raise common.InfraError('driver rejected: ' + cmp['line'][:200])
    if kind == 'ints':
        model = q.parse_ints(ans)
        r, m = canon_ints(cmp['real'], model, cmp.get('skip'))
        stats['skipped'] += r.count('~')
        stats['by'][cmp['what']] = stats['by'].get(cmp['what'], 0) + r.count('~')
        chk.corr(case, r, m, cmp['what'])
    elif kind in ('ints2', 'maupiti', 'fq'):
        kv = q.parse_kv(ans) if '=' in ans else {'out': ans}
        model = parse_ints2(kv['out'])
        rr, mm = [], []
        for c, (a, b) in enumerate(zip(cmp['real'], model)):
            r, m = canon_ints(a, b, cmp['skip'][c] if cmp.get('skip') else None)
            rr.append(r)
            mm.append(m)
        stats['skipped'] += sum(r.count('~') for r in rr)
        stats['by'][cmp['what']] = stats['by'].get(cmp['what'], 0) + sum(r.count('~') for r in rr)
        stats['compared'] += sum(len(a) for a in cmp['real'])
        r, m = '|'.join(rr), '|'.join(mm)
        if kind == 'maupiti':
            # zero-point: stored in float32 after float32 operations -> exact where every operand is below 2^24
            zm = q.parse_ints(kv['zp'])
            zr = []
            for c, (a, b) in enumerate(zip(cmp['zp'], zm)):
                if cmp['zpmag'][c] < 2 ** 24:
                    zr.append(str(int(a)) if a == int(a) else repr(a))
                else:
                    zr.append(str(b) if abs(Fr(a) - b) <= Fr(cmp['zpmag'][c]) / 2 ** 21 else repr(a))
            r += ' zp=' + ','.join(zr)
            m += ' zp=' + ','.join(str(b) for b in zm)
        if kind == 'fq':
            r += ' top=%d' % cmp['top']
            m += ' top=%s' % kv['top']
        chk.corr(case, r, m, cmp['what'])
    elif kind == 'maupitilast':
        kv = q.parse_kv(ans)
        inner = kv['out'][1:-1]
        model = [[Fr(t) for t in ch.strip('[]').split(',') if t] for ch in inner.replace('],[', ']|[').split('|')]
        ok = True
        for c, (a, b) in enumerate(zip(cmp['real'], model)):
            for j, (x, y) in enumerate(zip(a, b)):
                if abs(Fr(x) - y) > Fr(cmp['mag'][c][j]) / 2 ** 20 + Fr(1, 10 ** 12):
                    ok = False
        stats['compared'] += sum(len(a) for a in cmp['real'])
        chk.corr(case, 'within-float32-error' if ok else str(cmp['real'])[:200], 'within-float32-error', cmp['what'])
    elif kind == 'ia':
        S, sh = cmp['real']
        if ans == 'none':
            chk.corr(case, 'scale=%s shift=%d' % (S, sh), 'none', cmp['what'])
            return
        kv = q.parse_kv(ans)
        ms, msh = q.parse_ints(kv['scale']), int(kv['shift'])
        d = Fr(kv['d'])
        near = kv['alt'] != '-' and Fr(kv['altd']) - d <= Fr(kv['altd']) / 2 ** 40
        if near and sh == int(kv['alt']) and sh != msh:
            stats['near_tie'] += 1           # the double-precision run may legitimately prefer the tied shift
            chk.corr(case, 'near-tie', 'near-tie', cmp['what'])
        else:
            chk.corr(case, 'scale=%s shift=%d' % (list(S), sh), 'scale=%s shift=%d' % (ms, msh), cmp['what'])
    elif kind == 'sb':
        model = q.parse_ints(ans)
        chk.corr(case, str([v + 0.0 for v in cmp['real']]), str([float(q.f32(Fr(v))) + 0.0 for v in model]), cmp['what'])
    elif kind == 'str':
        chk.corr(case, cmp['real'], ans, cmp['what'])


# ----------------------------------------------------------------------------- functions alone
def direct_lines(rng, quick):
    """real binary_search / _integer_approximation / _pad_dilation_in_weight vs the model"""
    import torch
    from plinio.methods.mps.quant.backends.utils import binary_search
    from plinio.methods.mps.quant.backends.match.nn import MATCHConv2d, MATCHLinear
    from plinio.methods.mps.quant.backends.maupiti.nn import MAUPITIConv2d, MAUPITILinear
    out = []
    n = 400 if quick else 8000
    for i in range(n):
        sh = rng.randint(0, 31)
        hi = 2 ** rng.choice([1, 3, 7, 15, 23])
        r = rng.random()
        if r < 0.3:
            x = rng.randint(0, hi + 2) * 2.0 ** -sh                        # exactly on the grid
        elif r < 0.5:
            x = q.to32((rng.randint(0, hi) + rng.choice([-1, 1]) * 2.0 ** -10) * 2.0 ** -sh)
        else:
            x = q.to32(2.0 ** rng.uniform(-30, 8))
        try:
            real = str(binary_search(2 ** -sh, 1, hi, x))
        except RecursionError:
            real = 'recursion'
        out.append({'line': 'bs div=%s low=1 high=%d x=%s' % (rs(Fr(1, 2 ** sh)), hi, rs(F(x))), 'kind': 'str',
                    'real': real, 'what': 'binary_search', 'layer': 'binary_search'})
    n = 60 if quick else 1500
    for i in range(n):
        cout = rng.choice([1, 1, 2, 3, 5])
        kind = rng.choice(['rand', 'rand', 'dyadic', 'tiny', 'huge', 'bigbias', 'mixed'])
        if kind == 'dyadic':
            ts = [q.to32(rng.randint(1, 255) * 2.0 ** -rng.randint(4, 20)) for _ in range(cout)]
        elif kind == 'tiny':
            ts = [q.to32(2.0 ** rng.uniform(-40, -24)) for _ in range(cout)]
        elif kind == 'huge':
            ts = [q.to32(2.0 ** rng.uniform(10, 26)) for _ in range(cout)]
        elif kind == 'mixed':
            ts = [q.to32(2.0 ** rng.uniform(-26, 2)) for _ in range(cout)]
        else:
            base = 2.0 ** rng.uniform(-16, -2)
            ts = [q.to32(base * rng.uniform(0.5, 2)) for _ in range(cout)]
        if kind == 'bigbias':
            bs = [rng.choice([-1, 1]) * rng.randint(2 ** 8, 2 ** 30) for _ in range(cout)]
        else:
            bs = [rng.randint(-3000, 3000) if rng.random() < 0.8 else 0 for _ in range(cout)]
        bs = [int(q.f32(Fr(b))) for b in bs]                 # int_bias is a float32 tensor of integers
        which = rng.choice(['match-conv', 'match-lin', 'maupiti-conv', 'maupiti-lin'])
        if which.startswith('match'):
            sb, sp = rng.choice([(24, 24), (16, 16), (8, 12), (24, 32), (12, 8), (31, 24)])
            fn = (MATCHConv2d if which.endswith('conv') else MATCHLinear)._integer_approximation
        else:
            sb, sp = MAUPITI_SB, MAUPITI_SP
            fn = (MAUPITIConv2d if which.endswith('conv') else MAUPITILinear)._integer_approximation
        # the code evaluates its 32-bit guard in float32 (a product within 128 of 2^31 is rounded onto it): keep the
        # generated products away from that window, where exact and float32 comparison differ (reported separately)
        if any(abs(abs(b * s) - 2 ** 31) <= 2 ** 12 for b in bs for t in ts for sh in range(sp)
               for s in [min(max(math.ceil(F(t) * 2 ** sh), 1), 2 ** (sb - 1))]):
            continue
        fake = types.SimpleNamespace(scale_bit=sb, shift_pos=sp)
        try:
            S, sh = fn(fake, torch.tensor(ts, dtype=torch.float32), torch.tensor(1.), torch.tensor(1.),
                       torch.tensor(bs, dtype=torch.float32))
            real = ([int(v) for v in S.tolist()], int(sh[0]))
        except (RuntimeError, TypeError, ValueError) as e:
            real = None
        line = 'ia sb=%d sp=%d t=%s b=%s' % (sb, sp, rl(F(t) for t in ts), rl(bs))
        if real is None:
            out.append({'line': line, 'kind': 'str', 'real': 'none', 'what': '_integer_approximation (%s, %s): raises' % (which, kind),
                        'layer': which, 'ia_none': True})
        else:
            out.append({'line': line, 'kind': 'ia', 'real': real, 'what': '_integer_approximation (%s, %s)' % (which, kind),
                        'layer': which})
    for i in range(30 if quick else 300):
        k, d, ax = rng.randint(1, 5), rng.randint(2, 4), rng.randint(0, 1)
        co, ci = rng.randint(1, 3), rng.randint(1, 3)
        w = torch.randint(-8, 8, (co, ci, k, 1) if ax == 0 else (co, ci, 1, k)).float()
        fake = types.SimpleNamespace(out_channels=co, in_channels=ci, weight=w, device='cpu')
        rows = w.reshape(-1, k)
        r = rng.randrange(co * ci)
        line = 'stuff d=%d w=%s' % (d, rl(int(v) for v in rows[r].tolist()))
        try:
            st = MATCHConv2d._pad_dilation_in_weight(fake, d, k, ax)
        except Exception as e:          # the net-level oracle looks for the failing network
            out.append({'line': line, 'kind': 'str', 'real': 'raises:%s:axis=%d' % (type(e).__name__, ax),
                        'what': '_pad_dilation_in_weight', 'layer': 'stuff'})
            continue
        rows_s = st.reshape(co * ci, -1)
        out.append({'line': line, 'kind': 'ints', 'real': [int(v) for v in rows_s[r].tolist()], 'skip': None,
                    'what': '_pad_dilation_in_weight', 'layer': 'stuff'})
    return out


# ----------------------------------------------------------------------------- cases
def scale_witness(t0, t1):
    """1x1 conv with two constant channels whose targets s_w*s_x/s_y are t0, t1 (8/8/8 bits, all clips 1)"""
    return {'cin': 1, 'h': 2, 'w': 2, 'wp': [8], 'ap': [8], 'seed': 7, 'fixed_clip': 1.0,
            'convs': [{'groups': 1, 'stride': [1, 1], 'dil': [1, 1], 'bias': False, 'bn': False, 'cout': 2, 'k': [1, 1],
                       'pad': [0, 0], 'fill': [255 * t0 / 2, 255 * t1 / 2]}],
            'fcs': [{'out': 2, 'bias': False}]}


MATCH_OPTS = [{}, {'scale_bit': 16, 'shift_pos': 16}, {'scale_bit': 24, 'shift_pos': 32}, {'scale_bit': 8, 'shift_pos': 12},
              {'scale_bit': 31, 'shift_pos': 24}]


def gen_cases(rng, quick, mult=1):
    cases = []
    n = (60 if quick else 2000) * mult
    feats = ['dil0', 'dil1', None, 'dwdil', 'sym', 'fconv', None, 'relu6', 'pmode', None, 'tied', 'zpad', 'frelu', None, 'tied0']
    for i in range(n):
        spec = gen_net(rng, feats[i % len(feats)])
        post = POSTS[rng.randrange(len(POSTS))]
        cases.append({'spec': spec, 'backend': 'MATCH', 'kwargs': rng.choice(MATCH_OPTS) if i % 3 else {}, 'post': post})
        cases.append({'spec': spec, 'backend': 'MAUPITI', 'kwargs': {}, 'post': post})
    # asymmetric padding first layer, both backends (MAUPITI padded all four sides with padding[0] before d66c6a7)
    for i in range(3 * mult):
        spec = gen_net(rng, 'asym')
        cases.append({'spec': spec, 'backend': 'MAUPITI', 'kwargs': {}})
        cases.append({'spec': spec, 'backend': 'MATCH', 'kwargs': {}})
    # hand-made witnesses: a target just below the top of the scale range with a second channel that prefers the
    # same shift (before becdfc8 the stored scale was 2^(scale_bits-1) itself)
    cases.append({'spec': scale_witness((2 ** 15 - 0.5) / 2 ** 20, (2 ** 15 - 101.5) / 2 ** 20), 'backend': 'MAUPITI', 'kwargs': {}})
    cases.append({'spec': scale_witness(127.5 / 2048, 100.5 / 2048), 'backend': 'MATCH',
                  'kwargs': {'scale_bit': 8, 'shift_pos': 12}})
    return cases


def observe_float_guard(chk):
    """not demanded by the property for ordinary inputs: the 32-bit guard is evaluated in float32"""
    import torch
    from plinio.methods.mps.quant.backends.match.nn import MATCHLinear
    fake = types.SimpleNamespace(scale_bit=24, shift_pos=24)
    try:
        S, sh = MATCHLinear._integer_approximation(fake, torch.tensor([2.0 ** -8]), torch.tensor(1.), torch.tensor(1.),
                                                   torch.tensor([2.0 ** 31]))
        if int(S[0]) * 2 ** 31 > 2 ** 31 - 1:
            chk.observe('the 32-bit guard of _integer_approximation is evaluated in float32 (int_bias * scale is a float32 '
                        'tensor compared with float32(2^31)): an adversarial int_bias*scale in [2^31, 2^31+128] is accepted '
                        '(int_bias 2^31, target 2^-8 -> scale %d, shift %d); the model compares exact integers and the '
                        'generators stay 2^12 away from that window' % (int(S[0]), int(sh[0])))
    except Exception:
        pass


def run(chk):
    from .. import common
    chk.rule = ('networks: 1-4 conv blocks from {3x3 (pad 0/1), 3x3 stride 2, 1x1, depthwise 3x3 + pointwise, dilated (k,1) '
                'on axis 0, dilated (1,k) on axis 1, depthwise dilated on either axis, asymmetric padding, explicit ZeroPad2d/ConstantPad2d(0) '
                'module in front, the same layer invoked twice} with bias on/off, BatchNorm folded by MPS, optional '
                'MaxPool, flatten, 1-2 Linear (bias on/off) or, fully convolutional, a final Conv2d (bias on/off) giving the logits; weight/activation precisions drawn from {2,4,8} per layer '
                '(seeded one-hot alpha), random PACT clip values; MATCH with 5 scale_bit/shift_pos options, MAUPITI; random '
                'inputs in [0,1); every integer layer compared on the activations the integer network itself produced; 40% of the '
                'nets carry large-magnitude (also BN-folded, small running variance) biases with a dominating negative / '
                'positive entry so that the 32-bit guard is active; every net is integerized after a history drawn from '
                '{none, forward, in-place scaling, re-drawn parameters, load_state_dict, with / without a final forward} and '
                'the property is demanded for the network as it is at integerize time (reference scales recomputed). '
                'functions alone: binary_search on/off the grid, _integer_approximation for all four layer classes (tiny, '
                'huge, dyadic targets, overflowing biases), _pad_dilation_in_weight. distinct = distinct (net, backend, '
                'options); non-trivial = every case (each has at least one requantising layer and a last layer)')
    chk.trusted.append('float32 arithmetic of the real integer layers (acc*scale+bias in float32, conv accumulation, stored '
                       'float32 copies of 32-bit integers) is modelled, not verified: outputs are compared exactly away from '
                       'floor boundaries and the oracle allows an explicit float slack; torch conv2d/linear kernels (the '
                       'accumulator is recomputed in float64); torch.fx tracing of integerize_arch; MPS export')
    chk.level = 'proof'
    chk.prove()
    observe_float_guard(chk)
    stats = {'skipped': 0, 'compared': 0, 'near_tie': 0, 'by': {}}
    direct = direct_lines(chk.rng, chk.quick)
    cases = gen_cases(chk.rng, chk.quick)
    import time
    t0 = time.time()
    results = common.pmap(run_case, cases)
    chk.extra['seconds_real_code'] = round(time.time() - t0, 1)
    all_cmp = list(direct)
    for case, res in zip(cases, results):
        absorb(chk, case, res)
        all_cmp += res['lines']
    t0 = time.time()
    model = chk.driver('C14', [c['line'] for c in all_cmp])
    chk.extra['seconds_lean_driver'] = round(time.time() - t0, 1)
    for cmp, ans in zip(all_cmp, model):
        compare(chk, cmp, ans, stats)
    chk.extra['near_boundary_skipped'] = stats['skipped']
    chk.extra['near_boundary_skipped_by_kind'] = stats['by']
    chk.extra['layer_outputs_compared_with_model'] = stats['compared']
    chk.extra['near_tie_shift_skipped'] = stats['near_tie']
    chk.extra['integer_layers_checked'] = sum(r['layers'] for r in results)
    chk.extra['largest_proven_bound_used'] = max([r['max_bound'] for r in results] + [0])
    chk.extra['largest_exact_gap_|a-b|'] = max([r['max_gap'] for r in results] + [0.0])
    errs = [r['error'] for r in results if 'error' in r]
    if errs:
        chk.extra['cases_not_run'] = len(errs)
        chk.extra['first_case_error'] = errs[0]
        if len(errs) > len(cases) // 4:
            raise common.InfraError('too many cases could not be run: ' + errs[0])
    if chk.proof_broken or chk.corr_disagreements:
        more = gen_cases(chk.rng, chk.quick, mult=3)
        for case, res in zip(more, common.pmap(run_case, more)):
            absorb(chk, case, res)


def absorb(chk, case, res):
    feats = sorted(spec_features(case['spec']))
    chk.count((case['backend'], tuple(sorted(case['kwargs'].items())), case['spec']['seed'], tuple(case.get('post', []))), nontrivial='error' not in res,
              sample={'backend': case['backend'], 'kwargs': case['kwargs'], 'features': feats, 'post': case.get('post', []),
                      'convs': len(case['spec']['convs']), 'fcs': len(case['spec']['fcs'])},
              bucket='%s:%s' % (case['backend'], ','.join('%s=%s' % kv for kv in sorted(case['kwargs'].items())) or 'default'))
    for k, v in res['counts'].items():
        chk.hist[k] = chk.hist.get(k, 0) + v
    hk = 'history-before-integerize:' + ('>'.join(case.get('post', [])) or 'none')
    chk.hist[hk] = chk.hist.get(hk, 0) + 1
    if case['spec'].get('bias_mode'):
        chk.hist['net-feature:large-bias-' + case['spec']['bias_mode']] = \
            chk.hist.get('net-feature:large-bias-' + case['spec']['bias_mode'], 0) + 1
    for f in feats:
        chk.hist['net-feature:' + f] = chk.hist.get('net-feature:' + f, 0) + 1
    for o in res['obs']:
        chk.observe(o)
    for v in res['viol']:
        chk.violation(v['key'], v['what'], v['case'])


def replay(data):
    case = data['case']
    res = run_case({k: case[k] for k in ('spec', 'backend', 'kwargs', 'post') if k in case})
    if 'error' in res:
        print('case could not be run:', res['error'])
        return 1
    keys = [v['key'] for v in res['viol']]
    for v in res['viol']:
        print('fails:', v['key'], '|', v['what'])
    print('layers checked:', res['layers'], 'violations:', len(keys))
    return 1 if data.get('key') in keys or (keys and data.get('key') is None) else 0
