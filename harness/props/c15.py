"""C15 — cost-function look-up depends on the layer, not on registration order.

proof leg            lean/PlinioVerif/Props/C15.lean (lookup_eq_spec, lookup_perm, conflict_iff, ...)
correspondence leg   exhaustive: every ordered selection of <= 4 patterns {U, DW, K3, USR}
                     x every subset of the registered constraints satisfied by the layer
                     x both default behaviours, plus registrations for a second layer type
                     interleaved, plus a malformed stream with two unconstrained entries; plus
                     histories of registrations and look-ups interleaved on one spec object;
                     real `CostSpec` vs `Drivers/C15.lean`.
oracle leg           the property's own statement on the real `CostSpec`: answer = documented
                     rule, identical under every permutation; and every built-in spec of
                     plinio.cost re-registered in every order of its patterns.
"""
import itertools
import json

TAGS = ['U', 'DW', 'K3', 'USR']


def _constraints():
    from plinio.cost.pattern import conv_dw_constraint, conv_3_constraint

    def user_constraint(spec):
        return bool(spec['user_flag'])
    return {'U': None, 'DW': conv_dw_constraint, 'K3': conv_3_constraint, 'USR': user_constraint}


# concrete layer descriptions per intended match set; what "matches" means is decided here,
# independently of the library's own constraint functions (documented meaning: depthwise =
# in_channels == out_channels == groups; 3x3 = every kernel dimension equals 3)
DW_YES = [(8, 8, 8), (4, 4, 4)]
DW_NO = [(8, 16, 1), (8, 8, 1), (8, 16, 8), (16, 8, 8)]
K3_YES = [(3, 3)]
K3_NO = [(5, 5), (3, 5), (1, 3), (3, 1), (1, 1)]


def _spec_for(match, variant=0):
    """A layer description that satisfies exactly the constraints in `match`."""
    cin, cout, g = (DW_YES if 'DW' in match else DW_NO)[variant % (len(DW_YES) if 'DW' in match else len(DW_NO))]
    ks = (K3_YES if 'K3' in match else K3_NO)[variant % (len(K3_YES) if 'K3' in match else len(K3_NO))]
    return {'in_channels': cin, 'out_channels': cout, 'groups': g, 'kernel_size': ks, 'user_flag': 'USR' in match}


def _own_match(spec):
    m = []
    if spec['in_channels'] == spec['groups'] and spec['out_channels'] == spec['groups']:
        m.append('DW')
    if all(k == 3 for k in spec['kernel_size']):
        m.append('K3')
    if spec['user_flag']:
        m.append('USR')
    return m


def _real_lookup(order, match, default, other_type_entries=0, variant=0):
    """Register patterns in `order` on a real CostSpec and look a layer up."""
    import torch.nn as nn
    from plinio.cost import CostSpec
    from plinio.cost import cost_spec as cs_mod
    cons = _constraints()
    cs = CostSpec(shared=True, default_behavior=default)
    fns = {}
    for i, tag in enumerate(order):
        fn = (lambda i: (lambda spec: i))(i)
        fns[id(fn)] = i
        cs[(nn.Conv2d, cons[tag])] = fn
        for j in range(other_type_entries):   # another layer type, interleaved
            cs[(nn.Linear, cons['USR'] if j % 2 else None)] = (lambda spec: -1)
    try:
        spec = _spec_for(match, variant)
        assert _own_match(spec) == [t for t in TAGS[1:] if t in match], (spec, match)
        f = cs[(nn.Conv2d, spec)]
    except KeyError:
        return 'conflict'
    if id(f) in fns:
        return 'ok:%d' % fns[id(f)]
    if f is cs_mod.cost_spec_zero_fn and default == 'zero':
        try:
            ok = float(f(_spec_for(match))) == 0.0
        except Exception:
            ok = False
        return 'default' if ok else 'default-zero-broken'
    if f is cs_mod.cost_spec_fail_fn and default == 'fail':
        try:
            f(_spec_for(match))
            return 'default-fail-does-not-raise'
        except KeyError:
            return 'default'
    return 'other:%r' % (f,)


def _rule(order, match):
    """The documented rule, written independently of model and code."""
    cm = [i for i, t in enumerate(order) if t != 'U' and t in match]
    um = [i for i, t in enumerate(order) if t == 'U']
    if len(cm) >= 2:
        return 'conflict'
    if len(cm) == 1:
        return 'ok:%d' % cm[0]
    if um:
        return 'ok:%d' % um[0] if len(um) == 1 else 'ok-any-unconstrained'
    return 'default'


def _cases():
    """Every ordered selection of distinct patterns x every match subset x both defaults."""
    out = []
    for n in range(0, 5):
        for order in itertools.permutations(TAGS, n):
            cons = [t for t in TAGS[1:]]          # the layer may satisfy constraints not registered
            for r in range(len(cons) + 1):
                for match in itertools.combinations(cons, r):
                    for default in ('zero', 'fail'):
                        out.append((list(order), list(match), default))
    return out


def _line(order, match):
    return 'lookup entries=[%s] match=[%s]' % (','.join('%s:%d' % (t, i) for i, t in enumerate(order)),
                                                 ','.join(match))


def _builtin_specs():
    import plinio.cost as pc
    from plinio.cost import CostSpec
    return {n: getattr(pc, n) for n in pc.__all__ if isinstance(getattr(pc, n), CostSpec)}


def _layer_specs():
    """Layer descriptions hitting generic / depthwise x 3-tap / other kernels, per layer type."""
    import torch.nn as nn
    out = []
    for typ, kd in ((nn.Conv1d, 1), (nn.Conv2d, 2)):
        for dw in (False, True):
            for k in (1, 3, 5):
                out.append((typ, {'in_channels': 6, 'out_channels': 6 if dw else 9,
                                  'groups': 6 if dw else 1, 'kernel_size': (k,) * kd}))
    out.append((nn.Linear, {'in_features': 6, 'out_features': 9}))
    return out


def _oracle_builtin(chk):
    """Every built-in spec, re-registered in every order of its patterns, answers the same."""
    from plinio.cost import CostSpec
    for name, spec in sorted(_builtin_specs().items()):
        for typ, entries in spec.data.items():
            perms = list(itertools.permutations(range(len(entries))))
            for layer_typ, lspec in _layer_specs():
                if layer_typ is not typ:
                    continue
                answers = {}
                for perm in perms:
                    cs = CostSpec(shared=spec.shared, default_behavior='zero')
                    for i in perm:
                        cs[(typ, entries[i][0])] = entries[i][1]
                    try:
                        r = cs[(typ, lspec)].__name__
                    except KeyError:
                        r = 'conflict'
                    answers.setdefault(r, perm)
                    chk.count(('builtin', name, typ.__name__, json.dumps(lspec, default=str), perm),
                              nontrivial=len(entries) > 1, bucket='builtin-spec-permutation')
                if len(answers) > 1:
                    chk.violation('C15:builtin:order-dependent',
                                  'built-in spec %s answers %s for %s depending on registration order'
                                  % (name, sorted(answers), lspec),
                                  {'kind': 'builtin', 'spec': name, 'type': typ.__name__, 'layer': lspec,
                                   'answers': {k: list(v) for k, v in answers.items()}})


def _histories(chk):
    """Registrations and look-ups interleaved on ONE spec object: a look-up must depend on the layer and on
    the patterns registered so far only — not on earlier look-ups (a model is built on the spec, the
    spec is extended, another model is built)."""
    import torch.nn as nn
    from plinio.cost import CostSpec
    from plinio.cost import cost_spec as cs_mod
    cons = _constraints()
    rng = chk.rng
    n_hist = 150 if chk.quick else 4000
    lines, pending = [], []
    for h in range(n_hist):
        default = rng.choice(['zero', 'fail'])
        cs = CostSpec(shared=True, default_behavior=default)
        order, fns, ops = [], {}, []
        tags = list(TAGS)
        rng.shuffle(tags)
        k = rng.randint(2, 4)
        for step in range(rng.randint(3, 8)):
            if tags and len(order) < k and (rng.random() < .45 or not order and rng.random() < .5):
                tag = tags.pop()
                fn = (lambda i: (lambda spec: i))(len(order))
                fns[id(fn)] = len(order)
                cs[(nn.Conv2d, cons[tag])] = fn
                order.append(tag)
                ops.append('reg ' + tag)
            else:
                match = [t for t in TAGS[1:] if rng.random() < .4]
                spec = _spec_for(match, step)
                try:
                    f = cs[(nn.Conv2d, spec)]
                    if id(f) in fns:
                        real = 'ok:%d' % fns[id(f)]
                    elif f is cs_mod.cost_spec_zero_fn and default == 'zero' or f is cs_mod.cost_spec_fail_fn and default == 'fail':
                        real = 'default'
                    else:
                        real = 'other:%r' % (f,)
                except KeyError:
                    real = 'conflict'
                ops.append('lookup ' + ','.join(match))
                case = {'kind': 'history', 'default': default, 'ops': list(ops), 'order': list(order), 'match': match,
                        'variant': step}
                lines.append(_line(order, match))
                pending.append((case, real, _rule(order, match)))
    model = chk.driver('C15', lines)
    for (case, real, want), mod in zip(pending, model):
        chk.corr(case, real, mod, 'look-up after a history of registrations and look-ups on one spec object')
        chk.count(('hist', tuple(case['ops']), case['default']), nontrivial=sum(o.startswith('lookup') for o in case['ops']) > 1,
                  bucket='history:lookups=%d' % min(4, sum(o.startswith('lookup') for o in case['ops'])),
                  sample=case if len(case['ops']) > 4 else None)
        if real != want:
            chk.violation('C15:lookup-depends-on-earlier-lookups' if 'lookup' in ' '.join(case['ops'][:-1]) else
                          'C15:lookup-differs-from-documented-rule',
                          'after %s the look-up returns %s where the documented rule on the registered patterns %s gives %s'
                          % (case['ops'], real, case['order'], want), case)


def _replay_history(case):
    import torch.nn as nn
    from plinio.cost import CostSpec
    from plinio.cost import cost_spec as cs_mod
    cons = _constraints()
    cs = CostSpec(shared=True, default_behavior=case['default'])
    order, fns, real = [], {}, None
    for step, op in enumerate(case['ops']):
        kind, _, arg = op.partition(' ')
        if kind == 'reg':
            fn = (lambda i: (lambda spec: i))(len(order))
            fns[id(fn)] = len(order)
            cs[(nn.Conv2d, cons[arg])] = fn
            order.append(arg)
        else:
            match = [t for t in arg.split(',') if t]
            try:
                f = cs[(nn.Conv2d, _spec_for(match, step))]
                real = 'ok:%d' % fns[id(f)] if id(f) in fns else 'default'
            except KeyError:
                real = 'conflict'
    want = _rule(order, case['match'])
    print('ops=%s impl=%s rule=%s' % (case['ops'], real, want))
    return 0 if real == want else 1


def run(chk):
    chk.rule = ('exhaustive: ordered selections of 0..4 distinct patterns from {U,DW,K3,USR} (65) x all 8 '
                'subsets of constraints satisfied by the layer x 2 defaults, real CostSpec vs Lean lookup vs '
                'documented rule; + interleaved second layer type; + malformed stream (duplicate patterns); '
                '+ every built-in spec re-registered in every order. non-trivial = at least two registered '
                'patterns (order can matter); distinct = distinct (order, match, default)')
    chk.trusted.append('Python dict/list semantics of CostSpec.data (UserDict) as modelled by a list per layer type')
    chk.prove()
    cases = _cases()
    extra = []
    # interleaved registrations for another layer type must not interfere
    for order, match, default in cases:
        if len(order) >= 2 and default == 'zero':
            extra.append((order, match, default, 2))
    # malformed stream: duplicates incl. two unconstrained entries (outside the documented use)
    malformed = []
    rng = chk.rng
    n_mal = 300 if chk.quick else 5000
    for _ in range(n_mal):
        n = rng.randint(2, 6)
        order = [rng.choice(TAGS) for _ in range(n)]
        match = [t for t in TAGS[1:] if rng.random() < 0.4]
        malformed.append((order, match, rng.choice(['zero', 'fail'])))
    lines = [_line(o, m) for (o, m, d) in cases] + [_line(o, m) for (o, m, d, k) in extra] + \
            [_line(o, m) for (o, m, d) in malformed]
    model = chk.driver('C15', lines)
    idx = 0
    by_multiset = {}
    for ci, (order, match, default) in enumerate(cases):
        real = _real_lookup(order, match, default, variant=ci)
        chk.corr({'order': order, 'match': match, 'default': default, 'layer': _spec_for(match, ci)}, real, model[idx])
        idx += 1
        nontriv = len(order) >= 2
        chk.count((tuple(order), tuple(match), default), nontrivial=nontriv,
                  sample={'order': order, 'match': match, 'default': default, 'impl': real},
                  bucket='n_patterns=%d' % len(order))
        chk.hist['answer:' + real.split(':')[0]] = chk.hist.get('answer:' + real.split(':')[0], 0) + 1
        # oracle: the documented rule, and order independence
        want = _rule(order, match)
        if real != want:
            chk.violation('C15:lookup-differs-from-documented-rule',
                          'CostSpec look-up returns %s where the documented rule gives %s' % (real, want),
                          {'kind': 'lookup', 'order': order, 'match': match, 'default': default,
                           'impl': real, 'rule': want, 'variant': ci, 'layer': _spec_for(match, ci)})
        key = (tuple(sorted(order)), tuple(match), default)
        ans = real if not real.startswith('ok:') else 'ok:' + order[int(real[3:])]
        by_multiset.setdefault(key, {}).setdefault(ans, order)
    for key, answers in by_multiset.items():
        if len(answers) > 1:
            chk.violation('C15:order-dependent',
                          'same patterns, same layer, different registration orders give %s' % sorted(answers),
                          {'kind': 'orders', 'patterns': list(key[0]), 'match': list(key[1]), 'default': key[2],
                           'answers': answers})
    for (order, match, default, k) in extra:
        real = _real_lookup(order, match, default, other_type_entries=k)
        chk.corr({'order': order, 'match': match, 'default': default, 'other_type_entries': k},
                 real, model[idx], 'look-up with another layer type registered in between')
        idx += 1
        chk.count((tuple(order), tuple(match), default, k), bucket='interleaved-type')
    for (order, match, default) in malformed:
        real = _real_lookup(order, match, default)
        chk.corr({'order': order, 'match': match, 'default': default, 'malformed': True}, real, model[idx],
                 'look-up with duplicate registrations (malformed stream)')
        idx += 1
        chk.count((tuple(order), tuple(match), default, 'mal'), bucket='malformed')
    _oracle_builtin(chk)
    _histories(chk)
    chk.extra['exhaustive'] = True


def replay(data):
    case = data['case']
    if case.get('kind') == 'lookup':
        real = _real_lookup(case['order'], case['match'], case['default'], variant=case.get('variant', 0))
        want = _rule(case['order'], case['match'])
        print('impl=%s rule=%s' % (real, want))
        return 0 if real == want else 1
    if case.get('kind') == 'history':
        return _replay_history(case)
    if case.get('kind') == 'orders':
        answers = set()
        for order in itertools.permutations(case['patterns']):
            real = _real_lookup(list(order), case['match'], case['default'])
            answers.add(real if not real.startswith('ok:') else 'ok:' + order[int(real[3:])])
        print('answers over all orders:', sorted(answers))
        return 0 if len(answers) == 1 else 1
    print('replay of kind %r: re-run ./check C15' % case.get('kind'))
    return 1
