"""C02 — MPS export is bit-identical to the eval-mode mixed-precision model (per-layer weight search).

proof leg            lean/PlinioVerif/Props/C02.lean (onehot_mix, mps_layer_eval_eq_export,
                     mps_net_eval_eq_export, in_precision_is_producer_out, add_operands_same_quantizer, ...)
correspondence leg   random nets of the grammar x precision tuples x coefficients: the model's wiring of
                     quantizer objects (who shares what, which out-quantizer is whose in-quantizer) vs the
                     real MPS object (`is` identity); the model's export plan (in, w, out bits + candidate
                     indices) vs summary() vs the sampled one-hot coefficients vs the precision attributes
                     and object identities of the exported Quant* layers.
                     Padding mode / padding / stride / dilation of a conv are part of the abstract per-layer
                     map of the Lean model (`Sem.kernel`): nothing changes there, they are exercised by the
                     end-to-end oracle only.
oracle leg           the property itself on the real code: torch.equal(MPS.eval()(x), export().eval()(x));
                     exported bit-widths == summary(); input bit-width of every exported layer == output
                     bit-width of the exported module that produced its input (walked on the exported fx
                     graph, independently of the model).
"""
import json
import random

from .. import common
from . import mps_common as mc

FIND_INQ = 'C02:in-quantizer:mps-module-in-input-component'
FIND_REUSE_IN = 'C02:in-precision:reused-layer:call-site-on-network-input'


def _run_case(case):
    """One net: everything observed on the real implementation (runs in a worker process)."""
    import torch
    import warnings
    warnings.filterwarnings('ignore')
    torch.set_num_threads(1)
    from plinio.cost import params_bit
    from plinio.methods.mps.quant.nn import QuantConv2d, QuantLinear, QuantIdentity
    desc, cfg = case['desc'], case['cfg']
    res = {'class': mc.classify(desc), 'fail': []}
    try:
        m, shape = mc.make_mps(desc, cfg, params_bit)
        x = mc.rand_input(cfg, shape)
        line, slots = mc.request_line(desc, cfg, m)
        if line is None:
            res['line'] = None
            res['slots_real'] = [s[0] for s in mc.mps_slots(m)]
            return res
        res['line'] = line
        res['wire'] = mc.real_wire(m, slots)
        if case.get('train_first'):
            # a training-mode forward (soft / Gumbel-noisy coefficients) right before export():
            # the exported network must still be the eval-mode network
            m.train()
            torch.manual_seed(cfg['xseed'])
            with torch.no_grad():
                m(x)
            summ_before = m.summary()      # what summary() says at the moment of the export
            e = m.export()
            m.eval()
            with torch.no_grad():
                y = m(x)
        else:
            m.eval()
            with torch.no_grad():
                y = m(x)
            summ_before = m.summary()
            e = m.export()
        e.eval()
        with torch.no_grad():
            y2 = e(x)
        res['plan_summary'] = mc.plan_from_summary(m, slots)
        res['plan_theta'] = mc.plan_from_theta(m, slots)
        res['plan_export'] = mc.plan_from_export(m, e, slots)
        # bias quantizer object shared with the searchable layer
        shared_b = []
        for (tag, mi_, _), (rtag, name, mod, node) in zip(slots, mc.mps_slots(m)):
            if tag == 'L' and mod.bias is not None:
                shared_b.append(e.get_submodule(name).b_quantizer is mod.b_mps_quantizer.qtz_func)
        res['bias_q_shared'] = all(shared_b)
        # ---- oracle 1: bit-identical outputs
        finite = bool(torch.isfinite(y).all())
        res['finite'] = finite
        if y.shape != y2.shape or not torch.equal(y, y2):
            d = float((y - y2).abs().max()) if y.shape == y2.shape else 'shape'
            res['fail'].append(('output', 'eval-mode MPS output differs from exported network: max abs diff %s' % d))
        # ---- oracle 1b: a second export after the weights moved (selection unchanged) is again the
        # eval-mode model ("for every value of the weights": export() must not return a stale network)
        if case.get('two_exports'):
            g2 = torch.Generator().manual_seed(cfg['xseed'] + 1)
            with torch.no_grad():
                for (tag, mi_, _), (rtag, name, mod, node) in zip(slots, mc.mps_slots(m)):
                    if tag == 'L':
                        mod.weight.add_(torch.randn(mod.weight.shape, generator=g2) * 0.1)
                        if mod.bias is not None:
                            mod.bias.add_(torch.randn(mod.bias.shape, generator=g2) * 0.1)
            m.eval()
            with torch.no_grad():
                y3 = m(x)
            e2 = m.export()
            e2.eval()
            with torch.no_grad():
                y4 = e2(x)
            if torch.equal(y3, y):
                res['weights_moved_output_unchanged'] = True
            if y3.shape != y4.shape or not torch.equal(y3, y4):
                d = float((y3 - y4).abs().max()) if y3.shape == y4.shape else 'shape'
                res['fail'].append(('second-export', 'after a weight update (same selection) the second export() differs from '
                                    'the eval-mode model: max abs diff %s' % d))
        # ---- oracle 2: exported bit-widths are the ones summary() reports
        for summ, when in ((summ_before, 'just before export()'), (m.summary(), 'after the eval forward')):
            for name, l in e.named_modules():
                if isinstance(l, (QuantConv2d, QuantLinear)):
                    got = (int(l.in_quantizer.precision), int(l.w_quantizer.precision), int(l.out_quantizer.precision))
                    s = summ[name]
                    want = (s['in_precision'], s['w_precision'], s['out_precision'])
                    if got != want:
                        res['fail'].append(('summary', 'exported %s uses (in,w,out)=%s, summary() (%s) reports %s'
                                            % (name, got, when, want)))
                elif isinstance(l, QuantIdentity):
                    if int(l.out_quantizer.precision) != summ[name]['out_precision']:
                        res['fail'].append(('summary', 'exported %s uses out=%s, summary() (%s) reports %s'
                                            % (name, int(l.out_quantizer.precision), when, summ[name]['out_precision'])))
        # ---- oracle 3: in bit-width = out bit-width selected for the tensor consumed (exported graph)
        qmods = (QuantConv2d, QuantLinear, QuantIdentity)
        for n in e.graph.nodes:
            if n.op != 'call_module':
                continue
            l = e.get_submodule(str(n.target))
            if not isinstance(l, (QuantConv2d, QuantLinear)):
                continue
            prev = n.all_input_nodes[0]
            while not (prev.op == 'call_module' and isinstance(e.get_submodule(str(prev.target)), qmods)):
                if prev.op == 'placeholder':
                    prev = None
                    break
                prev = prev.all_input_nodes[0]
            if prev is None:
                continue
            pm = e.get_submodule(str(prev.target))
            if int(l.in_quantizer.precision) != int(pm.out_quantizer.precision):
                res['fail'].append(('in-precision', 'layer %s has in_precision %d but consumes the output of %s quantized '
                                    'at %d bit' % (n.target, int(l.in_quantizer.precision), prev.target,
                                                   int(pm.out_quantizer.precision))))
    except Exception as ex:   # a crash of the implementation on a supported net is a failure of the property
        import traceback
        res['fail'].append(('exception', '%s: %s' % (type(ex).__name__, str(ex)[:200])))
        res['tb'] = traceback.format_exc().splitlines()[-4:]
    return res


def _gen_cases(rng, n):
    cases = []
    for k in range(n):
        # every fifth net puts a searchable module (depthwise conv / add) directly on the network input
        first = 'dw' if k % 10 == 3 else ('addin' if k % 10 == 7 else None)
        # every other net draws Conv2d hyper-parameter variants (padding_mode, integer / 'same' / 'valid'
        # padding, dilation) on top of kernel size / stride / bias
        if k % 12 == 11:
            # one conv module applied to the outputs of two different producers (siamese branches)
            desc = mc.gen_siamese_desc(rng)
        elif k % 12 == 8:
            # one conv module invoked on the network input and on an inner tensor
            desc = mc.gen_reuse_input_desc(rng)
        elif k % 12 == 2:
            # one conv module invoked twice whose results feed different sums
            desc = mc.gen_split_reuse_desc(rng)
        elif k % 12 == 5:
            # one conv module invoked at two resolutions on tensors of one producer
            desc = mc.gen_reuse_desc(rng)
        else:
            desc = mc.gen_desc(rng, first=first, conv_variants=(k % 2 == 0))
        cfg = mc.make_cfg(rng)
        if desc.get('reuse_in'):
            # network input and inner activations at different bit-widths, whatever the coefficients
            cfg['ip'], cfg['ap'] = [rng.choice([4, 8])], [2]
        if k % 4 == 1:
            cfg['ties'] = 1      # tie stream: exactly equal top coefficients; the selection is the first maximum
        cases.append({'kind': 'net', 'desc': desc, 'cfg': cfg, 'train_first': int(rng.random() < 0.4),
                      'two_exports': int(k % 3 == 0)})
    return cases


def _key(cls, what, ties=False):
    if what == 'in-precision' and cls == 'mps-module-in-input-component':
        return FIND_INQ
    return 'C02:%s:%s%s' % (what, cls, ':coefficient-tie' if ties else '')


def _judge(chk, case, res):
    """oracle verdicts of one case -> violations"""
    for what, msg in res['fail']:
        key = _key(res['class'], what, bool(case['cfg'].get('ties')))
        if case['desc'].get('reuse_in') and what == 'in-precision':
            chk.violation(FIND_REUSE_IN, msg, case)
            continue
        if case['desc'].get('siamese'):
            key += ':reused-layer:call-sites-on-different-producers'
        if case['desc'].get('split'):
            key += ':reused-layer:call-sites-in-different-components'
        if what in ('output', 'exception') and any(mc._opts(i).get('pm', 'zeros') != 'zeros' for i in case['desc']['prog']
                                                   if i[0] in ('conv', 'dw')):
            key += ':non-zero-padding-mode'
        chk.violation(key, msg, case)


def run(chk):
    chk.rule = ('random SSA nets of the grammar (Conv2d incl. depthwise, kernel 1/3, stride 1/2, bias on/off; every other net '
                'also draws padding_mode in {zeros, reflect, replicate, circular}, padding in {k//2, 0, 1, 2, same, valid} '
                'and dilation 1/2 per conv; Conv-BN, Linear, Linear-BN, residual add '
                'with 1-2 layer branch, relu/relu6/none, avg/max pooling, flatten; every 5th net has a depthwise '
                'conv or a residual add directly on the network input) x precision tuples: 1..3 values of {2,4,8} in '
                'random order, drawn separately for weights / activations / network input x coefficients with gaps '
                '>= 1/16 per quantizer object x T in {0.05,0.3,1,5,20} x gumbel on/off x export after an eval forward '
                'or right after a training forward; every 3rd net is exported a second time after a weight update with unchanged '
                'selection; every 4th net draws its coefficients from the tie stream (exactly equal top '
                'coefficients, selection = first maximum). non-trivial = at least two candidates for some quantizer; '
                'distinct = distinct (program, tuples, coefficients)')
    chk.trusted.append('torch.fx tracing, BatchNorm fusion arithmetic, torch kernels and the quantizer functions '
                       'themselves (abstract in the theorems, exercised by the end-to-end oracle)')
    chk.assumptions.append('"bit-identical" leans on 1*x + 0*y == x in IEEE arithmetic, which needs the outputs y of '
                           'the non-selected quantizers to be finite (observed: all outputs finite; quantizer ranges '
                           'are C13)')
    chk.assumptions.append('eval-mode sampling is one-hot at the arg-max of the raw coefficients for every temperature '
                           '(C10 softmax_argmax; here: argmax_temperature_invariant over Q and checked on the sampled '
                           'theta of every net)')
    chk.prove()
    n = 120 if chk.quick else 1500
    cases = _gen_cases(chk.rng, n)
    results = common.pmap(_run_case, cases)
    lines, idx = [], []
    for k, r in enumerate(results):
        if r.get('line'):
            lines.append(r['line'])
            idx.append(k)
    model = chk.driver('C02', lines)
    answers = {k: mc.parse_answer(a) for k, a in zip(idx, model)}
    n_pin = 0
    for k, (case, r) in enumerate(zip(cases, results)):
        cid = json.dumps([case['desc']['prog'], case['cfg']['wp'], case['cfg']['ap'], case['cfg']['ip'],
                          case['cfg']['aseed']])
        ops = sorted(set(i[0] for i in case['desc']['prog']))
        nontriv = max(len(case['cfg']['wp']), len(case['cfg']['ap']), len(case['cfg']['ip'])) > 1
        chk.count(cid, nontrivial=nontriv,
                  sample={'prog': case['desc']['prog'], 'cfg': {k2: case['cfg'][k2] for k2 in ('wp', 'ap', 'ip', 'T', 'gumbel')}},
                  bucket='class:' + r['class'])
        for o in ops:
            chk.hist['op:' + o] = chk.hist.get('op:' + o, 0) + 1
        for ins in case['desc']['prog']:
            if ins[0] in ('conv', 'dw'):
                o_ = mc._opts(ins)
                for hk in ('padding_mode:' + o_.get('pm', 'zeros'),
                           'padding:' + (o_['pad'] if isinstance(o_.get('pad'), str) else ('default' if 'pad' not in o_ else 'other-int')),
                           'dilation:%d' % o_.get('dil', 1), 'stride:%d' % ins[4 if ins[0] == 'conv' else 3]):
                    chk.hist[hk] = chk.hist.get(hk, 0) + 1
        chk.hist['train_first=%d' % case['train_first']] = chk.hist.get('train_first=%d' % case['train_first'], 0) + 1
        rk = 'reuse:' + ('on-network-input' if case['desc'].get('reuse_in') else 'split-sums' if case['desc'].get('split') else 'siamese' if case['desc'].get('siamese') else ('one-producer' if any(i[0] == 'reuse' for i in case['desc']['prog']) else 'none'))
        chk.hist[rk] = chk.hist.get(rk, 0) + 1
        chk.hist['T=%s' % case['cfg']['T']] = chk.hist.get('T=%s' % case['cfg']['T'], 0) + 1
        chk.hist['gumbel=%d' % case['cfg']['gumbel']] = chk.hist.get('gumbel=%d' % case['cfg']['gumbel'], 0) + 1
        tk = 'ties=%d' % int(bool(case['cfg'].get('ties')))
        chk.hist['two_exports=%d' % case.get('two_exports', 0)] = chk.hist.get('two_exports=%d' % case.get('two_exports', 0), 0) + 1
        chk.hist[tk] = chk.hist.get(tk, 0) + 1
        _judge(chk, case, r)
        if r.get('finite') is False:
            chk.observe('non-finite network output on a generated input (the 0*y assumption does not apply there)')
        if k not in answers:
            if 'line' in r and r['line'] is None:
                chk.corr(case, 'slots:%s' % r.get('slots_real'), 'slots:model', 'searchable modules of the converted graph')
            continue
        a = answers[k]
        if a.get('pindiff') == '1':
            n_pin += 1
        chk.corr(case, r.get('wire'), a.get('wire'), 'identity of in/out/weight quantizer objects per searchable module')
        chk.corr(case, r.get('plan_summary'), a.get('plan'), 'export plan vs summary() and arg-max of alpha')
        chk.corr(case, r.get('plan_theta'), a.get('plan'), 'export plan vs the one-hot coefficients sampled in eval mode')
        chk.corr(case, r.get('plan_export'), a.get('plan'),
                 'export plan vs precision attributes / object identity of the exported Quant* layers')
        chk.corr(case, r.get('bias_q_shared'), True, 'exported bias quantizer is the searchable layer\'s object')
    chk.extra['nets_where_pinned_walk_differs'] = n_pin
    broken = bool(chk.proof_broken or chk.corr_disagreements)
    if broken and not chk.violations:
        # escalate: search the implementation for a failing input of the property itself
        extra = _gen_cases(random.Random(chk.seed + 7919), n * 4)
        for c in extra:
            c['train_first'] = 1 if chk.rng.random() < 0.7 else 0
        for case, r in zip(extra, common.pmap(_run_case, extra)):
            chk.count(json.dumps([case['desc']['prog'], case['cfg']['aseed']]), bucket='escalated')
            _judge(chk, case, r)


def replay(data):
    common.use_repo_on_path()
    case = data['case']
    r = _run_case(case)
    print('class:', r['class'])
    print('program:', case['desc']['prog'])
    print('cfg:', case['cfg'], 'train_first:', case.get('train_first'))
    for what, msg in r['fail']:
        print('FAIL [%s] %s' % (what, msg))
    if not r['fail']:
        print('property holds on this case')
    return 1 if r['fail'] else 0
