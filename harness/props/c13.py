"""C13 — quantizers emit values that fit their declared bit-width and scale.

proof leg            lean/PlinioVerif/Props/C13.lean (ranges, <=0 -> 0, >=clip -> one top level, monotone,
                     fq = n*scale [PACT: the exact identity fq - n*scale = n*eps/(2^p-1)], error bounds,
                     truncation, bias multiple / zero at zero scale), for all bit-widths and inputs.
correspondence leg   a float32 IS a rational: every float input/parameter is sent to the Q-valued Lean
                     model (Drivers/C13.lean) as its exact rational; DISCRETE outputs (integer levels,
                     top level, scales where exactly representable) are compared exactly.  Inputs whose
                     exact pre-rounding value lies within float error of a rounding boundary are counted
                     under `near_boundary_skipped` instead of compared, unless every float operation on
                     them is exact by construction (power-of-two scales, inputs on a scale/4 grid): the
                     exhaustive boundary sweep for bits {2,3,4,8} is of that kind and is compared in full.
stateful leg         every quantizer is also driven as a STATEFUL object over short histories (train()/eval(),
                     forwards on same-shaped but differently scaled tensors, in-place parameter edits, dequantize
                     toggles, state_dict save/load into a fresh instance): after every forward the predicates are
                     demanded w.r.t. the tensor just passed and the scale reported for THAT call, and the output is
                     compared with the model, which is a pure function of the current input and parameters
                     (finding keys `C13:<Quantizer>:stale-state:<clause>`; replay = the call sequence).
oracle leg           the property's own predicates on the outputs of the real quantizers (exact rational
                     arithmetic on the float32 values; float slack only where the real-valued clause is
                     subject to float32 rounding, and then a few ulp).
"""
import math
from fractions import Fraction as Fr

W_BITS = [0, 2, 3, 4, 5, 6, 7, 8]
A_BITS = [2, 3, 4, 5, 6, 7, 8]
SWEEP_BITS = [2, 3, 4, 8]
CLIPS = [0.05, 0.1, 0.5, 1.0, 6.0, 37.3, 1000.0]
U24 = Fr(1, 2 ** 24)          # half an ulp, relative (one correctly rounded float32 operation)
TINY = Fr(1, 2 ** 140)


# ----------------------------------------------------------------------------- exact helpers
def F(x):
    """exact rational of a float (float32 values arrive as Python floats, exactly)"""
    return Fr(float(x))


def rs(q):
    q = Fr(q)
    return str(q.numerator) if q.denominator == 1 else '%d/%d' % (q.numerator, q.denominator)


def rl(xs):
    return '[' + ','.join(rs(x) for x in xs) + ']'


def f32(q):
    """nearest float32 of a rational, as a rational (None if it overflows)"""
    import numpy as np
    try:
        v = np.float32(float(q))
    except OverflowError:
        return None
    if not np.isfinite(v):
        return None
    return Fr(float(v))


def is_f32(q):
    """q is exactly representable in float32 (normal range)"""
    if q == 0:
        return True
    n, d = abs(q.numerator), q.denominator
    if d & (d - 1):
        return False
    if n.bit_length() - (n & -n).bit_length() + 1 > 24:
        return False
    e = n.bit_length() - d.bit_length()
    return -120 < e < 120


def parse_kv(ans):
    out = {}
    for tok in ans.split():
        k, _, v = tok.partition('=')
        out[k] = v
    return out


def parse_ints(s):
    s = s.strip()[1:-1]
    return [int(t) for t in s.split(',')] if s else []


def parse_rat(s):
    return Fr(s)


def nxt(x, up=True):
    import numpy as np
    return float(np.nextafter(np.float32(x), np.float32(math.inf if up else -math.inf)))


def to32(x):
    import numpy as np
    return float(np.float32(x))


# ----------------------------------------------------------------------------- generators
def rand_mag(rng):
    """a float32 of magnitude in [2^-30, 2^13]"""
    v = to32(2.0 ** rng.uniform(-30, 13))
    v = min(max(v, 2.0 ** -30), 2.0 ** 13)
    return v if rng.random() < 0.5 else -v


def gen_channel(rng, kind, n):
    if kind == 'zero':
        return [0.0] * n
    if kind == 'const':
        c = rand_mag(rng)
        return [c] * n
    if kind == 'single':
        return [rand_mag(rng)]
    e = rng.uniform(-30, 12.9)
    if kind == 'rand':
        out = []
        for _ in range(n):
            v = to32(rng.gauss(0, 1) * 2.0 ** e)
            a = min(max(abs(v), 2.0 ** -30), 2.0 ** 13)
            out.append(math.copysign(a, v) if v != 0 else a)
        return out
    if kind == 'mixed':            # mixed signs with zeros and widely different magnitudes
        out = []
        for _ in range(n):
            r = rng.random()
            out.append(0.0 if r < 0.2 else rand_mag(rng))
        return out
    if kind == 'negmax':           # the largest magnitude is negative
        out = [to32(rng.uniform(-1, 1) * 2.0 ** e) for _ in range(n)]
        out = [math.copysign(max(abs(v), 2.0 ** -30), v) for v in out]
        m = max(abs(v) for v in out)
        out[rng.randrange(n)] = -to32(min(m * 1.5, 2.0 ** 13))
        return out
    if kind == 'levels':           # values near multiples of half a step of the eventual scale
        m = abs(rand_mag(rng))
        out = [m, -m]
        for _ in range(n - 2):
            out.append(to32(m * rng.randint(-40, 40) / 40.0))
        return out
    raise ValueError(kind)


def weight_sweep_channel(p, k):
    """scale 2^k exactly; every multiple of scale/4 in range, +- one ulp around every rounding boundary"""
    s = 2.0 ** k
    top = 2 * (2 ** p - 1)                      # max = top * s/4
    xs = [j * s / 4 for j in range(-top, top + 1)]
    for m in range(-2 ** (p - 1), 2 ** (p - 1)):
        h = (m + 0.5) * s
        for v in (nxt(h, True), nxt(h, False)):
            if abs(v) <= top * s / 4:
                xs.append(v)
    return xs


def pact_sweep_clip(p, k):
    """a float32 clip with fl32(clip + 1e-3) == (2^p-1)*2^-k exactly, so that scale_factor == 2^k"""
    import torch
    den = (2 ** p - 1) * 2.0 ** -k
    c = to32(den - 1e-3)
    cands = [c]
    up, dn = c, c
    for _ in range(16):
        up, dn = nxt(up, True), nxt(dn, False)
        cands += [up, dn]
    for c in cands:
        if float(torch.tensor([c], dtype=torch.float32)[0] + 1e-3) == den:
            return c
    return None


def pact_sweep_points(p, k, clip):
    s = 2.0 ** -k
    xs = [0.0, -s / 8, -clip, clip, nxt(clip, True), nxt(clip, False), 2 * clip, 2.0 ** -40]
    for m in range(0, 2 ** p + 2):
        b = m * s
        xs += [b, nxt(b, True) if b > 0 else 2.0 ** -30, b + s / 4, b + s / 2, b + 3 * s / 4]
        if m > 0:
            xs.append(nxt(b, False))
    return [to32(x) for x in xs]


def gen_cases(rng, quick, mult=1):
    """-> dict of case lists; every case is JSON-serialisable"""
    cases = {'w': [], 'a': [], 'b': [], 'r': []}
    kinds = ['rand', 'rand', 'mixed', 'negmax', 'levels', 'const', 'zero', 'single']
    n_w = (40 if quick else 1200) * mult
    for p in W_BITS:
        for t in range(n_w):
            kind = kinds[t % len(kinds)]
            n = 1 if kind == 'single' else rng.choice([2, 5, 9, 12, 27])
            chans = []
            for c in range(rng.choice([1, 3, 4])):
                kk = kind if (c == 0 or kind == 'single') else rng.choice([k for k in kinds if k != 'single'])
                chans.append(gen_channel(rng, kk, n))
            cases['w'].append({'q': 'w', 'bits': p, 'kind': kind, 'w': chans,
                               'shape4': rng.random() < 0.3,
                               'layout': rng.choice(['channels_last', 'sliced', 'transposed']) if t % 5 == 4 else None})
    for p in SWEEP_BITS:
        for k in ([-20, -3, 0, 5] if quick else [-29, -20, -11, -3, -1, 0, 1, 5, 6]):
            if (2 ** p - 1) * 2.0 ** (k - 1) > 2.0 ** 13:
                continue
            cases['w'].append({'q': 'w', 'bits': p, 'kind': 'sweep', 'k': k,
                               'w': [weight_sweep_channel(p, k)], 'shape4': False})
    # activations
    n_a = (120 if quick else 3000) * mult
    for p in A_BITS:
        clips = list(CLIPS) + [to32(math.exp(rng.uniform(math.log(0.05), math.log(1000.0))))
                               for _ in range(3 if quick else 12)]
        for clip in clips:
            clip = to32(clip)
            xs = [0.0, clip, nxt(clip, True), nxt(clip, False), -clip, 2 * clip, 1e4, -1e-30, 2.0 ** -30]
            for _ in range(n_a):
                r = rng.random()
                if r < 0.7:
                    xs.append(rng.uniform(-0.2, 1.3) * clip)
                elif r < 0.85:      # around a level boundary of the real-valued step
                    m = rng.randint(0, 2 ** p)
                    xs.append(m * (clip + 1e-3) / (2 ** p - 1) * (1 + rng.uniform(-1e-5, 1e-5)))
                else:
                    xs.append(rand_mag(rng))
            cases['a'].append({'q': 'a', 'bits': p, 'clip': clip, 'kind': 'rand',
                               'x': [to32(x) for x in xs]})
    for p in SWEEP_BITS:
        for k in range(-6, 13):
            den = (2 ** p - 1) * 2.0 ** -k
            if not (0.05 <= den <= 1000.0):
                continue
            if quick and k % 3:
                continue
            clip = pact_sweep_clip(p, k)
            if clip is None:
                continue
            cases['a'].append({'q': 'a', 'bits': p, 'clip': clip, 'kind': 'sweep', 'k': k,
                               'x': pact_sweep_points(p, k, clip)})
    # bias
    n_b = (150 if quick else 6000) * mult
    for t in range(n_b):
        kind = ['rand', 'zero-scale', 'tiny-scale', 'grid', 'mono'][t % 5]
        cout = rng.choice([1, 3, 6])
        pa = rng.choice(A_BITS)
        clip = to32(rng.choice(CLIPS))
        if kind == 'grid':
            sa = 2.0 ** rng.randint(-10, 2)
            sw = [2.0 ** rng.randint(-12, 0) for _ in range(cout)]
            b = [sa * s * rng.randint(-4000, 4000) / 4 for s in sw]
        else:
            sa = None                        # taken from a real PACTAct(pa, clip).scale
            if kind == 'zero-scale':
                sw = [0.0 if rng.random() < 0.7 else abs(rand_mag(rng)) / 127 for _ in range(cout)]
            elif kind == 'tiny-scale':
                sw = [to32(2.0 ** rng.uniform(-40, -20)) for _ in range(cout)]
            elif kind == 'mono':
                s = to32(2.0 ** rng.uniform(-14, -2))
                cout = 12
                sw = [s] * cout
            else:
                sw = [to32(2.0 ** rng.uniform(-22, 2)) for _ in range(cout)]
            if kind == 'mono':
                base = rand_mag(rng)
                b = sorted(to32(base * rng.uniform(-1, 1)) for _ in range(cout))
            else:
                b = [rand_mag(rng) if rng.random() < 0.9 else 0.0 for _ in range(cout)]
        cases['b'].append({'q': 'b', 'kind': kind, 'pa': pa, 'clip': clip, 'sa': sa, 'sw': sw, 'b': b})
    # torch.round itself
    xs = []
    for _ in range((300 if quick else 3000) * mult):
        r = rng.random()
        if r < 0.5:
            xs.append(rng.randint(-600, 600) + 0.5)
        elif r < 0.7:
            xs.append(float(rng.randint(-600, 600)))
        else:
            xs.append(to32(rng.uniform(-300, 300)))
    cases['r'].append({'q': 'r', 'x': xs})
    return cases


# ----------------------------------------------------------------------------- real side
def apply_layout(w, layout):
    """the same values in a non-contiguous float32 tensor: a channels_last conv weight (what
    model.to(memory_format=torch.channels_last) produces), a strided slice of a wider tensor, a transposed buffer"""
    import torch
    if not layout:
        return w
    if layout == 'channels_last':
        if w.dim() != 4:
            w = w.view(w.shape[0], -1, 1, 1) if w.shape[1] % 2 else w.view(w.shape[0], w.shape[1] // 2, 2, 1)
        return w.contiguous(memory_format=torch.channels_last)
    flat = w.reshape(w.shape[0], -1)
    if layout == 'sliced':
        big = torch.zeros(flat.shape[0], 2 * flat.shape[1])
        big[:, ::2] = flat
        return big[:, ::2]
    if layout == 'transposed':
        return flat.t().contiguous().t()
    raise ValueError(layout)


def real_weight(case):
    import torch
    from plinio.methods.mps.quant.quantizers import MinMaxWeight
    p, chans = case['bits'], case['w']
    w = torch.tensor(chans, dtype=torch.float32)
    if case.get('shape4') and w.shape[1] % 3 == 0:
        w = w.view(w.shape[0], w.shape[1] // 3, 3, 1)
    w = apply_layout(w, case.get('layout'))
    q = MinMaxWeight(p, w.shape[0], dequantize=False)
    n = q(w if case.get('layout') else w.clone())
    s = q.scale
    qd = MinMaxWeight(p, w.shape[0], dequantize=True)
    fq = qd(w if case.get('layout') else w.clone())
    sd = qd.scale
    cout = w.shape[0]
    return {'n': n.reshape(cout, -1).tolist(), 'fq': fq.reshape(cout, -1).tolist(),
            's': s.reshape(-1).tolist(), 'sd': sd.reshape(-1).tolist()}


def real_act(case):
    import torch
    from plinio.methods.mps.quant.quantizers import PACTAct
    p, clip = case['bits'], case['clip']
    x = torch.tensor(case['x'], dtype=torch.float32)
    a = PACTAct(p, init_clip_val=clip, dequantize=False)
    ad = PACTAct(p, init_clip_val=clip, dequantize=True)
    with torch.no_grad():
        n = a(x.clone())
        fq = ad(x.clone())
    c32 = a.clip_val.data[0]
    den = c32 + 1e-3                               # the very expression of PACTActSTE.forward
    sf = (2 ** p - 1) / den
    return {'n': n.tolist(), 'fq': fq.tolist(), 'scale': float(a.scale), 'clip32': float(c32),
            'den': float(den), 'sf': float(sf)}


def real_bias(case):
    import torch
    from plinio.methods.mps.quant.quantizers import QuantizerBias, PACTAct
    if case['sa'] is None:
        sa = PACTAct(case['pa'], init_clip_val=case['clip']).scale      # 0-dim float32 tensor
    else:
        sa = torch.tensor(case['sa'], dtype=torch.float32)
    sw = torch.tensor(case['sw'], dtype=torch.float32)
    b = torch.tensor(case['b'], dtype=torch.float32)
    q = QuantizerBias(32, len(case['b']), dequantize=False)
    qd = QuantizerBias(32, len(case['b']), dequantize=True)
    with torch.no_grad():
        n = q(b.clone(), sa, sw)
        fq = qd(b.clone(), sa, sw)
    return {'n': n.tolist(), 'fq': fq.tolist(), 's': qd.scale.tolist(), 'sa': float(sa)}


def real_round(case):
    import torch
    return {'n': torch.round(torch.tensor(case['x'], dtype=torch.float32)).tolist()}


def real_dummy(xs):
    import torch
    from plinio.methods.mps.quant.quantizers import DummyQuantizer
    d = DummyQuantizer(8)
    x = torch.tensor(xs, dtype=torch.float32)
    return d(x).tolist(), float(d.scale)


# ----------------------------------------------------------------------------- stateful histories
QNAME = {'w': 'MinMaxWeight', 'a': 'PACTAct', 'b': 'QuantizerBias', 'd': 'DummyQuantizer'}


def _scaled_channels(rng, cout, n, e):
    """cout channels of n float32 values of magnitude ~2^e (with zero / constant / negative channels)"""
    chans = []
    for c in range(cout):
        r = rng.random()
        if r < 0.1:
            ch = [0.0] * n
        elif r < 0.2:
            ch = [to32(rng.choice([-1, 1]) * 0.37 * 2.0 ** e)] * n
        else:
            ch = [to32(rng.gauss(0, 1) * 2.0 ** e) for _ in range(n)]
            ch = [math.copysign(min(max(abs(v), 2.0 ** -30), 2.0 ** 13), v) if v != 0 else 2.0 ** -30 for v in ch]
            if r < 0.35:
                ch = [-abs(v) for v in ch]
        chans.append(ch)
    return chans


def gen_histories(rng, quick, mult=1):
    """call sequences on ONE quantizer instance (JSON-serialisable)"""
    out = []
    n = (60 if quick else 900) * mult
    for t in range(n):
        cls = ['w', 'w', 'w', 'a', 'b', 'd'][t % 6]
        ops = []
        if rng.random() < 0.7:
            ops.append(['mode', rng.choice(['train', 'eval', 'eval'])])
        n_fwd = rng.randint(3, 6)
        if cls == 'w':
            bits = rng.choice(W_BITS)
            cout, k = rng.choice([1, 3, 4]), rng.choice([2, 5, 9, 12])
            e = rng.uniform(-12, 6)
            have_param = False
            for i in range(n_fwd):
                e = min(max(e + rng.choice([-1, 1]) * rng.uniform(1, 8), -28), 12)      # same shape, other scale
                r = rng.random()
                if r < 0.35 or (not have_param and r < 0.7):
                    ops.append(['set', _scaled_channels(rng, cout, k, e)])       # in-place copy into the held tensor
                    have_param = True
                elif r < 0.55 and have_param:
                    ops.append(['mul', 2.0 ** rng.choice([-9, -4, -1, 1, 3, 7])])   # in-place edit (optimizer step)
                else:
                    ops.append(['fwd', _scaled_channels(rng, cout, k, e)])       # another tensor of the same shape
                r = rng.random()
                if r < 0.25:
                    ops.append(['mode', rng.choice(['train', 'eval'])])
                elif r < 0.35:
                    ops.append(['reload'])
            out.append({'q': 'h', 'cls': 'w', 'bits': bits, 'shape4': k % 3 == 0 and rng.random() < 0.5, 'ops': ops})
        elif cls == 'a':
            bits = rng.choice(A_BITS)
            clip = to32(rng.choice(CLIPS))
            for i in range(n_fwd):
                r = rng.random()
                if r < 0.4:
                    ops.append(['clip', to32(math.exp(rng.uniform(math.log(0.05), math.log(1000.0))))])
                elif r < 0.6:
                    ops.append(['clipmul', rng.choice([0.5, 2.0, 1.25])])
                ops.append(['fwd', None])         # inputs are drawn w.r.t. the clip value current at that point
                r = rng.random()
                if r < 0.25:
                    ops.append(['mode', rng.choice(['train', 'eval'])])
                elif r < 0.4:
                    ops.append(['reload'])
            out.append({'q': 'h', 'cls': 'a', 'bits': bits, 'clip': clip, 'ops': ops, 'xseed': rng.randrange(2 ** 30)})
        elif cls == 'b':
            cout = rng.choice([1, 3, 6])
            for i in range(n_fwd):
                kind = rng.choice(['live', 'live', 'zero', 'tiny'])
                sa = to32(rng.choice(CLIPS) / (2 ** rng.choice(A_BITS) - 1))
                if kind == 'zero':
                    sw = [0.0 if rng.random() < 0.6 else to32(2.0 ** rng.uniform(-12, 0)) for _ in range(cout)]
                elif kind == 'tiny':
                    sw = [to32(2.0 ** rng.uniform(-40, -22)) for _ in range(cout)]
                else:
                    sw = [to32(2.0 ** rng.uniform(-18, 1)) for _ in range(cout)]
                ops.append(['fwd', {'sa': sa, 'sw': sw,
                                    'b': [rand_mag(rng) if rng.random() < 0.9 else 0.0 for _ in range(cout)]}])
                r = rng.random()
                if r < 0.25:
                    ops.append(['mode', rng.choice(['train', 'eval'])])
                elif r < 0.35:
                    ops.append(['reload'])
            out.append({'q': 'h', 'cls': 'b', 'cout': cout, 'ops': ops})
        else:
            for i in range(n_fwd):
                ops.append(['fwd', [rand_mag(rng) if rng.random() < 0.9 else 0.0 for _ in range(5)]])
                if rng.random() < 0.3:
                    ops.append(['mode', rng.choice(['train', 'eval'])])
                elif rng.random() < 0.2:
                    ops.append(['reload'])
            out.append({'q': 'h', 'cls': 'd', 'ops': ops})
    return out


def _act_inputs(seed, p, clip):
    import random
    r = random.Random(seed)
    xs = [0.0, clip, nxt(clip, True), nxt(clip, False), -clip, 2 * clip, -1e-30]
    for _ in range(24):
        u = r.random()
        if u < 0.7:
            xs.append(r.uniform(-0.2, 1.3) * clip)
        else:
            xs.append(r.randint(0, 2 ** p) * (clip + 1e-3) / (2 ** p - 1) * (1 + r.uniform(-1e-5, 1e-5)))
    return [to32(x) for x in xs]


def real_history(case):
    """drive ONE quantizer instance through the history; one record per forward: the synthetic single-call case
    (current input, current parameters) and what the live object returned / reported for that call"""
    import torch
    from plinio.methods.mps.quant.quantizers import MinMaxWeight, PACTAct, QuantizerBias, DummyQuantizer
    cls = case['cls']
    cout0 = 1
    if cls == 'w':
        cout0 = len(next(o[1] for o in case['ops'] if o[0] in ('set', 'fwd')))

    def fresh():
        if cls == 'w':
            return MinMaxWeight(case['bits'], cout0, dequantize=True)
        if cls == 'a':
            return PACTAct(case['bits'], init_clip_val=case['clip'], dequantize=True)
        if cls == 'b':
            return QuantizerBias(32, case['cout'], dequantize=True)
        return DummyQuantizer(8)
    qz = fresh()
    training = True
    param = None
    steps = []
    for i, op in enumerate(case['ops']):
        if op[0] == 'mode':
            training = op[1] == 'train'
            qz.train(training)
        elif op[0] == 'reload':
            sd = {k: v.clone() for k, v in qz.state_dict().items()}
            qz = fresh()
            qz.load_state_dict(sd)
            qz.train(training)
        elif op[0] == 'clip':
            with torch.no_grad():
                qz.clip_val.data.fill_(op[1])
        elif op[0] == 'clipmul':
            with torch.no_grad():
                qz.clip_val.data.mul_(op[1])
        elif cls == 'w':
            if op[0] == 'set':
                t = torch.tensor(op[1], dtype=torch.float32)
                if param is None:
                    param = torch.nn.Parameter(t.clone())
                else:
                    with torch.no_grad():
                        param.copy_(t)
                w = param
            elif op[0] == 'mul':
                with torch.no_grad():
                    param.mul_(op[1])
                w = param
            else:
                w = torch.tensor(op[1], dtype=torch.float32)
            chans = w.detach().tolist()
            wv = w.view(w.shape[0], w.shape[1] // 3, 3, 1) if case.get('shape4') and w.shape[1] % 3 == 0 else w
            c = w.shape[0]
            qz.dequantize = False
            n = qz(wv).detach()
            s = qz.scale.detach().clone()
            qz.dequantize = True
            fq = qz(wv).detach()
            sd_ = qz.scale.detach().clone()
            steps.append({'i': i, 'case': {'q': 'w', 'bits': case['bits'], 'kind': 'history', 'w': chans, 'shape4': False},
                          'real': {'n': n.reshape(c, -1).tolist(), 'fq': fq.reshape(c, -1).tolist(),
                                   's': s.reshape(-1).tolist(), 'sd': sd_.reshape(-1).tolist()}})
        elif cls == 'a':
            p = case['bits']
            c32 = qz.clip_val.data[0].clone()
            xs = _act_inputs(case['xseed'] + i, p, float(c32))
            x = torch.tensor(xs, dtype=torch.float32)
            qz.dequantize = False
            n = qz(x.clone()).detach()
            scale = float(qz.scale)
            qz.dequantize = True
            fq = qz(x.clone()).detach()
            den = c32 + 1e-3
            steps.append({'i': i, 'case': {'q': 'a', 'bits': p, 'clip': float(c32), 'kind': 'history', 'x': xs},
                          'real': {'n': n.tolist(), 'fq': fq.tolist(), 'scale': scale, 'clip32': float(c32),
                                   'den': float(den), 'sf': float((2 ** p - 1) / den)}})
        elif cls == 'b':
            d = op[1]
            sa = torch.tensor(d['sa'], dtype=torch.float32)
            sw = torch.tensor(d['sw'], dtype=torch.float32)
            b = torch.tensor(d['b'], dtype=torch.float32)
            qz.dequantize = False
            n = qz(b.clone(), sa, sw).detach()
            qz.dequantize = True
            fq = qz(b.clone(), sa, sw).detach()
            steps.append({'i': i, 'case': {'q': 'b', 'kind': 'history', 'pa': 0, 'clip': 0.0, 'sa': d['sa'], 'sw': d['sw'],
                                           'b': d['b']},
                          'real': {'n': n.tolist(), 'fq': fq.tolist(), 's': qz.scale.detach().tolist(), 'sa': float(sa)}})
        else:
            x = torch.tensor(op[1], dtype=torch.float32)
            steps.append({'i': i, 'case': {'q': 'd', 'x': op[1]},
                          'real': {'out': qz(x).tolist(), 'scale': float(qz.scale)}})
    return {'steps': steps}


class HistChk:
    """routes the violations of one history step to the stale-state key class, with the call sequence as the case"""

    def __init__(self, chk, hist, step_no, op_index):
        self.chk, self.hist, self.step_no, self.op_index = chk, hist, step_no, op_index

    def violation(self, key, what, case):
        if self.step_no > 0:          # not the first forward of the instance: the state left by earlier calls matters
            a, b, c = key.split(':', 2)
            key = '%s:%s:stale-state:%s' % (a, b, c)
        h = dict(self.hist)
        h['ops'] = self.hist['ops'][:self.op_index + 1]
        pre = [o[0] if o[0] != 'mode' else o[1] for o in h['ops']]
        self.chk.violation(key, 'after the call sequence %s on ONE instance: %s' % (pre, what), h)


def oracle_history(chk, hist, real):
    """the property's predicates after EVERY forward, w.r.t. the tensor just passed and the scale reported then"""
    if 'error' in real:
        chk.violation('C13:%s:history-raises' % QNAME[hist['cls']], 'a call sequence raises %s' % real['error'], hist)
        return
    for k, st in enumerate(real['steps']):
        hc = HistChk(chk, hist, k, st['i'])
        c, r = st['case'], st['real']
        if c['q'] == 'w':
            oracle_weight(hc, c, r)
        elif c['q'] == 'a':
            oracle_act(hc, c, r)
        elif c['q'] == 'b':
            oracle_bias(hc, c, r)
        elif r['out'] != [to32(x) for x in c['x']] or r['scale'] != 1.0:
            hc.violation('C13:DummyQuantizer:identity', 'DummyQuantizer is not the identity with scale 1', c)


def evaluate(case):
    """real outputs of one case (top-level: used through pmap)"""
    import torch
    torch.set_num_threads(1)
    try:
        return {'w': real_weight, 'a': real_act, 'b': real_bias, 'r': real_round, 'h': real_history}[case['q']](case)
    except Exception as e:                      # a quantizer that raises is reported by the oracle
        return {'error': '%s: %s' % (type(e).__name__, str(e)[:200])}


def line_of(case, real):
    q = case['q']
    if q == 'r':
        return 'r x=' + rl(F(x) for x in case['x'])
    if q == 'w':      # one line per channel: handled by the caller
        raise ValueError
    if q == 'a':
        eps = Fr(1, 1000)
        if case['kind'] == 'sweep' and 'den' in real:
            eps = F(real['den']) - F(real['clip32'])      # the stabiliser the float32 run effectively used
        return 'a bits=%d clip=%s eps=%s x=%s' % (case['bits'], rs(F(real.get('clip32', case['clip']))),
                                                  rs(eps), rl(F(x) for x in case['x']))
    if q == 'b':
        return 'b sa=%s sw=%s b=%s' % (rs(F(real.get('sa', 0))), rl(F(x) for x in case['sw']),
                                       rl(F(x) for x in case['b']))


# ----------------------------------------------------------------------------- oracle predicates
def is_int(v):
    return math.isfinite(v) and v == int(v)


def small(case, **kw):
    """a replayable, small version of the case (one channel / few inputs)"""
    c = {k: v for k, v in case.items()}
    c.update(kw)
    return c


def oracle_weight(chk, case, real):
    p = case['bits']
    if 'error' in real:
        if case.get('layout'):
            chk.violation('C13:MinMaxWeight:non-contiguous-input',
                          'MinMaxWeight raises on a non-contiguous float32 tensor (%s): %s' % (case['layout'], real['error']), case)
        else:
            chk.violation('C13:MinMaxWeight:raises', 'MinMaxWeight raised %s' % real['error'], case)
        return
    for ci, ch in enumerate(case['w']):
        n, fq, s, sd = real['n'][ci], real['fq'][ci], real['s'][ci], real['sd'][ci]
        one = small(case, w=[ch], shape4=False)

        def viol(key, what):
            chk.violation('C13:MinMaxWeight:' + key, 'bits=%d: %s' % (p, what), one)
        if not all(math.isfinite(v) for v in n + fq + [s, sd]):
            viol('finite', 'non-finite output or scale')
            continue
        if p == 0:
            if any(v != 0 for v in n) or any(v != 0 for v in fq) or s != 0 or sd != 0:
                viol('zero-bits', '0-bit quantizer does not return zeros / zero scale')
            continue
        if s != sd:
            viol('scale-depends-on-dequantize', 'reported scale differs between dequantize modes')
        if not all(is_int(v) for v in n):
            viol('integer-valued', 'integer output is not integer-valued')
            continue
        lo, hi = -2 ** (p - 1), 2 ** (p - 1) - 1
        if min(n) < lo or max(n) > hi:
            viol('range', 'level %s outside [%d,%d]' % ([v for v in n if v < lo or v > hi][:1], lo, hi))
        if not s > 0:
            viol('scale-positive', 'reported scale %r is not positive' % s)
            continue
        order = sorted(range(len(ch)), key=lambda i: ch[i])
        if any(n[order[i]] > n[order[i + 1]] for i in range(len(ch) - 1)):
            viol('monotone', 'integer output is not monotone in the input')
        sF = F(s)
        for x, nv, fv in zip(ch, n, fq):
            prod = int(nv) * sF
            if abs(F(fv) - prod) > abs(prod) * U24 + TINY:
                viol('fq-eq-level-times-scale', 'fq=%r is not fl32(%d * %r)' % (fv, int(nv), s))
                break
            if not abs(F(fv) - F(x)) < sF:
                viol('error-below-step', '|fq - x| = %.3g >= scale %.3g at x=%r' % (abs(fv - x), s, x))
                break


def oracle_act(chk, case, real):
    p = case['bits']
    if 'error' in real:
        chk.violation('C13:PACTAct:raises', 'PACTAct raised %s' % real['error'], case)
        return
    xs, n, fq = case['x'], real['n'], real['fq']
    clip = real['clip32']

    def viol(key, what, idx):
        keep = sorted(set(idx))
        chk.violation('C13:PACTAct:' + key, 'bits=%d clip=%r: %s' % (p, clip, what),
                      small(case, x=[xs[i] for i in keep], kind='replay'))
    if not all(math.isfinite(v) for v in n + fq):
        viol('finite', 'non-finite output', [i for i, v in enumerate(n) if not math.isfinite(v)][:2])
        return
    if not all(is_int(v) for v in n):
        viol('integer-valued', 'integer output is not integer-valued', [i for i, v in enumerate(n) if not is_int(v)][:2])
        return
    bad = [i for i, v in enumerate(n) if v < 0 or v > 2 ** p - 1]
    if bad:
        viol('range', 'level %r outside [0,%d]' % (n[bad[0]], 2 ** p - 1), bad[:1])
    bad = [i for i, (x, v) in enumerate(zip(xs, n)) if x <= 0 and v != 0]
    if bad:
        viol('nonpositive-to-zero', 'x=%r <= 0 mapped to %r' % (xs[bad[0]], n[bad[0]]), bad[:1])
    top = [i for i, x in enumerate(xs) if x >= clip]
    if len({n[i] for i in top}) > 1:
        lv = sorted({n[i] for i in top})
        viol('common-top-level', 'inputs >= clip mapped to different levels %s' % lv,
             [next(i for i in top if n[i] == lv[0]), next(i for i in top if n[i] == lv[-1])])
    order = sorted(range(len(xs)), key=lambda i: xs[i])
    for a, b in zip(order, order[1:]):
        if n[a] > n[b]:
            viol('monotone', 'x=%r -> %r but x=%r -> %r' % (xs[a], n[a], xs[b], n[b]), [a, b])
            break
    scale = F(real['scale'])
    step_real = F(real['den']) / (2 ** p - 1)
    for i, (x, nv, fv) in enumerate(zip(xs, n, fq)):
        nv = int(nv)
        # fq = n * reported scale up to the 1e-3 stabiliser, never literal equality: the model proves the exact
        # identity fq - n*scale = n*1e-3/(2^p-1); the oracle demands 0 <= fq - n*scale <= n*1e-3/(2^p-1)
        # (float slack 2^-21 relative), so that a reported scale that includes the stabiliser is accepted too
        gap = F(fv) - nv * scale
        slack = abs(F(fv)) / 2 ** 21 + TINY
        if gap < -slack or gap > nv * Fr(1, 1000) / (2 ** p - 1) + slack:
            viol('fq-eq-level-times-scale', 'fq - n*scale = %.4g outside [0, n*1e-3/(2^p-1)] at x=%r (n=%d fq=%r)'
                 % (float(gap), x, nv, fv), [i])
            break
        if x >= 0 and F(fv) > F(x) * (1 + Fr(1, 2 ** 21)):
            viol('truncates', 'output %r exceeds input %r' % (fv, x), [i])
            break
        if 0 <= x <= clip and not (F(x) - F(fv) < step_real + F(x) / 2 ** 21):
            viol('error-below-step', 'x - fq = %.4g >= step %.4g at x=%r' % (x - fv, float(step_real), x), [i])
            break


def oracle_bias(chk, case, real):
    if 'error' in real:
        chk.violation('C13:QuantizerBias:raises', 'QuantizerBias raised %s' % real['error'], case)
        return
    n, fq, s, b = real['n'], real['fq'], real['s'], case['b']
    if not isinstance(s, list):
        s = [s] * len(b)

    def viol(key, what, idx):
        keep = sorted(set(idx))
        chk.violation('C13:QuantizerBias:' + key, what,
                      small(case, sa=real['sa'], sw=[case['sw'][i] for i in keep], b=[b[i] for i in keep]))
    for i, (bv, nv, fv, sv) in enumerate(zip(b, n, fq, s)):
        if not (math.isfinite(nv) and math.isfinite(fv)):
            viol('finite', 'non-finite output (%r, %r) for scale %r' % (nv, fv, sv), [i])
            return
        if not is_int(nv):
            viol('integer-valued', 'integer output %r is not an integer' % nv, [i])
            return
        if sv == 0 and (nv != 0 or fv != 0):
            viol('zero-scale', 'scale 0 gives %r / %r' % (nv, fv), [i])
            return
        prod = int(nv) * F(sv)
        if abs(F(fv) - prod) > abs(prod) * U24 + TINY:
            viol('multiple-of-scale', 'fq=%r is not fl32(%d * %r)' % (fv, int(nv), sv), [i])
            return
        if F(sv) > Fr(1, 10 ** 8) * (1 + Fr(1, 10 ** 5)):
            if not abs(F(fv) - F(bv)) < F(sv) + abs(F(bv)) / 2 ** 20:
                viol('error-below-step', '|fq - b| = %.4g >= scale %.4g at b=%r' % (abs(fv - bv), sv, bv), [i])
                return
    groups = {}
    for i, sv in enumerate(s):
        groups.setdefault(sv, []).append(i)
    for sv, idx in groups.items():
        if sv < 0:
            continue
        idx.sort(key=lambda i: b[i])
        for a, c in zip(idx, idx[1:]):
            if n[a] > n[c]:
                viol('monotone', 'b=%r -> %r but b=%r -> %r (scale %r)' % (b[a], n[a], b[c], n[c], sv), [a, c])
                return


# ----------------------------------------------------------------------------- correspondence
class Skips:
    def __init__(self):
        self.skipped = 0
        self.compared = 0
        self.exact = 0
        self.by = {}

    def add(self, what, skip):
        self.skipped += sum(skip)
        self.compared += len(skip) - sum(skip)
        self.by[what] = self.by.get(what, 0) + sum(skip)


def canon(levels_real, levels_model, skip):
    """skipped positions (float result may fall on either side of the rounding boundary) are not compared
    exactly, but must still be within one level of the model"""
    r, m = [], []
    for vr, vm, sk in zip(levels_real, levels_model, skip):
        if not is_int(vr):                       # NaN / inf / fractional: shown as it is
            r.append(repr(vr))
            m.append(str(int(vm)))
            continue
        # float error of the pre-rounding value is below |q| * 2^-21  (|q| ~ |level|)
        if sk and abs(int(vr) - int(vm)) <= 1 + abs(int(vm)) // 2 ** 21:
            r.append('~')
            m.append('~')
        else:
            r.append(str(int(vr)))
            m.append(str(int(vm)))
    return ','.join(r), ','.join(m)


def near_half(q, margin):
    """q within `margin` of k + 1/2"""
    fr = q - math.floor(q)
    return abs(fr - Fr(1, 2)) <= margin


def near_int(q, margin):
    fr = q - math.floor(q)
    return min(fr, 1 - fr) <= margin


def corr_weight(chk, sk, case, ci, real, ans):
    p, ch = case['bits'], case['w'][ci]
    m = parse_kv(ans)
    lm, sm = parse_ints(m['levels']), parse_rat(m['scale'])
    n, s = real['n'][ci], F(real['s'][ci])
    # reported scale: exact where representable, else the correctly rounded value
    if is_f32(sm):
        sr, smm = rs(s), rs(sm)
    else:
        sr, smm = ('rounded-ok' if abs(s - sm) <= sm * U24 else 'scale=%s' % rs(s)), 'rounded-ok'
    skip = []
    for x in ch:
        if p == 0 or sm == 0:
            skip.append(False)
            continue
        q = F(x) / sm
        exact = (s == sm) and is_f32(q)
        sk.exact += exact
        skip.append((not exact) and near_half(q, abs(q) / 2 ** 21 + TINY))
    sk.add('weight:' + case['kind'], skip)
    r_, m_ = canon(n, lm, skip)
    chk.corr({'q': 'w', 'bits': p, 'kind': case['kind'], 'w': ch if len(ch) <= 40 else ch[:40] + ['...']},
             'levels=%s scale=%s' % (r_, sr), 'levels=%s scale=%s' % (m_, smm),
             'MinMaxWeight integer levels / scale vs model on exact rationals')


def corr_act(chk, sk, case, real, ans):
    p = case['bits']
    m = parse_kv(ans)
    lm, topm, scm = parse_ints(m['levels']), int(m['top']), parse_rat(m['scale'])
    clip, den = F(real['clip32']), F(real['den'])
    sweep = case['kind'] == 'sweep'
    eps = den - clip if sweep else Fr(1, 1000)
    sf_model = (2 ** p - 1) / (clip + eps)
    sf_exact = sweep and F(real['sf']) == sf_model
    skip = []
    for x in case['x']:
        xc = min(max(F(x), 0), clip)
        q = sf_model * xc
        exact = (xc == 0) or (sf_exact and is_f32(q))      # clamp to 0 and 0*sf are exact in any case
        sk.exact += exact
        skip.append((not exact) and near_int(q, abs(q) / 2 ** 21 + TINY))
    sk.add('act:' + case['kind'], skip)
    r_, m_ = canon(real['n'], lm, skip)
    # top level of the real quantizer = level of the inputs >= clip (compared unless near a boundary)
    qt = sf_model * clip
    if (sf_exact and is_f32(qt)) or not near_int(qt, abs(qt) / 2 ** 21 + TINY):
        tops = sorted({int(v) for x, v in zip(case['x'], real['n']) if x >= real['clip32']})
        tr, tm = 'top=%s' % tops, 'top=[%d]' % topm
    else:
        tr = tm = 'top=~'
    s = F(real['scale'])
    if is_f32(scm):
        sr, smm = rs(s), rs(scm)
    else:
        sr, smm = ('rounded-ok' if abs(s - scm) <= scm * U24 else 'scale=%s' % rs(s)), 'rounded-ok'
    # the stabiliser the float run effectively used is 1e-3 up to the rounding of the sum
    e_ok = abs((den - clip) - Fr(1, 1000)) <= den * U24 + Fr(1, 10 ** 10)
    chk.corr({'q': 'a', 'bits': p, 'clip': case['clip'], 'kind': case['kind'], 'k': case.get('k'),
              'x': case['x'] if len(case['x']) <= 40 else case['x'][:40] + ['...']},
             'levels=%s %s scale=%s stab=%s' % (r_, tr, sr, 'ok' if e_ok else rs(den - clip)),
             'levels=%s %s scale=%s stab=ok' % (m_, tm, smm),
             'PACTAct integer levels / top level / scale vs model on exact rationals')


def corr_bias(chk, sk, case, real, ans):
    lm = parse_ints(ans)
    sa = F(real['sa'])
    s_real = real['s'] if isinstance(real['s'], list) else [real['s']] * len(case['b'])
    skip = []
    for b, sw, sr in zip(case['b'], case['sw'], s_real):
        s = sa * F(sw)
        atol = Fr(1, 10 ** 8)
        if abs(abs(s) - atol) <= atol / 2 ** 18:          # isclose threshold evaluated in float32
            skip.append(True)
            continue
        if abs(s) <= atol:
            skip.append(False)
            continue
        q = F(b) / s
        exact = (F(sr) == s) and is_f32(q)
        sk.exact += exact
        skip.append((not exact) and near_half(q, abs(q) / 2 ** 21 + TINY))
    sk.add('bias:' + case['kind'], skip)
    r_, m_ = canon(real['n'], lm, skip)
    chk.corr({k: case[k] for k in ('q', 'kind', 'pa', 'clip', 'sw', 'b')} | {'sa': real['sa']},
             r_, m_, 'QuantizerBias integer output vs model on exact rationals')


# ----------------------------------------------------------------------------- run / replay
def run(chk):
    from .. import common
    chk.rule = ('weights: bits {0,2..8} x seeded float32 channels (kinds rand/mixed/negmax/levels/const/zero/'
                'single; non-zero magnitudes in [2^-30, 2^13]; 1-4 channels, 1-27 elements, 2D and 4D; one in five as a '
                'non-contiguous tensor: channels_last, strided slice, transposed buffer) + '
                'exhaustive sweep for bits {2,3,4,8} x power-of-two scales (every multiple of scale/4 in range '
                'and +-1 ulp around every rounding boundary); activations: bits 2..8 x clip {0.05..1000 + random} '
                'x inputs below 0 / in range / on level boundaries / at, next to and above clip + exhaustive sweep '
                'for bits {2,3,4,8} with scale_factor an exact power of two; bias: live / zero / tiny / '
                'power-of-two scales, monotone groups; torch.round on ties; stateful histories on ONE instance of every '
                'quantizer (3-6 forwards on same-shaped, differently scaled tensors interleaved with train()/eval(), in-place '
                'parameter edits, dequantize toggles, state_dict reload into a fresh instance). distinct = distinct '
                '(quantizer, bits, kind, inputs); non-trivial = at least one input strictly inside the range '
                'and one on or beyond its edge (all but single-element/zero channels)')
    chk.trusted.append('float32 rounding of the quantizers is modelled, not verified: levels are compared on exact '
                       'rationals away from rounding boundaries and in full on exactly representable grids; '
                       'torch.round/floor/clamp/isclose kernels')
    chk.prove()
    cases = gen_cases(chk.rng, chk.quick)
    hists = gen_histories(chk.rng, chk.quick)
    allc = cases['w'] + cases['a'] + cases['b'] + cases['r'] + hists
    reals = common.pmap(evaluate, allc)
    # ---- correspondence
    lines, owners = [], []
    for case, real in zip(allc, reals):
        if 'error' in real:
            continue
        if case['q'] == 'h':
            # model(current input, current parameters) = real output after any history
            for st in real['steps']:
                c, r = st['case'], st['real']
                if c['q'] == 'w':
                    for ci, ch in enumerate(c['w']):
                        lines.append('w bits=%d w=%s' % (c['bits'], rl(F(x) for x in ch)))
                        owners.append((c, r, ci))
                elif c['q'] in ('a', 'b'):
                    lines.append(line_of(c, r))
                    owners.append((c, r, None))
            continue
        if case['q'] == 'w':
            for ci, ch in enumerate(case['w']):
                lines.append('w bits=%d w=%s' % (case['bits'], rl(F(x) for x in ch)))
                owners.append((case, real, ci))
        else:
            lines.append(line_of(case, real))
            owners.append((case, real, None))
    model = chk.driver('C13', lines)
    sk = Skips()
    for (case, real, ci), ans in zip(owners, model):
        if ans == 'bad-request':
            raise common.InfraError('driver rejected a request of kind %s' % case['q'])
        if case['q'] == 'w':
            corr_weight(chk, sk, case, ci, real, ans)
        elif case['q'] == 'a':
            corr_act(chk, sk, case, real, ans)
        elif case['q'] == 'b':
            corr_bias(chk, sk, case, real, ans)
        else:
            chk.corr({'q': 'r', 'n': len(case['x'])}, ','.join(str(int(v)) for v in real['n']),
                     ','.join(str(v) for v in parse_ints(ans)), 'torch.round vs round-half-even')
    chk.extra['near_boundary_skipped'] = sk.skipped
    chk.extra['near_boundary_skipped_by_kind'] = sk.by
    chk.extra['levels_compared'] = sk.compared
    chk.extra['levels_compared_exact_by_construction'] = sk.exact
    # ---- oracle on the same cases
    run_oracle(chk, allc, reals)
    # dummy quantizer: identity, scale 1
    xs = [rand_mag(chk.rng) for _ in range(50)] + [0.0]
    out, sc = real_dummy(xs)
    chk.count(('dummy',), bucket='dummy')
    if out != [to32(x) for x in xs] or sc != 1.0:
        chk.violation('C13:DummyQuantizer:identity', 'DummyQuantizer is not the identity with scale 1',
                      {'q': 'd', 'x': xs})
    # ---- escalate the failing-input search when a leg broke
    if chk.proof_broken or chk.corr_disagreements:
        more = gen_cases(chk.rng, chk.quick, mult=5)
        allm = more['w'] + more['a'] + more['b'] + gen_histories(chk.rng, chk.quick, mult=5)
        run_oracle(chk, allm, common.pmap(evaluate, allm))


def run_oracle(chk, cases, reals):
    for case, real in zip(cases, reals):
        q = case['q']
        if q == 'w':
            oracle_weight(chk, case, real)
            for ch in case['w']:
                chk.count(('w', case['bits'], tuple(ch)), nontrivial=len(set(ch)) > 1,
                          sample={'q': 'w', 'bits': case['bits'], 'kind': case['kind'], 'w': ch[:6]},
                          bucket='weight:bits=%d' % case['bits'])
                chk.hist['weight-kind:' + case['kind']] = chk.hist.get('weight-kind:' + case['kind'], 0) + 1
        elif q == 'a':
            oracle_act(chk, case, real)
            chk.count(('a', case['bits'], case['clip'], tuple(case['x'])), nontrivial=True,
                      sample={'q': 'a', 'bits': case['bits'], 'clip': case['clip'], 'x': case['x'][:6]},
                      bucket='act:bits=%d:%s' % (case['bits'], case['kind']))
        elif q == 'b':
            oracle_bias(chk, case, real)
            chk.count(('b', case['kind'], tuple(case['sw']), tuple(case['b'])), nontrivial=True,
                      sample={k: case[k] for k in ('q', 'kind', 'sw', 'b')}, bucket='bias:' + case['kind'])
        elif q == 'h':
            oracle_history(chk, case, real)
            nf = len(real.get('steps', []))
            chk.count(('h', case['cls'], repr(case['ops'])), nontrivial=nf >= 2,
                      sample={'q': 'h', 'cls': case['cls'], 'ops': [o[0] if o[0] != 'mode' else o[1] for o in case['ops']]},
                      bucket='history:%s' % case['cls'])
            chk.hist['history-forwards'] = chk.hist.get('history-forwards', 0) + nf
        elif q == 'r':
            if 'error' not in real:
                for x, v in zip(case['x'], real['n']):
                    want = math.floor(x) if x - math.floor(x) < 0.5 else math.ceil(x) if x - math.floor(x) > 0.5 \
                        else (math.floor(x) if math.floor(x) % 2 == 0 else math.floor(x) + 1)
                    if v != want:
                        chk.violation('C13:torch.round:half-even', 'torch.round(%r) = %r' % (x, v), {'q': 'r', 'x': [x]})
                        break
            chk.count(('r', len(case['x'])), bucket='round')


class _Replay:
    def __init__(self):
        self.violations = []

    def violation(self, key, what, case):
        self.violations.append((key, what))


def replay(data):
    case = data['case']
    q = case.get('q')
    rp = _Replay()
    if q == 'd':
        out, sc = real_dummy(case['x'])
        print('dummy:', out[:4], sc)
        return 0 if out == [to32(x) for x in case['x']] and sc == 1.0 else 1
    if q == 'h':
        real = evaluate(case)
        print('call sequence on one instance:', [o[0] if o[0] != 'mode' else o[1] for o in case['ops']])
        oracle_history(rp, case, real)
        for key, what in rp.violations:
            print('still fails:', key, what[:400])
        return 1 if rp.violations else 0
    real = evaluate(case)
    print('case:', {k: (v if not isinstance(v, list) or len(v) < 12 else v[:12] + ['...']) for k, v in case.items()})
    print('real:', {k: (v if not isinstance(v, list) or len(v) < 12 else v[:12]) for k, v in real.items()})
    {'w': oracle_weight, 'a': oracle_act, 'b': oracle_bias}.get(q, lambda *a: None)(rp, case, real)
    if q == 'r':
        import torch
        print('torch.round:', torch.round(torch.tensor(case['x'])).tolist())
        return 1
    for key, what in rp.violations:
        print('still fails:', key, what)
    return 1 if rp.violations else 0
