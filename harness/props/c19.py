"""C19 — regularizers are non-negative penalties that vanish when constraints hold.

translation leg      harness/regen.py regenerates lean/PlinioVerif/Gen/Reg.lean from
                     plinio/regularizers/{base_regularizer,duccio}.py of the tree under test.
proof leg            lean/PlinioVerif/Props/C19.lean: Gen = RegSpec (base_eq, step_eq, call_eq,
                     derived_eq) and the schedule / penalty theorems about RegSpec.
correspondence leg   real BaseRegularizer / DUCCIO on stub DNAS models (1..3 named costs above / at /
                     below target, final strengths given or derived from task_loss) for every epoch
                     0..n of every n in 1..50, and on one small real PIT model, against
                     Drivers/C19.lean evaluating the generated functions; all numbers dyadic and
                     small enough for float32 to be exact, compared as exact rationals.
oracle leg           the property's own predicates on the real classes: strength x cost; finite,
                     non-negative, zero iff every cost <= target, grows with each excess; effective
                     strength = 1% at epoch 0, monotone in the epoch, = final strength from half of
                     the schedule, never above it; derived strengths; every metric annealed towards its
                     OWN final strength (metric names out of alphabetical order, distinct strengths, one
                     metric in excess at a time); call HISTORIES on one object (mixed schedule lengths, the
                     no-argument form, epochs out of order): each call = the same call on a fresh object.
"""
import math
from fractions import Fraction as F

from .. import regen

KEY_DERIVED_AT_TARGET = 'C19:derived:c0==target'
# metric names of the stub models, deliberately not in alphabetical order (the README's own example
# is {'params': ..., 'ops': ...}): the i-th target must meet the i-th strength whatever the names
NAMES = ['params', 'ops', 'macs', 'latency']
# schedule lengths that divide 7920 = 2 * 3960: with final strengths 4000 * 2^j * k every float32
# operation of the schedule is exact for all of them at once (call histories mix schedule lengths)
HIST_NS = [1, 2, 3, 4, 5, 8, 10, 16, 20, 40]


def q(x):
    x = F(x)
    return str(x.numerator) if x.denominator == 1 else '%d/%d' % (x.numerator, x.denominator)


class Stub:
    """What a regularizer needs of a DNAS model: named costs."""
    def __init__(self, costs):
        import torch
        self.costs = {k: torch.tensor(float(v)) for k, v in costs.items()}

    def get_cost(self, name):
        return self.costs[name]

    @property
    def cost(self):
        return sum(self.costs.values())


def _canon(v):
    v = float(v.detach()) if hasattr(v, 'detach') else float(v)
    if not math.isfinite(v):
        return 'err'
    return 'ok:' + q(F(v))


def real_duccio(metrics, epoch, n, derived_loss=None, initial=None):
    """metrics: [(cost, target, strength)]; with derived_loss the strengths are derived by a first
    call on the `initial` costs (the given strengths are ignored).  Returns (canonical value,
    canonical final strengths)."""
    import torch
    from plinio.regularizers import DUCCIO
    names = NAMES[:len(metrics)]
    targets = {nm: torch.tensor(float(m[1])) for nm, m in zip(names, metrics)}
    if derived_loss is None:
        reg = DUCCIO(targets, final_strengths=tuple(torch.tensor(float(m[2])) for m in metrics))
    else:
        reg = DUCCIO(targets, task_loss=torch.tensor(float(derived_loss)))
        reg(Stub({nm: c0 for nm, c0 in zip(names, initial)}), 0, n)     # first call fixes the strengths
    val = reg(Stub({nm: m[0] for nm, m in zip(names, metrics)}), epoch, n)
    return _canon(val), [_canon(s) for s in reg.final_strengths]


def real_base(cost, strength):
    from plinio.regularizers import BaseRegularizer
    return _canon(BaseRegularizer('c', float(strength))(Stub({'c': cost})))


def line_duccio(metrics, epoch, n):
    return 'duccio ms=[%s] epoch=%s n=%s' % (','.join('[%s,%s,%s]' % (q(c), q(t), q(s)) for c, t, s in metrics),
                                            q(epoch), q(n))


# ------------------------------------------------------------------------------- generators
DELTAS = [F(-2), F(-1, 2), F(0), F(1, 4), F(1), F(7, 2)]        # cost - target: below, at, above


def configs(rng, count):
    """metric layouts: 1..3 metrics, each above / at / below its target; every layout has a j (scale)"""
    out = []
    # the systematic ones first: every combination of below/at/above for 1 and 2 metrics
    base = [[d] for d in DELTAS] + [[a, b] for a in (F(-1, 2), F(0), F(1)) for b in (F(-2), F(0), F(7, 2))]
    for ds in base:
        out.append((ds, rng.choice([-2, -1, 0, 1, 2, 3])))
    while len(out) < count:
        k = rng.randint(1, 3)
        out.append(([rng.choice(DELTAS) for _ in range(k)], rng.choice([-2, -1, 0, 1, 2, 3])))
    return out[:max(count, len(base))]


def metrics_for(ds, j, n, rng_targets):
    """dyadic metrics whose DUCCIO value is exact in float32 for every epoch of an n-epoch schedule:
    strength = 100 * n * 2^j (then s/100, s*99/100, e*(..)/(n/2) are all exact)"""
    ms = []
    for i, d in enumerate(ds):
        t = F(rng_targets[i])
        ms.append((t + d, t, F(100 * n) * F(2) ** j * (i + 1)))
    return ms


# ------------------------------------------------------------------------------- oracle helpers
def eff_real(s, e, n):
    """effective strength as the real DUCCIO applies it: one metric with excess exactly 1"""
    import torch
    from plinio.regularizers import DUCCIO
    reg = DUCCIO({'c': torch.tensor(0.0)}, final_strengths=(torch.tensor(float(s)),))
    return float(reg(Stub({'c': 1}), e, n))


def oracle_schedule(chk, s, n, exact):
    """the schedule clauses for final strength s and n epochs, all epochs 0..n (and a few beyond)"""
    vals = [eff_real(s, e, n) for e in range(0, n + 3)]
    sf = float(__import__('torch').tensor(float(s)))            # the float32 the code works with
    tol = 0.0 if exact else 2e-6 * abs(sf)
    case = {'kind': 'schedule', 's': q(F(sf)), 'n': n, 'exact': exact}
    chk.count(('sched', q(F(sf)), n), bucket='schedule', sample={'s': sf, 'n': n, 'eff': vals[:4]})
    if not all(math.isfinite(v) for v in vals):
        chk.violation('C19:schedule:non-finite', 'effective strength is not finite', dict(case, eff=vals))
        return
    if abs(vals[0] - sf / 100) > tol + (0 if exact else 1e-7 * abs(sf)):
        chk.violation('C19:schedule:start-not-1pct',
                      'effective strength at epoch 0 is %r, 1%% of the final strength %r is %r' % (vals[0], sf, sf / 100),
                      dict(case, epoch=0, observed=vals[0]))
    for e in range(len(vals) - 1):
        if vals[e + 1] < vals[e]:
            chk.violation('C19:schedule:not-monotone',
                          'effective strength falls from %r to %r between epochs %d and %d' % (vals[e], vals[e + 1], e, e + 1),
                          dict(case, epoch=e, observed=[vals[e], vals[e + 1]]))
            break
    for e, v in enumerate(vals):
        if v > sf:
            chk.violation('C19:schedule:exceeds-final', 'effective strength %r exceeds the final strength %r at epoch %d'
                          % (v, sf, e), dict(case, epoch=e, observed=v))
            break
        if 2 * e >= n and abs(v - sf) > tol:
            chk.violation('C19:schedule:not-final-from-half',
                          'effective strength at epoch %d of %d is %r, not the final strength %r' % (e, n, v, sf),
                          dict(case, epoch=e, observed=v))
            break


def eff_exact(s, e, n):
    """the schedule in exact arithmetic"""
    s, e, n = F(s), F(e), F(n)
    return min(s / 100 + e * (s * 99 / 100) / (n / 2), s)


def oracle_per_metric(chk, names, strengths, n, epochs):
    """each metric is annealed towards ITS OWN final strength: one metric in excess (by exactly 1) at a
    time, the others below target, so that the value IS that metric's effective strength"""
    import torch
    from plinio.regularizers import DUCCIO
    targets = {nm: torch.tensor(16.0) for nm in names}
    for e in epochs:
        for i, nm in enumerate(names):
            reg = DUCCIO(dict(targets), final_strengths=tuple(torch.tensor(float(s)) for s in strengths))
            val = _canon(reg(Stub({m: (17 if m == nm else 15) for m in names}), e, n))
            want = 'ok:' + q(eff_exact(strengths[i], e, n))
            chk.count(('per-metric', tuple(names), tuple(map(q, strengths)), nm, e, n), bucket='per-metric-strength',
                      nontrivial=len(names) > 1)
            if val != want:
                chk.violation('C19:duccio:metric-not-on-its-own-strength',
                              'metric %r (final strength %s, %d-th of targets %s) gets effective strength %s at epoch %d of %d; '
                              'its own schedule gives %s' % (nm, q(strengths[i]), i, names, val, e, n, want),
                              {'kind': 'per-metric', 'names': names, 'strengths': [q(x) for x in strengths], 'metric': nm,
                               'epoch': e, 'n': n})
                return False
    return True


def run_history(names, targets, calls, strengths=None, loss=None, fresh=False):
    """values of a call history on ONE DUCCIO object; calls = [(costs, epoch, n, default_form)].
    fresh=True: every call on a new object with the strengths the first call of the history fixed."""
    import torch
    from plinio.regularizers import DUCCIO
    tg = {nm: torch.tensor(float(t)) for nm, t in zip(names, targets)}

    def make(ss):
        if ss is not None:
            return DUCCIO(dict(tg), final_strengths=tuple(s.clone() if hasattr(s, 'clone') else torch.tensor(float(s)) for s in ss))
        return DUCCIO(dict(tg), task_loss=torch.tensor(float(loss)))
    reg = make(strengths)
    out, fixed = [], None
    for k, (costs, e, n, default) in enumerate(calls):
        r = reg
        if fresh and k > 0:
            r = make(fixed)
        model = Stub(dict(zip(names, costs)))
        out.append(_canon(r(model) if default else r(model, e, n)))
        if k == 0:
            fixed = tuple(reg.final_strengths)
    return out


def gen_history(rng, k, length):
    """a call history with the shapes that expose remembered state: the no-argument form, the same
    epoch under different schedule lengths, epochs out of order"""
    calls = []
    for _ in range(length):
        r = rng.random()
        costs = [F(16) + rng.choice(DELTAS) for _ in range(k)]
        if r < 0.2:
            calls.append((costs, 1, 1, True))                     # regularizer(model)
        elif r < 0.5 and calls:
            e = calls[-1][1]                                        # same epoch, another schedule length
            n = rng.choice([x for x in HIST_NS if x != calls[-1][2]])
            calls.append((costs, e, n, False))
        else:
            n = rng.choice(HIST_NS)
            calls.append((costs, rng.randint(0, n), n, False))
    return calls


def hist_case(names, targets, calls, strengths, loss, index):
    return {'kind': 'history', 'names': names, 'targets': [q(t) for t in targets],
            'strengths': None if strengths is None else [q(x) for x in strengths], 'loss': None if loss is None else q(loss),
            'calls': [[[q(c) for c in costs], e, n, bool(d)] for costs, e, n, d in calls], 'index': index}


def oracle_history(chk, names, targets, calls, strengths=None, loss=None):
    """the value of every call depends on its own arguments (and the strengths fixed at the first call)
    only: same call on a fresh object gives the same value"""
    got = run_history(names, targets, calls, strengths, loss)
    want = run_history(names, targets, calls, strengths, loss, fresh=True)
    chk.count(('history', tuple(names), len(calls), tuple((e, n, d) for _, e, n, d in calls)), bucket='call-history',
              nontrivial=len(calls) > 1)
    for k, (a, b) in enumerate(zip(got, want)):
        if a != b:
            # shrink: one predecessor is usually enough
            small = None
            for j in range(k):
                two = [calls[j], calls[k]]
                g2 = run_history(names, targets, two, strengths, loss)
                w2 = run_history(names, targets, two, strengths, loss, fresh=True)
                if g2[1] != w2[1]:
                    small, a, b = two, g2[1], w2[1]
                    break
            cs, kk = (small, 1) if small else (calls[:k + 1], k)
            costs, e, n, d = cs[kk]
            chk.violation('C19:duccio:call-depends-on-history',
                          'call %s on a DUCCIO object that was called before returns %s, the same call on a fresh object '
                          '(same final strengths) returns %s; previous call(s): %s'
                          % ('regularizer(model)' if d else 'regularizer(model, %d, %d)' % (e, n), a, b,
                             ['regularizer(model)' if dd else '(%d, %d)' % (ee, nn) for _, ee, nn, dd in cs[:kk]]),
                          hist_case(names, targets, cs, strengths, loss, kk))
            return False
    return True


def line_history(targets, calls, strengths, loss):
    return 'hist targets=[%s] loss=%s strengths=%s calls=[%s]' % (
        ','.join(q(t) for t in targets), q(loss or 0),
        'none' if strengths is None else '[%s]' % ','.join(q(x) for x in strengths),
        ','.join('[%s]' % ','.join([q(e), q(n)] + [q(c) for c in costs]) for costs, e, n, d in calls))


def oracle_penalty(chk, ms, e, n):
    """finite, non-negative, zero iff all within target, grows with each excess"""
    val, _ = real_duccio(ms, e, n)
    case = {'kind': 'penalty', 'ms': [[q(c), q(t), q(s)] for c, t, s in ms], 'epoch': e, 'n': n}
    within = all(c <= t for c, t, s in ms)
    chk.count(('pen', tuple(case['ms'][0]), len(ms), e, n), nontrivial=not within, bucket='penalty:%d-metrics' % len(ms))
    if val == 'err':
        chk.violation('C19:duccio:non-finite', 'DUCCIO with positive final strengths returns a non-finite value', case)
        return
    v = F(val[3:])
    if v < 0:
        chk.violation('C19:duccio:negative', 'DUCCIO returns %s' % val, case)
    if (v == 0) != within:
        chk.violation('C19:duccio:zero-iff-within',
                      'DUCCIO returns %s although %s' % (val, 'every cost is within target' if within else 'a cost exceeds its target'),
                      case)
    # raise each cost in turn
    for i in range(len(ms)):
        c, t, s = ms[i]
        for bump in (F(1, 2), F(3)):
            ms2 = list(ms)
            ms2[i] = (c + bump, t, s)
            val2, _ = real_duccio(ms2, e, n)
            if val2 == 'err':
                continue
            v2 = F(val2[3:])
            if v2 < v or (c + bump > t and not v2 > v):
                chk.violation('C19:duccio:does-not-grow-with-excess',
                              'raising cost %d from %s to %s changes the penalty from %s to %s' % (i, q(c), q(c + bump), q(v), q(v2)),
                              dict(case, raised=i, bump=q(bump)))
                return


def _pit_model():
    """one small real PIT model with two cost metrics"""
    import torch
    import torch.nn as nn
    from plinio.methods import PIT
    from plinio.cost import params, ops

    class Net(nn.Module):
        def __init__(self):
            super().__init__()
            self.c1 = nn.Conv2d(3, 8, 3, padding=1)
            self.c2 = nn.Conv2d(8, 4, 3, padding=1)
            self.fc = nn.Linear(4 * 6 * 6, 5)

        def forward(self, x):
            x = torch.relu(self.c1(x))
            x = torch.relu(self.c2(x))
            return self.fc(x.flatten(1))
    torch.manual_seed(0)
    return PIT(Net(), input_shape=(3, 6, 6), cost={'params': params, 'ops': ops})


def run(chk):
    import os
    import torch
    torch.set_num_threads(1)
    import plinio
    from ..common import REPO, InfraError
    if not os.path.abspath(plinio.__file__).startswith(os.path.abspath(REPO) + os.sep):
        raise InfraError('plinio is imported from %s, not from the tree under test %s' % (plinio.__file__, REPO))
    from plinio.regularizers import DUCCIO, BaseRegularizer
    chk.rule = ('stub DNAS models with 1..3 named costs each below / at / above its target (cost - target in '
                '{-2,-1/2,0,1/4,1,7/2}), final strengths given (100*n*2^j*(i+1), so that every float32 operation of '
                'the schedule is exact) or derived from task_loss, EVERY epoch 0..n of EVERY n in 1..50; one real PIT '
                'model with params and ops costs; call histories (2..7 calls) on one object with mixed (epoch, n_epochs) incl. the '
                'no-argument form, same epoch under different n_epochs, epochs out of order; metric names not in alphabetical '
                'order. non-trivial = some cost above target (non-zero penalty); distinct = '
                'distinct (metric layout, epoch, n)')
    chk.trusted.append('float32 arithmetic of torch read as exact rationals (inputs chosen so that it is exact); '
                       'the loop over the metrics and the lazy initialisation of DUCCIO modelled as fold / first call')
    regen.record(chk, regen.regenerate(['reg']))
    chk.prove()

    rng = chk.rng
    lines, cases = [], []
    n_cfg = 14 if chk.quick else 80
    cfgs = configs(rng, n_cfg)
    ns = list(range(1, 51))
    # ---- given strengths: all epochs of all schedules for the first layouts, sampled n for the rest
    for ci, (ds, j) in enumerate(cfgs):
        tg = [rng.choice([8, 16, 40]) for _ in ds]
        n_list = ns if ci < (6 if chk.quick else 40) else rng.sample(ns, 6)
        for n in n_list:
            ms = metrics_for(ds, j, n, tg)
            for e in range(0, n + 1):
                cases.append({'kind': 'given', 'ms': ms, 'e': e, 'n': n})
                lines.append(line_duccio(ms, e, n))
    # ---- derived strengths: loss = 100*n*2^j, initial excess a power of two (exact division)
    for ci in range(10 if chk.quick else 60):
        k = rng.randint(1, 3)
        n = rng.choice(ns)
        j = rng.choice([-1, 0, 1, 2])
        loss = F(100 * n) * F(2) ** j
        init_d = [rng.choice([F(1, 4), F(1, 2), F(1), F(2), F(4), F(-1), F(-4)]) for _ in range(k)]
        tg = [F(rng.choice([8, 16, 40])) for _ in range(k)]
        now_d = [rng.choice(DELTAS) for _ in range(k)]
        for e in sorted(set([0, n // 2, n] + [rng.randint(0, n) for _ in range(3)])):
            cases.append({'kind': 'derived', 'loss': loss, 'init': [t + d for t, d in zip(tg, init_d)],
                          'tg': tg, 'now': [t + d for t, d in zip(tg, now_d)], 'e': e, 'n': n})
            for t, d in zip(tg, init_d):
                lines.append('derived loss=%s c0=%s t=%s' % (q(loss), q(t + d), q(t)))
    # ---- BaseRegularizer
    for _ in range(200 if chk.quick else 2000):
        c = F(rng.randint(0, 4000), rng.choice([1, 2, 4, 8]))
        s = F(rng.randint(0, 64), rng.choice([1, 2, 4, 8, 1024]))
        cases.append({'kind': 'base', 'cost': c, 'strength': s})
        lines.append('base cost=%s strength=%s' % (q(c), q(s)))
    # ---- one real PIT model
    pit = None
    try:
        pit = _pit_model()
        pc = {nm: F(float(pit.get_cost(nm).detach())) for nm in ('params', 'ops')}
        for n in (1, 7, 20):
            for e in range(0, n + 1):
                ms = [(pc['params'], pc['params'] - 3, F(100 * n)), (pc['ops'], pc['ops'] + 5, F(200 * n))]
                cases.append({'kind': 'pit', 'ms': ms, 'e': e, 'n': n})
                lines.append(line_duccio(ms, e, n))
        cases.append({'kind': 'pit-base', 'cost': pc['params'], 'strength': F(1, 4)})
        lines.append('base cost=%s strength=%s' % (q(pc['params']), q(F(1, 4))))
    except Exception as ex:       # the PIT constructor is another property's business
        chk.observe('real PIT model could not be built for the regularizer correspondence: %r' % (ex,))
        cases = [c for c in cases if not c['kind'].startswith('pit')]
        lines = lines[:len(lines)]

    # ---- call histories on one object (mixed schedule lengths, the no-argument form, epochs out of order)
    for hi in range(60 if chk.quick else 600):
        k = rng.randint(1, 3)
        j = rng.choice([-2, -1, 0, 1, 2])
        tg = [F(16)] * k
        calls = gen_history(rng, k, rng.randint(2, 6))
        if hi % 3 == 2:        # derived strengths: exact division by the initial excess
            loss, strengths = F(4000) * F(2) ** j, None
            first = [F(16) + rng.choice([F(1, 4), F(1, 2), F(1), F(2), F(4), F(-1), F(-4)] + ([F(0)] if hi % 15 == 2 else []))
                     for _ in range(k)]
            calls[0] = (first,) + calls[0][1:]
        else:
            loss, strengths = None, [F(4000) * F(2) ** j * (i + 1) for i in range(k)]
        cases.append({'kind': 'hist', 'names': NAMES[:k], 'tg': tg, 'calls': calls, 'strengths': strengths, 'loss': loss})
        lines.append(line_history(tg, calls, strengths, loss))

    model = None
    try:
        model = chk.driver('C19', lines)
    except InfraError as ex:
        chk.proof_broken.append('generated regularizer model does not build/run: %s' % str(ex)[:300])
    li = 0
    for case in cases:
        kind = case['kind']
        if kind in ('given', 'pit'):
            ms, e, n = case['ms'], case['e'], case['n']
            if kind == 'given':
                real, _ = real_duccio(ms, e, n)
            else:
                reg = DUCCIO({'params': torch.tensor(float(ms[0][1])), 'ops': torch.tensor(float(ms[1][1]))},
                             final_strengths=(torch.tensor(float(ms[0][2])), torch.tensor(float(ms[1][2]))))
                real = _canon(reg(pit, e, n))
            if model is not None:
                chk.corr({'kind': kind, 'line': lines[li]}, real, model[li], 'DUCCIO value, real class vs generated model')
            li += 1
            nontriv = any(c > t for c, t, s in ms)
            chk.count((kind, lines[li - 1]), nontrivial=nontriv, bucket='%s:n=%d..' % (kind, (n // 10) * 10),
                      sample={'line': lines[li - 1], 'impl': real})
        elif kind == 'derived':
            ms0 = [(c, t, F(0)) for c, t in zip(case['now'], case['tg'])]
            at_target = any(c0 == t for c0, t in zip(case['init'], case['tg']))
            real, strengths = real_duccio(ms0, case['e'], case['n'], derived_loss=case['loss'], initial=case['init'])
            mstr = []
            for s_real in strengths:
                if model is not None:
                    chk.corr({'kind': 'derived-strength', 'line': lines[li]}, s_real, model[li],
                             'derived final strength, real class vs generated model')
                    mstr.append(model[li])
                li += 1
            chk.count(('derived', tuple(map(q, case['init'])), case['e'], case['n']), bucket='derived',
                      nontrivial=any(c > t for c, t in zip(case['now'], case['tg'])))
            # (the value under derived strengths is covered by the 'given' cases once the strengths agree)
        elif kind == 'hist':
            real = '[%s]' % ','.join(run_history(case['names'], case['tg'], case['calls'], case['strengths'], case['loss']))
            if model is not None:
                chk.corr({'kind': 'hist', 'line': lines[li]}, real, model[li],
                         'values along a call history on one DUCCIO object, real class vs instance model')
            li += 1
            chk.count(('hist', lines[li - 1]), bucket='hist-corr', nontrivial=True)
        elif kind in ('base', 'pit-base'):
            if kind == 'base':
                real = real_base(case['cost'], case['strength'])
            else:
                real = _canon(BaseRegularizer('params', float(case['strength']))(pit))
            if model is not None:
                chk.corr({'kind': kind, 'line': lines[li]}, real, model[li], 'BaseRegularizer value')
            li += 1
            want = 'ok:' + q(case['cost'] * case['strength'])
            chk.count((kind, q(case['cost']), q(case['strength'])), bucket='base')
            if real != want:
                chk.violation('C19:base:not-strength-times-cost',
                              'BaseRegularizer returns %s for cost %s and strength %s' % (real, q(case['cost']), q(case['strength'])),
                              {'kind': 'base', 'cost': q(case['cost']), 'strength': q(case['strength'])})

    # ------------------------------------------------------------------ oracle
    broken = bool(chk.proof_broken or chk.corr_disagreements)
    mult = 5 if broken else 1
    # schedule: exact strengths for every n in 1..50, plus arbitrary float strengths
    for n in ns:
        for j in ((0,) if chk.quick and not broken else (-2, 0, 3)):
            oracle_schedule(chk, F(100 * n) * F(2) ** j, n, exact=True)
    for _ in range((40 if chk.quick else 400) * mult):
        oracle_schedule(chk, rng.uniform(1e-6, 1e3) if rng.random() < 0.8 else 10 ** rng.uniform(-8, 6),
                        rng.choice(ns), exact=False)
    # penalty clauses on exact metric layouts
    for ci, (ds, j) in enumerate(cfgs):
        tg = [rng.choice([8, 16, 40]) for _ in ds]
        for n in rng.sample(ns, (3 if chk.quick else 12) * mult if (3 if chk.quick else 12) * mult <= 50 else 50):
            ms = metrics_for(ds, j, n, tg)
            for e in sorted(set([0, n // 2, n, rng.randint(0, n)])):
                oracle_penalty(chk, ms, e, n)
    # every metric on its own strength: names out of alphabetical order, distinct strengths
    for names in (['params', 'ops'], ['zeta', 'alpha', 'mid'], NAMES[:3], ['b', 'a']):
        for n in ([1, 4, 10] if chk.quick and not broken else [1, 2, 4, 5, 10, 20, 40]):
            strengths = [F(100 * n) * (2 * i + 1) for i in range(len(names))]
            if not oracle_per_metric(chk, names, strengths, n, range(0, n + 1)):
                break
    # call histories on one object: each call vs the same call on a fresh object
    for hi in range((80 if chk.quick else 800) * mult):
        k = rng.randint(1, 3)
        calls = gen_history(rng, k, rng.randint(2, 7))
        if hi % 4 == 3:
            calls[0] = ([F(16) + rng.choice([F(1, 4), F(1), F(4), F(-1)]) for _ in range(k)],) + calls[0][1:]
            ok = oracle_history(chk, NAMES[:k], [F(16)] * k, calls, loss=F(4000))
        elif hi % 4 == 2:      # arbitrary float strengths (identical float operations on both sides)
            ok = oracle_history(chk, NAMES[:k], [F(16)] * k, calls,
                                strengths=[F(rng.uniform(1e-6, 1e3)).limit_denominator(10 ** 9) for _ in range(k)])
        else:
            ok = oracle_history(chk, NAMES[:k], [F(16)] * k, calls,
                                strengths=[F(4000) * F(2) ** rng.choice([-2, 0, 2]) * (i + 1) for i in range(k)])
        if not ok:
            break
    # the seeding agents' shapes, always
    for calls in ([([F(17)], 1, 1, True), ([F(17)], 1, 20, False)], [([F(17)], 4, 10, False), ([F(17)], 4, 40, False)],
                  [([F(17)], 5, 10, False), ([F(17)], 2, 10, False), ([F(17)], 5, 10, False)]):
        oracle_history(chk, ['params'], [F(16)], calls, strengths=[F(4000)])
    # plain Python floats as final strengths (declared type: tuple of tensors): observed, not demanded
    try:
        DUCCIO({'c': 0.0}, final_strengths=(0.5,))(Stub({'c': 1}), 1, 10)
    except TypeError:
        chk.observe('final_strengths given as plain Python floats make DUCCIO.__call__ raise TypeError in torch.min '
                    '(the declared type is a tuple of tensors; float targets and a float task_loss work)')
    except Exception as ex:
        chk.observe('final_strengths given as plain Python floats: %r' % (ex,))
    # derived strengths
    for d in (F(-4), F(-1, 2), F(0), F(1, 4), F(2)):
        for n in (1, 10):
            t = F(16)
            val, strengths = real_duccio([(t + 1, t, F(0))], n, n, derived_loss=F(1), initial=[t + d])
            chk.count(('derived-oracle', q(d), n), bucket='derived-oracle')
            case = {'kind': 'derived', 'loss': '1', 'c0': q(t + d), 't': q(t), 'cost_now': q(t + 1), 'epoch': n, 'n': n}
            if d == 0:
                if val == 'err':
                    chk.violation(KEY_DERIVED_AT_TARGET,
                                  'DUCCIO with final strengths derived from task_loss while the initial cost equals the '
                                  'target stores an infinite strength and returns a non-finite value', case)
                continue
            if val == 'err' or strengths[0] == 'err':
                chk.violation('C19:derived:non-finite', 'derived strength / value not finite with c0 != target', case)
            elif d > 0 and not F(strengths[0][3:]) > 0:
                chk.violation('C19:derived:not-positive-above-target', 'derived strength %s' % strengths[0], case)
            elif d < 0:
                if F(strengths[0][3:]) != 0:
                    chk.violation('C19:derived:negative-below-target', 'derived strength %s' % strengths[0], case)
                else:
                    chk.observe('initial cost below target: the derived final strength is 0 and stays 0, the metric is '
                                'never penalised even if it later exceeds the target (stated behaviour of max(0, .))')
    chk.extra['exhaustive_epochs'] = 'epochs 0..n for every n in 1..50 (schedule oracle and first metric layouts)'


def replay(data):
    import torch
    torch.set_num_threads(1)
    case = data['case']
    kind = case.get('kind')

    class _C:
        def __init__(self):
            self.v = []

        def violation(self, key, what, c):
            self.v.append((key, what))

        def count(self, *a, **k):
            pass

        def observe(self, *a):
            pass
    c = _C()
    if kind == 'schedule':
        oracle_schedule(c, F(case['s']), case['n'], case['exact'])
    elif kind == 'penalty':
        ms = [(F(a), F(b), F(s)) for a, b, s in case['ms']]
        oracle_penalty(c, ms, case['epoch'], case['n'])
    elif kind == 'per-metric':
        oracle_per_metric(c, case['names'], [F(x) for x in case['strengths']], case['n'], [case['epoch']])
    elif kind == 'history':
        calls = [([F(x) for x in costs], e, n, d) for costs, e, n, d in case['calls']]
        oracle_history(c, case['names'], [F(t) for t in case['targets']], calls,
                       strengths=None if case['strengths'] is None else [F(x) for x in case['strengths']],
                       loss=None if case['loss'] is None else F(case['loss']))
    elif kind == 'base':
        real = real_base(F(case['cost']), F(case['strength']))
        print('impl=%s expected=ok:%s' % (real, q(F(case['cost']) * F(case['strength']))))
        return 0 if real == 'ok:' + q(F(case['cost']) * F(case['strength'])) else 1
    elif kind == 'derived':
        val, strengths = real_duccio([(F(case['cost_now']), F(case['t']), F(0))], case['epoch'], case['n'],
                                     derived_loss=F(case['loss']), initial=[F(case['c0'])])
        print('value=%s derived strengths=%s' % (val, strengths))
        return 1 if (val == 'err' or 'err' in strengths) else 0
    else:
        print('replay of kind %r: re-run ./check C19' % kind)
        return 1
    for key, what in c.v:
        print('%s: %s' % (key, what))
    return 1 if c.v else 0
