"""C12 — cost is a differentiable, monotone function of the architecture only.

proof leg            lean/PlinioVerif/Props/C12.lean: raising |alpha|, |beta|, |gamma| never lowers any
                     registered built-in cost of a PIT layer (continuous and discrete), open masks give
                     the seed layer's description, cost non-negative; straight-through gradient of
                     out_features_eff = sign(alpha_i) off the keep-alive element (Dual reading).
                     Composes C16's laws of the *generated* cost model (Gen/, regenerated every run).
correspondence leg   value AND gradient of every PIT-applicable registered cost function on real
                     PITConv1d/PITConv2d/PITLinear objects (torch.autograd) vs Drivers/C12.lean (Dual
                     reading of the generated functions): exact in discrete mode, 1e-5 band in
                     continuous mode (1/3, 1/5 normalisation constants are not dyadic).
oracle leg           on real PIT / SuperNet / MPS / ODiMO models with every applicable built-in cost:
                     evaluates, finite, >= 0; bit-identical under weight perturbation and other input
                     data; finite gradients to NAS parameters, none to weights; non-zero gradient on
                     every trainable element whose increase raises the metric (finite-difference
                     witness); PIT: component-wise larger |masks| never lower a cost; open masks = cost
                     of the original model.
"""
import math
import random
import warnings
from fractions import Fraction

import torch
import torch.nn as nn

from .. import common, obs_models, pittime

PIT_SPECS = ['params', 'params_no_bias', 'ops', 'ops_no_bias', 'gap8_latency']
PAL = [0, 1, 1, 1 / 8, -1 / 4, 1 / 2, 3 / 4, -3 / 4, 5 / 8, 2, -3]


# ------------------------------------------------------------------ layer level (correspondence)
def _registry_rows():
    """(spec name, layer type, constraint name, function) of every PIT-applicable registration."""
    import plinio.cost as pc
    out = []
    for sname in PIT_SPECS:
        cs = getattr(pc, sname)
        for typ, entries in cs.data.items():
            for constr, fn in entries:
                out.append((sname, typ.__name__, '' if constr is None else constr.__name__, fn))
    return out


def _real_layer(kind, C, K, cin, dw, bias, alpha, beta, gamma, discrete):
    warnings.filterwarnings('ignore')
    from plinio.methods.pit.nn import PITConv1d, PITConv2d, PITLinear
    from plinio.methods.pit.nn.features_masker import PITFeaturesMasker
    from plinio.methods.pit.nn.timestep_masker import PITTimestepMasker
    from plinio.methods.pit.nn.dilation_masker import PITDilationMasker
    fm = PITFeaturesMasker(C)
    if kind == 'conv1d':
        conv = nn.Conv1d(cin, C, K, groups=cin if dw else 1, bias=bias)
        layer = PITConv1d(conv, fm, PITTimestepMasker(K), PITDilationMasker(K), discrete_cost=discrete)
        with torch.no_grad():
            layer.timestep_masker.beta.copy_(torch.tensor(beta, dtype=torch.float32))
            layer.dilation_masker.gamma.copy_(torch.tensor(gamma, dtype=torch.float32))
    elif kind == 'conv2d':
        conv = nn.Conv2d(cin, C, K, groups=cin if dw else 1, bias=bias)
        layer = PITConv2d(conv, fm, discrete_cost=discrete)
    else:
        layer = PITLinear(nn.Linear(cin, C, bias=bias), fm, discrete_cost=discrete)
    with torch.no_grad():
        fm.alpha.copy_(torch.tensor(alpha, dtype=torch.float32))
    from plinio.graph.features_calculation import ConstFeaturesCalculator
    layer.input_features_calculator = ConstFeaturesCalculator(cin)      # registers its buffers on the layer
    return layer


def _layer_case(rng):
    kind = rng.choice(['conv1d', 'conv1d', 'conv2d', 'conv2d', 'linear'])
    C = rng.randint(2, 6)
    dw = kind != 'linear' and rng.random() < .3
    cin = C if dw else rng.randint(1, 5)
    K = rng.randint(1, 7) if kind == 'conv1d' else (rng.choice([1, 3]) if kind == 'conv2d' else 1)
    bias = rng.random() < .7
    discrete = rng.random() < .5
    alpha = [float(rng.choice(PAL)) for _ in range(C)]
    beta = [float(rng.choice(PAL)) for _ in range(K)] if kind == 'conv1d' else []
    gamma = [float(rng.choice(PAL)) for _ in range(pittime.gamma_len(K))] if kind == 'conv1d' else []
    osz = rng.choice([1, 5, 8, 9])
    out = {'conv1d': [1, C, osz], 'conv2d': [1, C, osz, osz], 'linear': [1, C]}[kind]
    return dict(kind=kind, C=C, K=K, cin=cin, dw=dw, bias=bias, discrete=discrete, alpha=alpha, beta=beta,
                gamma=gamma, out=out)


def _eval_real(case, fn):
    layer = _real_layer(case['kind'], case['C'], case['K'], case['cin'], case['dw'], case['bias'],
                        case['alpha'], case['beta'], case['gamma'], case['discrete'])
    v = layer.get_modified_vars()
    v['output_shape'] = tuple(case['out'])
    cost = fn(v)
    params = [layer.out_features_masker.alpha]
    if case['kind'] == 'conv1d':
        params += [layer.timestep_masker.beta, layer.dilation_masker.gamma]
    if not (isinstance(cost, torch.Tensor) and cost.requires_grad):
        return float(cost), [[0.0] * p.numel() for p in params], float(layer.groups if hasattr(layer, 'groups') else 1)
    grads = torch.autograd.grad(cost, params, allow_unused=True)
    g = [([0.0] * p.numel() if gi is None else [float(x) for x in gi]) for p, gi in zip(params, grads)]
    return float(cost), g, float(layer.groups if hasattr(layer, 'groups') else 1)


def _line(case, sname, fname, groups):
    fr = lambda v: str(Fraction(float(torch.tensor(v, dtype=torch.float32))))
    kk = case['K'] if case['kind'] == 'conv2d' else 0
    return ('cost spec=%s fn=%s kind=%s d=%d C=%d K=%d cin=%d groups=%d kx=%d ky=%d out=[%s] bias=%d alpha=[%s] beta=[%s] gamma=[%s]'
            % (sname, fname, case['kind'], int(case['discrete']), case['C'], case['K'], case['cin'], int(groups), kk, kk,
               ','.join(str(o) for o in case['out']), int(case['bias']),
               ','.join(fr(v) for v in case['alpha']), ','.join(fr(v) for v in case['beta']), ','.join(fr(v) for v in case['gamma'])))


def _parse(ans):
    toks = dict(t.split('=', 1) for t in ans.split())
    lst = lambda s: [float(Fraction(x)) for x in s.strip('[]').split(',') if x]
    return toks.get('ok') == '1', float(Fraction(toks['v'])), [lst(toks['ga']), lst(toks['gb']), lst(toks['gg'])]


def _close(a, b, exact):
    if exact:
        return a == b
    return abs(a - b) <= 2e-5 * max(1.0, abs(a), abs(b))


# ------------------------------------------------------------------ function level (all registered functions)
ALL_SPECS = ['params', 'params_no_bias', 'params_bit', 'ops', 'ops_no_bias', 'ops_bit', 'gap8_latency',
             'mpic_latency', 'mpic_energy', 'ne16_latency', 'diana_latency']
GRAD_KEYS = ['in_channels', 'out_channels', 'in_features', 'out_features', 'w_theta_alpha']


def _all_registry_rows():
    import plinio.cost as pc
    out = []
    for sname in ALL_SPECS:
        cs = getattr(pc, sname)
        for typ, entries in cs.data.items():
            for constr, fn in entries:
                out.append((sname, typ.__name__, '' if constr is None else constr.__name__, fn))
    return out


def _fn_case(rng, sname, ltyp, constr):
    """A layer description as the MPS / PIT / SuperNet layers hand it over: effective sizes and the
    per-precision share as tensors (here: leaves requiring grad), the rest plain values."""
    dw = constr == 'conv_dw_constraint'
    # channel counts incl. exact multiples of the hardware tiles (NE16: 32/16, gap8: 4, DIANA: 16/64)
    cout = rng.choice([1, 3, 5, 8, 16, 24, 32, 48, 64, 96])
    cin = cout if dw else rng.choice([1, 3, 4, 16, 32, 48])
    theta = rng.choice([1, 1, 1 / 2, 1 / 4, 3 / 4])
    wp = rng.choice([2, 4, 8])
    if sname == 'diana_latency':
        wp = rng.choice([2, 8])
    if sname == 'ne16_latency':
        k = 3 if dw else rng.choice([1, 3])
    else:
        k = rng.choice([1, 3, 5])
    osz = rng.choice([1, 4, 8, 9])
    d = {'in': cin, 'out': cout, 'inf': cin, 'outf': cout, 'theta': theta, 'wp': wp, 'ip': 8,
         'groups': cin if dw else 1, 'bias': int(rng.random() < .6)}
    if ltyp == 'Conv1d':
        d['k'], d['osh'] = [k], [1, cout, osz]
    elif ltyp == 'Conv2d':
        d['k'], d['osh'] = [k, k], [1, cout, osz, osz]
    else:
        d['k'], d['osh'] = [], [1, cout]
    return d


def _fn_real(d, fn):
    leaves = {'in_channels': torch.tensor(float(d['in']), requires_grad=True),
              'out_channels': torch.tensor(float(d['out']), requires_grad=True),
              'in_features': torch.tensor(float(d['inf']), requires_grad=True),
              'out_features': torch.tensor(float(d['outf']), requires_grad=True),
              'w_theta_alpha': torch.tensor(float(d['theta']), requires_grad=True)}
    spec = dict(leaves)
    spec.update({'groups': d['groups'], 'kernel_size': tuple(d['k']), 'output_shape': tuple(d['osh']),
                 'w_precision': torch.tensor(float(d['wp'])), 'in_precision': torch.tensor(float(d['ip'])),
                 '_parameters': {'bias': torch.zeros(1) if d['bias'] else None}})
    v = fn(spec)
    if not (isinstance(v, torch.Tensor) and v.requires_grad):
        return float(v), [0.0] * 5
    g = torch.autograd.grad(v, [leaves[k] for k in GRAD_KEYS], allow_unused=True)
    return float(v), [0.0 if x is None else float(x) for x in g]


def _fn_line(d, sname, fname):
    fr = lambda v: str(Fraction(float(v)))
    return ('fn spec=%s fn=%s in=%s out=%s inf=%s outf=%s theta=%s wp=%s ip=%s groups=%s k=[%s] osh=[%s] bias=%d'
            % (sname, fname, fr(d['in']), fr(d['out']), fr(d['inf']), fr(d['outf']), fr(d['theta']), fr(d['wp']), fr(d['ip']),
               fr(d['groups']), ','.join(str(x) for x in d['k']), ','.join(str(x) for x in d['osh']), d['bias']))


# ------------------------------------------------------------------ model level (oracle)
def _model_case(args):
    """One wrapper x cost spec on the real implementation (worker function)."""
    method, seed, cost_name = args[:3]
    force = len(args) > 3 and args[3]      # full_cost + dictionary specification (+ the excluded layer of 'pitcat')
    warnings.filterwarnings('ignore')
    torch.set_num_threads(1)
    import contextlib
    import io
    import plinio.cost as pc
    out = {'method': method, 'seed': seed, 'cost': cost_name, 'problems': [], 'force': bool(force)}
    rng = random.Random(seed)

    def problem(key, what):
        out['problems'].append((key, what))
    with contextlib.redirect_stderr(io.StringIO()):
        try:
            kind = {'pit1d': 'pit1d', 'pit2d': 'pit2d', 'pitcat': 'pitcat', 'sn': 'sn', 'mpsl': 'mpsl', 'mpsc': 'mpsc', 'odimo': 'mpsc'}[method]
            spec = obs_models.random_spec(rng, kind=kind, dropout=False, gumbel=False, hard=False, full_cost=rng.random() < .5,
                                          discrete_cost=False, cost='single')
            if force:
                spec['full_cost'] = True
            net = obs_models._seed_net(spec).train()
            shape = obs_models.input_shape(spec)
            torch.manual_seed(seed)
            cs = getattr(pc, cost_name)
            cost_arg = cs if (rng.random() < .5 and not force) else {'x': cs, 'p': pc.params if method.startswith(('pit', 'sn')) else pc.params_bit}
            name = None if not isinstance(cost_arg, dict) else 'x'
            from plinio.methods import PIT, SuperNet
            from plinio.methods.mps import MPS, MPSType, get_default_qinfo
            # (half of the wrappers are built from an example of 2..5 samples: the cost depends on the architecture only)
            nb = rng.choice([2, 3, 5])
            skw = {'input_shape': shape} if rng.random() < .5 else {'input_example': torch.randn((nb,) + tuple(shape))}
            if method.startswith('pit'):
                w = PIT(net, cost=cost_arg, full_cost=spec['full_cost'], **skw,
                        exclude_names=('cx',) if method == 'pitcat' else ())
            elif method == 'sn':
                w = SuperNet(net, cost=cost_arg, full_cost=spec['full_cost'], **skw)
            elif method == 'odimo':
                from plinio.methods.odimo_mps import ODiMO_MPS
                from plinio.methods.odimo_mps.odimo_mps import get_default_qinfo as odimo_qinfo
                qi = odimo_qinfo((2, 8), (8,))      # DIANA: ternary (2-bit) analog or 8-bit digital weights, 8-bit activations
                w = ODiMO_MPS(net, input_shape=shape, qinfo=qi) if name is None else \
                    ODiMO_MPS(net, input_shape=shape, qinfo=qi, cost={'x': cs, 'p': pc.params_bit})
            else:
                per_ch = method == 'mpsc'
                w = MPS(net, cost=cost_arg, full_cost=spec['full_cost'], **skw,
                        qinfo=get_default_qinfo((2, 4, 8), (8,)),
                        w_search_type=MPSType.PER_CHANNEL if per_ch else MPSType.PER_LAYER)
            w.train()
            obs_models.randomize_nas(w, seed + 7)
            x = obs_models.data(shape, seed + 1)
            w(x)

            def cost():
                return w.get_cost(name) if name else w.cost
            c0 = cost()
            c0f = float(c0)
            out['value'] = c0f
            if not math.isfinite(c0f) or c0f < 0:
                problem('not-finite-nonneg', 'cost %r' % c0f)
            # gradients
            nas = [p for _, p in w.named_nas_parameters() if p.requires_grad]
            netp = [p for _, p in w.named_net_parameters() if p.requires_grad]
            if isinstance(c0, torch.Tensor) and c0.requires_grad:
                gn = torch.autograd.grad(c0, nas, allow_unused=True, retain_graph=True)
                gw = torch.autograd.grad(c0, netp, allow_unused=True, retain_graph=True)
            else:
                gn, gw = [None] * len(nas), [None] * len(netp)
                if nas:
                    problem('not-differentiable', 'cost does not depend on any NAS parameter through autograd')
            for g in gn:
                if g is not None and not bool(torch.isfinite(g).all()):
                    problem('gradient-not-finite', 'non-finite gradient to a NAS parameter')
            for g in gw:
                if g is not None and bool((g != 0).any()):
                    problem('gradient-to-weights', 'cost back-propagates to a network weight')
            # non-zero gradient wherever an increase of the element raises the metric (finite differences)
            n_fd = 0
            for pi, (p, g) in enumerate(zip(nas, gn)):
                idxs = list(range(p.numel()))
                rng.shuffle(idxs)
                for i in idxs[:3]:
                    with torch.no_grad():
                        old = float(p.view(-1)[i])
                        step = 0.05 if old >= 0 else -0.05      # increase the magnitude side that the element is on
                        p.view(-1)[i] = old + step
                    w(x)
                    c1 = float(cost())
                    with torch.no_grad():
                        p.view(-1)[i] = old
                    n_fd += 1
                    gi = 0.0 if g is None else float(g.view(-1)[i])
                    # a jump of a few cycles of a rounded (ceil/floor) hardware model is not "raising the
                    # metric" in the relaxed sense the straight-through gradient follows: demand a
                    # change of at least 0.1% of the cost
                    if c1 - c0f > 1e-3 * max(1.0, abs(c0f)) and gi == 0.0 and old != 0.0:
                        if method in ('mpsl', 'mpsc', 'odimo') and p.dim() >= 1 and p.shape[0] > 1:
                            # a rounded hardware model evaluated at a *soft* mixture can move by a few cycles when any
                            # coefficient moves, although the metric does not depend on this decision at all (NE16 1x1 /
                            # linear latency ignores the weight bits): the element "raises the metric" only if the metric
                            # differs between the decided alternatives of this quantizer
                            decided = []
                            with torch.no_grad():
                                saved = p.detach().clone()
                                for k_ in range(p.shape[0]):
                                    p.copy_(saved)
                                    p[k_] = p[k_] + 50.0
                                    w(x)
                                    decided.append(float(cost()))
                                p.copy_(saved)
                            w(x)
                            if max(decided) - min(decided) <= 1e-6 * max(1.0, abs(c0f)):
                                continue
                        problem('zero-gradient-on-live-element',
                                'NAS parameter %d element %d: cost %.6g -> %.6g when the element moves by %g, gradient exactly 0'
                                % (pi, i, c0f, c1, step))
            w(x)
            out['fd_probes'] = n_fd
            # architecture only: perturb every weight, use other data
            c_ref = float(cost())
            with torch.no_grad():
                for p in netp:
                    if p.dtype.is_floating_point:
                        p.add_(torch.randn_like(p) * 0.3)
            w(obs_models.data(shape, seed + 99))
            c2 = float(cost())
            if c2 != c_ref and not (method in ('mpsl', 'mpsc', 'odimo') and abs(c2 - c_ref) <= 1e-6 * max(1.0, abs(c_ref))):
                problem('depends-on-weights-or-data', 'cost %.9g before, %.9g after perturbing the weights and changing the input' % (c_ref, c2))
            # PIT: monotone in |mask| and open masks = original model
            if method.startswith('pit'):
                from ..pitcase import scratch_cost
                for disc in (False, True):
                    w.discrete_cost = disc
                    with torch.no_grad():
                        lo = {}
                        for n_, p in w.named_nas_parameters():
                            lo[n_] = torch.tensor([rng.choice(PAL) for _ in range(p.numel())], dtype=torch.float32).reshape(p.shape)
                            p.copy_(lo[n_])
                    ca = float(cost())
                    with torch.no_grad():
                        for n_, p in w.named_nas_parameters():
                            grow = torch.tensor([rng.choice([1.0, 1.0, 1.5, 3.0]) for _ in range(p.numel())]).reshape(p.shape)
                            bump = torch.tensor([rng.choice([0.0, 0.0, 0.25, 1.0]) for _ in range(p.numel())]).reshape(p.shape)
                            p.copy_(torch.sign(lo[n_]) * (lo[n_].abs() * grow + bump) + (lo[n_] == 0) * bump)
                    cb = float(cost())
                    if cb < ca - 1e-5 * max(1.0, abs(ca)):
                        problem('not-monotone-in-mask-magnitude', 'discrete=%s: cost %.9g at |masks|, %.9g at component-wise larger |masks|' % (disc, ca, cb))
                    if disc:
                        # discretised cost: an element that is currently binarised away and whose switching on
                        # raises the metric must still get a non-zero (straight-through) gradient
                        with torch.no_grad():
                            for n_, p in w.named_nas_parameters():
                                p.copy_(lo[n_])
                        cd = cost()
                        cdf = float(cd)
                        nasd = [p for _, p in w.named_nas_parameters() if p.requires_grad]
                        gd = torch.autograd.grad(cd, nasd, allow_unused=True) if (isinstance(cd, torch.Tensor) and cd.requires_grad) \
                            else [None] * len(nasd)
                        for pi, (p, g) in enumerate(zip(nasd, gd)):
                            idxs = [i for i in range(p.numel()) if 0 < abs(float(p.view(-1)[i])) < .5]
                            rng.shuffle(idxs)
                            for i in idxs[:3]:
                                with torch.no_grad():
                                    old = float(p.view(-1)[i])
                                    p.view(-1)[i] = math.copysign(1.0, old)
                                c1 = float(cost())
                                with torch.no_grad():
                                    p.view(-1)[i] = old
                                gi = 0.0 if g is None else float(g.view(-1)[i])
                                if c1 - cdf > 1e-3 * max(1.0, abs(cdf)) and gi == 0.0:
                                    problem('zero-gradient-on-live-element:discrete',
                                            'discrete cost: NAS parameter %d element %d: cost %.6g -> %.6g when the element is switched on '
                                            '(%g -> %g), gradient %s' % (pi, i, cdf, c1, old, math.copysign(1.0, old),
                                                                        'None' if g is None else 'exactly 0'))
                    with torch.no_grad():
                        for _, p in w.named_nas_parameters():
                            p.fill_(1.0)
                    co = float(cost())
                    if True:
                        ref = scratch_cost(obs_models._seed_net(spec).eval(), cs, [x[:1]],
                                           () if spec['full_cost'] else (('cx',) if method == 'pitcat' else ()))
                        if name is not None:      # a dictionary: the order in which metrics are evaluated must not matter
                            cp_ = float(w.get_cost('p'))
                            co = float(cost())
                            refp = scratch_cost(obs_models._seed_net(spec).eval(), pc.params, [x[:1]],
                                                () if spec['full_cost'] else (('cx',) if method == 'pitcat' else ()))
                            if abs(cp_ - refp) > 1e-5 * max(1.0, abs(refp)):
                                problem('open-masks!=original-model', 'discrete=%s: second metric of the dictionary (params) %.9g '
                                        'with all masks open, original model %.9g' % (disc, cp_, refp))
                        if abs(co - ref) > 1e-5 * max(1.0, abs(ref)):
                            problem('open-masks!=original-model', 'discrete=%s: cost %.9g with all masks open, original model %.9g' % (disc, co, ref))
        except Exception as ex:
            problem('raises', '%s: %s' % (type(ex).__name__, str(ex)[:200]))
    return out


METHOD_COSTS = {
    'pit1d': ['params', 'params_no_bias', 'ops', 'ops_no_bias'],
    'pit2d': ['params', 'params_no_bias', 'ops', 'ops_no_bias', 'gap8_latency'],
    'pitcat': ['params', 'ops', 'gap8_latency'],
    'sn': ['params', 'params_no_bias', 'ops', 'ops_no_bias', 'gap8_latency'],
    'mpsl': ['params_bit', 'ops_bit', 'mpic_latency', 'ne16_latency'],
    'mpsc': ['params_bit', 'ops_bit', 'mpic_latency', 'ne16_latency'],
    'odimo': ['diana_latency'],
}


def run(chk):
    from .. import regen
    chk.rule = ('(a) random PITConv1d/PITConv2d/PITLinear layers (C 2..6, K 1..7, depthwise or not, bias on/off, dyadic '
                'alpha/beta/gamma, discrete/continuous) x every PIT-applicable registered cost function: value and autograd '
                'gradient vs the Dual reading of the generated cost model; (b) PIT-1D/2D, SuperNet, MPS per-layer/per-channel, '
                'ODiMO wrappers x every applicable built-in cost spec (single or in a dictionary), random NAS parameters. '
                'non-trivial = at least one non-unit parameter; distinct = distinct (layer, parameters, function) / (method, seed, cost)')
    chk.trusted.append('torch.autograd (modelled by the Dual reading; each autograd.Function by its translated backward)')
    chk.trusted.append('translator translator/py2lean.py (validated by this value/gradient correspondence and by C16)')
    problems = regen.regenerate_all()
    for f, err in problems or []:
        chk.proof_broken.append('translation of %s failed: %s' % (f, err))
    chk.assumptions.append('"whose increase raises the metric" is judged by finite differences of at least 0.1% of the cost; for a '
                           'weight-precision coefficient it additionally requires that the metric differs between the decided '
                           '(one-hot) alternatives of that quantizer: a rounded hardware model evaluated at a soft mixture moves by '
                           'a few cycles when any coefficient moves even where it ignores the weight bits (NE16 1x1 / linear)')
    chk.assumptions.append('a PIT mask parameter that is exactly 0 is not probed: theta = |alpha| has derivative 0 there (a measure-zero '
                           'point; an element that lands exactly on 0 receives no gradient from cost or task loss any more)')
    chk.assumptions.append('costs of SuperNet / MPS / ODiMO models are evaluated after a forward pass (the coefficients are sampled in '
                           'forward; before the first forward, or after alpha was written without one, the cost is stale)')
    chk.prove()
    rng = chk.rng
    # ---- (a) layer-level value + gradient correspondence
    rows = _registry_rows()
    n = 150 if chk.quick else 3000
    lines, reals, meta = [], [], []
    for _ in range(n):
        case = _layer_case(rng)
        typ = {'conv1d': 'Conv1d', 'conv2d': 'Conv2d', 'linear': 'Linear'}[case['kind']]
        for (sname, ltyp, constr, fn) in rows:
            if ltyp != typ or (constr == 'conv_dw_constraint') != case['dw']:
                continue
            try:
                val, grads, groups = _eval_real(case, fn)
            except Exception as ex:
                chk.violation('C12:layer-cost-raises:%s' % sname, '%s.%s raises %s: %s' % (sname, fn.__name__, type(ex).__name__, str(ex)[:120]),
                              dict(case, kind_='layer', spec=sname, fn=fn.__name__))
                continue
            lines.append(_line(case, sname, fn.__name__, groups))
            reals.append((val, grads))
            meta.append((case, sname, fn.__name__))
            # oracle at layer level: a feature that is (binarised) off and whose switching on raises the
            # metric gets a non-zero gradient, in continuous and in discretised mode alike
            for i, a in enumerate(case['alpha'][:-1]):          # the last feature is the keep-alive one
                if not (0 < abs(a) <= .5) or rng.random() > .5:
                    continue
                c2 = dict(case, alpha=list(case['alpha']))
                c2['alpha'][i] = math.copysign(1.0, a)
                v2 = _eval_real(c2, fn)[0]
                if v2 - val > 1e-3 * max(1.0, abs(val)) and grads[0][i] == 0.0:
                    chk.violation('C12:zero-gradient-on-live-element:layer:%s:%s' % (case['kind'], 'discrete' if case['discrete'] else 'continuous'),
                                  '%s.%s on a stand-alone PIT %s layer: switching feature %d on (alpha %g -> %g) raises the cost %.6g -> %.6g, '
                                  'its gradient is exactly 0 / None' % (sname, fn.__name__, case['kind'], i, a, c2['alpha'][i], val, v2),
                                  dict(case, kind_='layer-grad', spec=sname, fn=fn.__name__, index=i))
    answers = chk.driver('C12', lines)
    for (case, sname, fname), (val, grads), ans in zip(meta, reals, answers):
        cid = dict(case, kind_='layer', spec=sname, fn=fname)
        if ans.startswith(('err', 'bad')):
            chk.corr(cid, 'evaluates', ans, 'generated cost function missing in the registry')
            continue
        ok, mv, mg = _parse(ans)
        exact = case['discrete']
        same = ok and _close(val, mv, exact) and all(len(a) == len(b) and all(_close(x, y, exact) for x, y in zip(a, b))
                                                     for a, b in zip(grads, mg[:len(grads)]))
        chk.corr(cid, 'v=%r g=%r' % (val, grads) if not same else 'same', 'ok=%s v=%r g=%r' % (ok, mv, mg[:len(grads)]) if not same else 'same',
                 'value and autograd gradient of %s.%s (%s)' % (sname, fname, 'exact' if exact else '2e-5 band'))
        chk.count((sname, fname, str(case)), nontrivial=any(a != 1 for a in case['alpha'] + case['beta'] + case['gamma']),
                  bucket='layer:%s:%s' % (case['kind'], 'discrete' if exact else 'continuous'),
                  sample=dict(cid, value=val, grad_alpha=grads[0]) if sname == 'gap8_latency' else None)
        if not math.isfinite(val) or val < 0:
            chk.violation('C12:layer-cost-not-finite-nonneg:' + sname, 'value %r' % val, cid)
    # ---- (a') every registered cost function: value and gradient w.r.t. the sizes / share it is shown
    lines, reals, meta = [], [], []
    per_fn = 12 if chk.quick else 250
    for (sname, ltyp, constr, fn) in _all_registry_rows():
        for _ in range(per_fn):
            d = _fn_case(rng, sname, ltyp, constr)
            try:
                val, grads = _fn_real(d, fn)
            except Exception as ex:
                reals.append(('raises', type(ex).__name__))
            else:
                reals.append((val, grads))
            lines.append(_fn_line(d, sname, fn.__name__))
            meta.append((d, sname, fn.__name__))
    for (d, sname, fname), real, ans in zip(meta, reals, chk.driver('C12', lines)):
        cid = dict(d, kind_='fn', spec=sname, fn=fname)
        toks = dict(t.split('=', 1) for t in ans.split()) if not ans.startswith(('err', 'bad')) else {}
        if real[0] == 'raises':
            chk.corr(cid, 'raises', 'raises' if toks.get('ok') == '0' else 'ok=%s (%s)' % (toks.get('ok'), ans[:60]),
                     'registered cost function rejects the description')
            chk.count(('fn', sname, fname, str(d)), bucket='fn:%s:rejected' % sname)
            continue
        val, grads = real
        if not toks:
            chk.corr(cid, 'evaluates', ans, 'generated cost function missing in the registry')
            continue
        mv = float(Fraction(toks['v']))
        mg = [float(Fraction(x)) for x in toks['d'].strip('[]').split(',')]
        tol = lambda a, b: abs(a - b) <= 2e-5 * max(1.0, abs(a), abs(b))
        same = toks.get('ok') == '1' and tol(val, mv) and all(tol(a, b) for a, b in zip(grads, mg))
        chk.corr(cid, 'same' if same else 'v=%r d=%r' % (val, grads), 'same' if same else 'ok=%s v=%r d=%r' % (toks.get('ok'), mv, mg),
                 'value and autograd gradient (d in_channels, out_channels, in_features, out_features, w_theta_alpha) of %s.%s' % (sname, fname))
        chk.count(('fn', sname, fname, str(d)), nontrivial=any(g != 0 for g in grads), bucket='fn:%s' % sname,
                  sample=dict(cid, value=val, grads=grads) if sname == 'ne16_latency' and d['out'] in (32, 64) else None)
        # the gradient clause on the real function: an increase of the share / of the output width that raises
        # the metric must have a non-zero gradient (finite-difference witness)
        for key, gi, step in (('theta', 4, 1 / 64), ('out', 1, 1 / 2), ('outf', 3, 1 / 2)):
            d2 = dict(d)
            d2[key] = d[key] + step
            try:
                v2, _ = _fn_real(d2, getattr(__import__('plinio.cost.' + sname, fromlist=[fname]), fname))
            except Exception:
                continue
            # charged cost = value x share for the bit-aware models; compare the product for theta
            a, b = (val * d['theta'], v2 * d2['theta']) if key == 'theta' else (val, v2)
            g_eff = (grads[4] * d['theta'] + val) if key == 'theta' else grads[gi]
            if b > a + 1e-3 * max(1.0, abs(a)) and g_eff == 0.0 and grads[gi] == 0.0 and key != 'theta':
                chk.violation('C12:zero-gradient-on-live-size:%s' % sname,
                              '%s.%s: cost %.6g -> %.6g when %s grows by %g, gradient exactly 0' % (sname, fname, a, b, key, step), cid)
            if key == 'theta' and b > a + 1e-3 * max(1.0, abs(a)) and g_eff == 0.0:
                chk.violation('C12:zero-gradient-on-live-share:%s' % sname,
                              '%s.%s: charged cost %.6g -> %.6g when the precision share grows by %g, gradient of share x cost exactly 0'
                              % (sname, fname, a, b, step), cid)
    # ---- (b) wrappers
    per = 2 if chk.quick else 25
    if chk.proof_broken or chk.corr_disagreements:
        per *= 4
    jobs = []
    for method, costs in METHOD_COSTS.items():
        for c in costs:
            for _ in range(per):
                jobs.append((method, rng.randint(0, 1 << 30), c))
            if method in ('pit2d', 'pitcat', 'sn'):
                jobs.append((method, rng.randint(0, 1 << 30), c, True))
    for o in common.pmap(_model_case, jobs):
        case = {'kind_': 'model', 'method': o['method'], 'seed': o['seed'], 'cost': o['cost'], 'force': o.get('force', False)}
        chk.count((o['method'], o['seed'], o['cost']), bucket='model:%s:%s' % (o['method'], o['cost']),
                  sample=dict(case, value=o.get('value')) if o['method'] == 'odimo' else None)
        for key, what in o['problems']:
            chk.violation('C12:%s:%s:%s' % (key, o['method'], o['cost']), what, case)


def replay(data):
    case = data['case']
    if case.get('kind_') == 'model':
        o = _model_case((case['method'], case['seed'], case['cost'], case.get('force', False)))
        print(o)
        return 1 if o['problems'] else 0
    import plinio.cost as pc
    c = {k: v for k, v in case.items() if k not in ('kind_', 'spec', 'fn', 'index')}
    import importlib
    mod = importlib.import_module('plinio.cost.' + case['spec'])
    val, grads, groups = _eval_real(c, getattr(mod, case['fn']))
    print('value', val, 'grads', grads)
    if case.get('kind_') == 'layer-grad':
        i = case['index']
        c2 = dict(c, alpha=list(c['alpha']))
        c2['alpha'][i] = math.copysign(1.0, c['alpha'][i])
        v2 = _eval_real(c2, getattr(mod, case['fn']))[0]
        print('feature %d switched on: value %r; its gradient before: %r' % (i, v2, grads[0][i]))
        return 1 if (v2 - val > 1e-3 * max(1.0, abs(val)) and grads[0][i] == 0.0) else 0
    return 0 if (math.isfinite(val) and val >= 0) else 1
