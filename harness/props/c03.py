"""C03 — SuperNet export keeps exactly the arg-max branch of every choice block.

proof leg            lean/PlinioVerif/Props/C03.lean (export_eq_hardEval for every SSA program, every
                     winner assignment, every input, abstract leaf semantics; export_drops_losers;
                     outside_untouched; export_succeeds; pinned-rule regression witness)
correspondence leg   the fx graph of the real `SuperNet.seed`, its module names and the exact
                     rationals of every `alpha` go to `Drivers/C03.lean`; the model's export
                     (surviving node list with op kind + target + arguments, surviving qualified
                     module names, winner per block) is diffed against the real `export()`.
histories            "for every value of the selection coefficients": op sequences on fresh SuperNets (alpha
                     written in place / through .data / as a fresh Parameter / by load_state_dict, hard
                     switched, temperature updated, forward passes in eval or train mode incl. Gumbel
                     noise, export() as a repeatable op) ending in export() - mostly with NO forward pass
                     since the last write of alpha. The model (`runHist`, `exportWinners`; theorems
                     export_follows_last_write, export_ignores_sampling_history,
                     export_ignores_earlier_exports, stale_theta_rule_exports_wrong_branch) says export is
                     a function of the current alpha only; every export of a history is checked; `best_layer_index()`, arg-max of theta_alpha and the
                     hard flags after the history are diffed against it, and the oracle below is run with
                     the hard-selection reference output computed AFTER export().
oracle leg           the property's own statement on the real code: hard-mode `SuperNet.eval()(x)` vs
                     `export().eval()(x)`, losers' modules absent, winner = arg-max alpha, layers
                     outside choice blocks (and the winners) are the very same objects with
                     unchanged parameters.
"""
import itertools
import json
import random

from . import sn_common as S
from .. import common

EXHAUSTIVE_LIMIT = 64


# ----------------------------------------------------------------------------- cases
def _corpus_specs():
    """Deterministic nets that must always be covered."""
    out = []
    # 12 branches, every kind among them; branches 1, 10, 11 are single layers (sn_branches.1 is a
    # substring of sn_branches.10 / .11)
    out.append({'C': 3, 'hw': 4, 'wseed': 11, 'fixed_twice': False, 'blocks': [
        {'br': ['conv3', 'conv1', 'id', 'seq', 'ub', 'ubf', 'uba', 'dwsep', 'pool', 'ubr', 'conv5', 'dw3'],
         'use': 'once', 'gumbel': False, 'hard_ctor': False, 'post': 'relu'}]})
    # 12 branches, 1 / 10 / 11 are user blocks (functional tail at 1 and 10), used twice
    out.append({'C': 2, 'hw': 4, 'wseed': 12, 'fixed_twice': True, 'blocks': [
        {'br': ['id', 'ubr', 'conv1', 'seq1', 'ubn', 'conv3nb', 'pool', 'ub', 'dwsep', 'conv3', 'ubm', 'ubf'],
         'use': 'twice', 'gumbel': True, 'hard_ctor': True, 'post': 'none'}]})
    # 11 branches, second call site at another resolution
    out.append({'C': 2, 'hw': 4, 'wseed': 13, 'fixed_twice': False, 'blocks': [
        {'br': ['conv1', 'uba', 'id', 'conv3', 'ubf', 'seq', 'ubr', 'pool', 'dw3', 'ubm', 'ub'],
         'use': 'twice-pool', 'gumbel': False, 'hard_ctor': False, 'post': 'conv'}]})
    # a branch with a torch random function (impure for fx), as winner and as loser, block used twice
    out.append({'C': 3, 'hw': 4, 'wseed': 15, 'fixed_twice': False, 'blocks': [
        {'br': ['conv3', 'ubrand', 'id'], 'use': 'twice', 'gumbel': False, 'hard_ctor': False, 'post': 'relu'}]})
    # in-place statements whose result is unused (outside the blocks, inside a branch) and a branch whose
    # returned value has another user inside the branch
    for i, st in enumerate(S.STATEMENTS):
        out.append({'C': 3, 'hw': 4, 'wseed': 16 + i, 'fixed_twice': False, 'stmt': st, 'blocks': [
            {'br': ['conv3', 'ubip', 'ubaux'], 'use': ['once', 'twice', 'once'][i], 'gumbel': False,
             'hard_ctor': False, 'post': 'none'}]})
    # every kind against Identity, block used twice
    for i, k in enumerate(S.BRANCH_KINDS):
        out.append({'C': 2 + i % 3, 'hw': 4, 'wseed': 100 + i, 'fixed_twice': i % 4 == 0, 'blocks': [
            {'br': [k, 'id'] if i % 2 else ['id', k], 'use': ['once', 'twice', 'twice-pool'][i % 3],
             'gumbel': i % 5 == 0, 'hard_ctor': i % 3 == 0, 'post': ['relu', 'none', 'conv'][i % 3]}]})
    # three blocks of four branches: 64 combinations, exhaustive
    out.append({'C': 3, 'hw': 4, 'wseed': 14, 'fixed_twice': True, 'blocks': [
        {'br': ['conv3', 'ubf', 'id', 'seq'], 'use': 'once', 'gumbel': False, 'hard_ctor': False, 'post': 'none'},
        {'br': ['uba', 'dwsep', 'ub', 'conv1'], 'use': 'twice', 'gumbel': True, 'hard_ctor': False, 'post': 'relu'},
        {'br': ['id', 'ubr', 'ubn', 'ubm'], 'use': 'twice-pool', 'gumbel': False, 'hard_ctor': True, 'post': 'conv'}]})
    return out


def _winner_sets(rng, spec, n_sampled):
    """Every combination of winners when there are at most 64, a sample otherwise (always with
    winners 1, 10, 11 of blocks that have them)."""
    sizes = [len(b['br']) for b in spec['blocks']]
    total = 1
    for s in sizes:
        total *= s
    if total <= EXHAUSTIVE_LIMIT:
        return [list(w) for w in itertools.product(*[range(s) for s in sizes])], True
    seen, out = set(), []
    forced = []
    for bi, s in enumerate(sizes):
        for w in (1, 10, 11, 0, s - 1):
            if w < s:
                c = [rng.randrange(x) for x in sizes]
                c[bi] = w
                forced.append(c)
    for c in forced + [[rng.randrange(x) for x in sizes] for _ in range(4 * n_sampled)]:
        if tuple(c) not in seen and len(out) < max(n_sampled, len(forced)):
            seen.add(tuple(c))
            out.append(c)
    return out, False


def _items(rng, n_random, n_sampled, max_blocks=3, n_hist=4):
    items = []
    for spec in _corpus_specs() + [S.random_spec(rng, max_blocks=max_blocks) for _ in range(n_random)]:
        ws, exhaustive = _winner_sets(rng, spec, n_sampled)
        T = rng.choice([1.0, 1.0, 0.05, 0.5, 5.0, 20.0])
        alphas = [[S.argmax_alpha(rng, len(b['br']), w, T) for b, w in zip(spec['blocks'], wl)] for wl in ws]
        items.append({'spec': spec, 'winners': ws, 'alphas': alphas, 'T': T, 'exhaustive': exhaustive,
                      'xseed': rng.randrange(1 << 30),
                      'hists': [_random_history(rng, spec) for _ in range(n_hist)]})
    return items


# ----------------------------------------------------------------------------- one network
def _export_and_structure(sn, net, spec, winners, seed_line, snapshot):
    """export() at the current coefficients: driver request, canonical real answer, and every clause of
    the property that does not need a forward pass (arg-max branches kept, losers and combiners gone,
    layers outside blocks / winners' layers the same objects with unchanged parameters)."""
    import torch
    from plinio.methods.supernet.nn.combiner import SuperNetCombiner
    rec = {'fail': [], 'err': None, '_e': None}
    rec['line'] = 'export alpha=%s %s' % (S.alpha_field(sn), seed_line)
    combs = S.combiners(sn)
    # winner the property speaks of: arg-max of the raw coefficients (exact floats, unique by construction)
    want = []
    for name, c in combs:
        vals = [float(v) for v in c.alpha.detach().tolist()]
        want.append(max(range(len(vals)), key=lambda i: vals[i]))
    rec['want'] = want
    rec['random_winner'] = any(b['br'][w] in S.IMPURE_INSIDE for b, w in zip(spec['blocks'], want))
    rec['alphas_now'] = [[float(v) for v in c.alpha.detach().tolist()] for _, c in combs]
    if winners is not None and want != list(winners):
        rec['fail'].append(('generator', 'generator produced winners %s, wanted %s' % (want, winners)))
    try:
        e = sn.export()
    except Exception as ex:                                     # noqa: BLE001 - the finding is the exception
        rec['err'] = '%s: %s' % (type(ex).__name__, str(ex)[:160])
        rec['real'] = 'err'
        rec['fail'].append(('raises', 'export() raises ' + rec['err']))
        return rec
    rec['_e'] = e
    # the winner export() used, read BEFORE anything else touches the combiners
    real_win = sorted('%s|%d' % (name, c.best_layer_index()) for name, c in combs)
    toks = S.graph_tokens(e, SuperNetCombiner)
    mods = sorted(S.module_names(e))
    rec['real'] = 'ok win=[%s] nodes=[%s] mods=[%s]' % (','.join(real_win), ','.join(toks), ','.join(mods))
    rec['n_nodes'] = len(toks)
    names = set(mods)
    for bi, ((cname, c), w) in enumerate(zip(combs, want)):
        parent = cname.rsplit('.', 1)[0]
        left = sorted({int(n[len(parent) + len('.sn_branches.'):].split('.')[0]) for n in names
                       if n.startswith(parent + '.sn_branches.')})
        if left != [w]:
            extra = [j for j in left if j != w]
            kinds = spec['blocks'][bi]['br']
            if w in left and extra and all(j < len(kinds) and kinds[j] in S.IMPURE_INSIDE for j in extra):
                rec['fail'].append(('impure-loser-left', 'block %s: layers of the discarded branches %s, which contain '
                                    'a torch random function, are still in the exported network (arg-max is %d): '
                                    'fx dead-code elimination keeps impure ops and what feeds them' % (parent, extra, w)))
            else:
                rec['fail'].append(('branches-left', 'block %s keeps branches %s, arg-max is %d' % (parent, left, w)))
        if cname in names:
            rec['fail'].append(('combiner-left', 'combiner %s still in the exported module tree' % cname))
    if any(isinstance(m, SuperNetCombiner) for m in e.modules()):
        rec['fail'].append(('combiner-left', 'a SuperNetCombiner object is still in the exported network'))
    # layers outside choice blocks and the winners' layers: same objects, same parameters
    kept = dict(e.named_modules())
    for name, m in net.named_modules():
        if not name or 'sn_combiner' in name or any(True for _ in m.children()):
            continue                      # root, combiners (must be gone), containers (re-created by fx)
        # a leaf layer of the user's network: outside choice blocks it must be there; wherever it is
        # kept (outside blocks, winners' layers) it must be the very same object
        if 'sn_branches' not in name and name not in kept:
            rec['fail'].append(('outside-layer-missing', 'layer %s outside choice blocks is missing' % name))
        if name in kept and kept[name] is not m:
            rec['fail'].append(('layer-replaced', 'layer %s of the exported network is not the user\'s object' % name))
    for k, v in net.state_dict().items():
        if 'sn_combiner' in k:
            continue
        if not torch.equal(v, snapshot[k]):
            rec['fail'].append(('parameters-changed', 'export changed %s' % k))
            break
    exported_sd = e.state_dict()
    for k, v in exported_sd.items():
        if k in snapshot and not torch.equal(v, snapshot[k]):
            rec['fail'].append(('parameters-changed', 'exported %s differs from the user\'s' % k))
            break
    return rec


def _compare_output(rec, y, x):
    """`export().eval()(x)` against the hard-selection SuperNet output `y`."""
    import torch
    e = rec.pop('_e', None)
    if e is None:
        return
    if rec.get('random_winner'):
        return                              # the output is a random variable: only the structure is judged
    try:
        with torch.no_grad():
            y2 = e.eval()(x)
    except Exception as ex:                                     # noqa: BLE001
        rec['fail'].append(('exported-forward-raises', 'exported network cannot be evaluated: %s: %s'
                            % (type(ex).__name__, str(ex)[:160])))
        return
    if y2.shape != y.shape or not torch.allclose(y, y2, atol=1e-5, rtol=1e-5):
        d = float((y - y2).abs().max()) if y2.shape == y.shape else float('nan')
        rec['fail'].append(('output-differs', 'export().eval()(x) differs from the hard-selection SuperNet '
                            'by %.3g' % d))
    rec['bit_equal'] = bool(y2.shape == y.shape and torch.equal(y, y2))


def _check_one(sn, net, spec, alphas, winners, T, x, snapshot, seed_line):
    """Real export for one coefficient assignment: canonical answer + oracle verdicts."""
    import torch
    S.set_alpha(sn, alphas)
    if not all(b.get('hard_ctor') for b in spec['blocks']):
        sn.update_softmax_options(hard=True)
    if T != 1.0:
        sn.update_softmax_options(temperature=T)
    sn.eval()
    with torch.no_grad():
        y = sn(x)
    rec = _export_and_structure(sn, net, spec, winners, seed_line, snapshot)
    _compare_output(rec, y, x)
    return rec


def _hard_reference(sn, alphas, x):
    """The SuperNet evaluated with hard (one-hot) selection at the given coefficients."""
    import torch
    S.set_alpha(sn, alphas)
    sn.update_softmax_options(hard=True)
    sn.eval()
    with torch.no_grad():
        return sn(x)


def _run_history(sn, net, spec, hist, x, seed_line):
    """An op sequence on ONE SuperNet, with export() as a repeatable op and a final export().  Every
    export is checked against the arg-max of the coefficients current AT THAT TIME.  No forward pass is
    added between the ops: the hard-selection reference outputs are computed after the last export()
    (the exported networks share their layers with the SuperNet, so they are evaluated then as well)."""
    recs = []
    state = {'st0': _comb_state_field(sn, spec), 'toks': []}

    def do_export(prefix):
        # "untouched" is judged against the state right before this export (training-mode forward
        # passes of the history legitimately update BatchNorm statistics)
        snapshot = {k: v.detach().clone() for k, v in net.state_dict().items()}
        rec = _export_and_structure(sn, net, spec, None, seed_line, snapshot)
        rec['hist'] = prefix
        rec['alphas'], rec['winners'] = rec['alphas_now'], rec['want']
        recs.append(rec)

    for k, op in enumerate(hist):
        if op['op'] == 'export':
            do_export(hist[:k])
        else:
            _apply_op(sn, op, x, state)
    info = _history_answer(sn, spec, hist, state)
    do_export(list(hist))
    recs[-1].update(info)
    for rec in recs:
        if rec.get('_e') is not None:
            _compare_output(rec, _hard_reference(sn, rec['alphas_now'], x), x)
        rec.pop('_e', None)
    return recs


def _comb_state_field(sn, spec):
    """`st=[…]` of the driver's `history` request, read off the real combiners."""
    import torch
    toks = []
    for (name, c), b in zip(S.combiners(sn), spec['blocks']):
        toks.append('%s|%d|%d|%d|%s' % (name, bool(b.get('gumbel')), bool(c.hard_softmax),
                                        int(torch.argmax(c.theta_alpha)),
                                        '|'.join(S.frac(v) for v in c.alpha.detach().tolist())))
    return '[' + ','.join(toks) + ']'


def _apply_op(sn, op, x, state):
    """One non-export op of a history on the real SuperNet; records the driver token."""
    import torch
    import torch.nn as nn
    combs = S.combiners(sn)
    toks = state['toks']
    if op['op'] == 'alpha':
        name, c = combs[op['block']]
        t = torch.tensor(op['a'], dtype=torch.float32)
        how = op['how']
        if how == 'copy':                   # in-place write on the Parameter (what an optimizer step does)
            with torch.no_grad():
                c.alpha.copy_(t)
        elif how == 'data':                 # assignment of new storage through .data
            c.alpha.data = t.clone()
        elif how == 'datacopy':             # in-place write through .data (no autograd version bump)
            c.alpha.data.copy_(t)
        elif how == 'param':                # a fresh Parameter object
            c.alpha = nn.Parameter(t.clone(), requires_grad=c.alpha.requires_grad)
        else:                               # checkpoint restore
            sd = {k: v.clone() for k, v in sn.state_dict().items()}
            key = [k for k in sd if k.endswith(name + '.alpha')]
            sd[key[0]] = t.clone()
            sn.load_state_dict(sd)
        toks.append('a|%s|%s' % (name, '|'.join(S.frac(v) for v in c.alpha.detach().tolist())))
    elif op['op'] == 'hard':
        sn.update_softmax_options(hard=bool(op['v']))
        toks.append('h|%d' % bool(op['v']))
    elif op['op'] == 'temp':
        sn.update_softmax_options(temperature=op['v'])
        toks.append('t')
    elif op['op'] == 'fwd':
        (sn.train if op['train'] else sn.eval)()
        torch.manual_seed(op.get('seed', 0))
        with torch.no_grad():
            sn(x)
        toks.append('f|%d' % bool(op['train']))


def _history_answer(sn, spec, hist, state):
    """Driver request for the whole history and the real combiners' state after it."""
    import torch
    combs = S.combiners(sn)
    toks, k = [], 0
    for op in hist:
        if op['op'] == 'export':
            toks.append('e')
        else:
            toks.append(state['toks'][k])
            k += 1
    real = 'win=[%s] sampled=[%s] hard=[%s]' % (
        ','.join('%s|%d' % (n, c.best_layer_index()) for n, c in combs),
        ','.join('%s|%d' % (n, int(torch.argmax(c.theta_alpha))) for n, c in combs),
        ','.join('%s|%d' % (n, bool(c.hard_softmax)) for n, c in combs))
    return {'hist_line': 'history st=%s ops=[%s]' % (state['st0'], ','.join(toks)), 'hist_real': real}


def hist_is_stale(hist):
    """No forward pass between the last write of alpha and export()."""
    last_alpha = max([i for i, op in enumerate(hist) if op['op'] == 'alpha'], default=-1)
    last_fwd = max([i for i, op in enumerate(hist) if op['op'] == 'fwd'], default=-1)
    return last_alpha > last_fwd


def hist_class(hist):
    """Class of a history ending in export(), for the finding key."""
    if any(op['op'] == 'export' for op in hist):
        return 'repeated-export'
    return 'no-forward-since-alpha-change' if hist_is_stale(hist) else 'after-history'


def _final_alphas(spec, hist):
    out = [None] * len(spec['blocks'])
    for op in hist:
        if op['op'] == 'alpha':
            out[op['block']] = op['a']
    return out


def _random_history(rng, spec):
    """alpha written (three mechanisms) / hard switched / temperature updated / forward passes (eval or
    train) in random order; every block is written at least once; in most histories the last write of
    alpha is NOT followed by a forward pass before export()."""
    sizes = [len(b['br']) for b in spec['blocks']]
    how = lambda: rng.choice(['copy', 'load', 'data', 'datacopy', 'param'])   # noqa: E731

    def write(bi, avoid=None):
        w = rng.randrange(sizes[bi])
        if avoid is not None and sizes[bi] > 1:
            while w == avoid:
                w = rng.randrange(sizes[bi])
        return {'op': 'alpha', 'block': bi, 'a': S.argmax_alpha(rng, sizes[bi], w, 5.0), 'how': how(), 'w': w}

    def misc():
        r = rng.random()
        if r < 0.4:
            return {'op': 'fwd', 'train': rng.random() < 0.4, 'seed': rng.randrange(1 << 20)}
        if r < 0.75:
            return {'op': 'hard', 'v': rng.random() < 0.7}
        return {'op': 'temp', 'v': rng.choice([0.5, 1.0, 5.0])}

    ops = [write(bi) for bi in range(len(sizes))]
    if rng.random() < 0.7:
        ops.append({'op': 'hard', 'v': rng.random() < 0.8})
    for _ in range(rng.randint(0, 2)):
        ops.append(misc())
    ops.append({'op': 'fwd', 'train': rng.random() < 0.3, 'seed': rng.randrange(1 << 20)})
    cur = {op['block']: op['w'] for op in ops if op['op'] == 'alpha'}
    # export() is a repeatable op: about half of the histories export once or twice before the end,
    # with a write of alpha that moves the arg-max in between
    for _ in range(rng.choice([0, 0, 1, 1, 2])):
        if rng.random() < 0.3:
            ops.append(misc())
        ops.append({'op': 'export'})
        for bi in rng.sample(range(len(sizes)), rng.randint(1, len(sizes))):
            ops.append(write(bi, avoid=cur[bi]))
            cur[bi] = ops[-1]['w']
        if rng.random() < 0.3:
            ops.append({'op': 'fwd', 'train': rng.random() < 0.3, 'seed': rng.randrange(1 << 20)})
    for bi in rng.sample(range(len(sizes)), rng.randint(0 if any(o['op'] == 'export' for o in ops) else 1,
                                                        len(sizes))):
        ops.append(write(bi, avoid=cur[bi]))
    for _ in range(rng.randint(0, 2)):
        op = misc()
        if op['op'] != 'fwd' or rng.random() < 0.3:
            ops.append(op)
    for op in ops:
        op.pop('w', None)
    return ops


def _work(item):
    """One network, all its coefficient assignments (runs in a worker process)."""
    common.use_repo_on_path()
    import torch
    torch.set_num_threads(1)
    from plinio.methods import SuperNet
    from plinio.methods.supernet.nn.combiner import SuperNetCombiner
    from plinio.cost import params
    spec = item['spec']
    out = {'spec': spec, 'recs': [], 'ctor_err': None}
    try:
        net = S.build_net(spec)
        snapshot = {k: v.detach().clone() for k, v in net.state_dict().items()}
        sn = SuperNet(net, input_shape=S.input_shape(spec), cost=params, full_cost=True)
    except Exception as ex:                                     # noqa: BLE001
        out['ctor_err'] = '%s: %s' % (type(ex).__name__, str(ex)[:200])
        return out
    seed_line = 'mods=[%s] nodes=[%s]' % (','.join(sorted(S.module_names(sn.seed))),
                                          ','.join(S.graph_tokens(sn.seed, SuperNetCombiner)))
    out['n_seed_nodes'] = len(list(sn.seed.graph.nodes))
    g = torch.Generator().manual_seed(item['xseed'])
    x = torch.randn((2,) + S.input_shape(spec), generator=g)
    for alphas, winners in zip(item['alphas'], item['winners']):
        rec = _check_one(sn, net, spec, alphas, winners, item['T'], x, snapshot, seed_line)
        rec['alphas'] = alphas
        rec['winners'] = winners
        out['recs'].append(rec)
    for hist in item.get('hists', []):
        # a fresh SuperNet per history: the replay starts from the same state
        net_h = S.build_net(spec)
        sn_h = SuperNet(net_h, input_shape=S.input_shape(spec), cost=params, full_cost=True)
        out['recs'].extend(_run_history(sn_h, net_h, spec, hist, x, seed_line))
    return out


# ----------------------------------------------------------------------------- verdicts
def _finding_key(spec, winners, kind, hist=None):
    if kind == 'impure-loser-left':
        return 'C03:export:discarded-branch-with-impure-op-survives'
    losers_side = any(k in S.SIDE_USER_INSIDE for b, w in zip(spec['blocks'], winners)
                      for j, k in enumerate(b['br']) if j != w)
    if kind == 'raises' and losers_side:
        return 'C03:export:raises:discarded-output-has-another-user'
    stmt = spec.get('stmt') or any(b['br'][w] in S.INPLACE_STATEMENT_INSIDE for b, w in zip(spec['blocks'], winners))
    if kind in ('output-differs', 'outside-layer-missing') and stmt and not losers_side:
        return 'C03:export:in-place-statement-dropped'
    if hist is not None:
        return 'C03:export:%s:%s' % (hist_class(hist), kind)
    if kind in ('raises', 'exported-forward-raises'):
        tails = [b['br'][w] in S.FUNCTIONAL_TAIL for b, w in zip(spec['blocks'], winners)]
        if any(tails):
            return 'C03:export:winner-ends-in-functional-op'
        return 'C03:export:raises'
    return 'C03:export:' + kind


def _fails(case):
    """Re-run one case in-process; list of (kind, text)."""
    if case.get('hist') is not None:
        item = {'spec': case['spec'], 'alphas': [], 'winners': [], 'T': 1.0, 'xseed': case.get('xseed', 0),
                'hists': [case['hist']]}
    else:
        item = {'spec': case['spec'], 'alphas': [case['alphas']], 'winners': [case['winners']],
                'T': case.get('T', 1.0), 'xseed': case.get('xseed', 0)}
    r = _work(item)
    if r['ctor_err']:
        return [('constructor-raises', r['ctor_err'])]
    return r['recs'][-1 if case.get('hist') is not None else 0]['fail']


def _shrink(case, kind, budget=40):
    """Greedy reduction of a failing case (same failure kind must persist)."""
    best = case

    def still(c):
        try:
            return any(k == kind for k, _ in _fails(c))
        except Exception:                                       # noqa: BLE001
            return False

    # histories: drop ops one at a time (every block must still be written once)
    if best.get('hist') is not None:
        i = 0
        while i < len(best['hist']) and budget > 0:
            h2 = best['hist'][:i] + best['hist'][i + 1:]
            if {op['block'] for op in h2 if op['op'] == 'alpha'} == set(range(len(best['spec']['blocks']))) \
                    and hist_class(h2) == hist_class(case['hist']):           # stay in the class of the key
                fa = _final_alphas(best['spec'], h2)
                c = dict(best, hist=h2, alphas=fa, winners=[max(range(len(a)), key=lambda j: a[j]) for a in fa])
                budget -= 1
                if still(c):
                    best = c
                    continue
            i += 1
    changed = True
    while changed and budget > 0:
        changed = False
        spec = best['spec']
        cands = []
        for bi in range(len(spec['blocks'])):
            if len(spec['blocks']) > 1 and best.get('hist') is None:
                s2 = json.loads(json.dumps(spec))
                del s2['blocks'][bi]
                cands.append(dict(best, spec=s2, alphas=best['alphas'][:bi] + best['alphas'][bi + 1:],
                                  winners=best['winners'][:bi] + best['winners'][bi + 1:]))
            b = spec['blocks'][bi]
            w = best['winners'][bi]
            for j in reversed(range(len(b['br']))):
                if j != w and len(b['br']) > 2 and best.get('hist') is None:
                    s2 = json.loads(json.dumps(spec))
                    del s2['blocks'][bi]['br'][j]
                    a2 = [list(a) for a in best['alphas']]
                    del a2[bi][j]
                    w2 = list(best['winners'])
                    w2[bi] = w - 1 if j < w else w
                    cands.append(dict(best, spec=s2, alphas=a2, winners=w2))
            for key, val in (('use', 'once'), ('post', 'none'), ('gumbel', False), ('hard_ctor', False)):
                if b.get(key) != val:
                    s2 = json.loads(json.dumps(spec))
                    s2['blocks'][bi][key] = val
                    cands.append(dict(best, spec=s2))
        if spec.get('fixed_twice'):
            s2 = json.loads(json.dumps(spec))
            s2['fixed_twice'] = False
            cands.append(dict(best, spec=s2))
        if spec.get('stmt'):
            s2 = json.loads(json.dumps(spec))
            del s2['stmt']
            cands.append(dict(best, spec=s2))
        for c in cands:
            if budget <= 0:
                break
            budget -= 1
            if still(c):
                best, changed = c, True
                break
    return best


def _canon(ans):
    """Sort what is a set (winner table) in a driver answer."""
    toks = ans.split(' ')
    for i, t in enumerate(toks):
        if t.startswith('win=[') and t.endswith(']'):
            toks[i] = 'win=[' + ','.join(sorted(x for x in t[5:-1].split(',') if x)) + ']'
    return ' '.join(toks)


def run(chk):
    chk.rule = ('SuperNets from a spec grammar: 1..3 SuperNetModules x 2..12 branches drawn from 16 kinds '
                '(single conv/dw/pool layers, nn.Sequential, nn.Identity, user blocks ending in a module, user '
                'blocks ending in a functional or method op, blocks with an in-place statement / an auxiliary layer '
                'whose result is unused / a torch random function) x optional in-place statement outside the blocks '
                '(module, method or functional; result unused) x used once / twice / twice at another resolution '
                'x softmax or Gumbel sampler, hard via constructor or update_softmax_options, fixed layers '
                'before/between/after (one of them used twice); every combination of winners when <= 64, else a '
                'sample that always contains winners 1, 10, 11 of blocks that have them; alpha vectors of four '
                'styles with a unique arg-max (margin >= 1/16). non-trivial = the winner combination is not '
                'all-zero (the only one the unit tests export); distinct = distinct (network, winner combination). '
                'PLUS op histories on fresh SuperNets: alpha written (in-place copy / .data assignment / '
                '.data.copy_ / fresh nn.Parameter / load_state_dict) / hard switched / temperature updated / forward '
                'passes (eval or train, Gumbel noise included) / export() as a repeatable op (about half of the '
                'histories export 2-3 times on ONE SuperNet, alpha rewritten in between so that the arg-max '
                'moves), every block written at least once, ending in export() - mostly with NO forward pass '
                'since the last write of alpha; every export is checked against the arg-max current at that '
                'time; the hard-selection reference outputs are computed AFTER the last export(). non-trivial '
                'history = no forward since the last write, an earlier export, or a training-mode forward')
    chk.assumptions.append('leaf ops are pure functions of the VALUES of their inputs (the SSA carrier): no in-place '
                           'op on a tensor that is read elsewhere, no dependence on aliasing or memory layout. Outside '
                           'it (clean-tree observations): nn.Identity winning + an in-place layer after the block + the '
                           'block input reused (the combiner returns a fresh tensor, the exported network the block '
                           'input itself); a winner returning a non-contiguous tensor + .view() outside; an in-place op '
                           'at the head of a discarded branch; 0*inf. The exported network is then still the selected '
                           'architecture as PyTorch evaluates it when written by hand')
    chk.trusted.append('torch.fx tracing / ShapeProp / recompile / delete_all_unused_submodules and the torch '
                       'kernels (exercised by the oracle leg on every case, modelled as SSA substitution)')
    chk.prove()
    rng = chk.rng
    n_random, n_sampled = (110, 16) if chk.quick else (1500, 48)
    items = _items(rng, n_random, n_sampled)
    results = common.pmap(_work, items)
    lines, flat = [], []
    for item, res in zip(items, results):
        if res['ctor_err']:
            chk.violation('C03:constructor-raises', 'SuperNet() raises on a generated network: ' + res['ctor_err'],
                          {'kind': 'ctor', 'spec': item['spec']})
            continue
        for rec in res['recs']:
            lines.append(rec['line'])
            flat.append((item, rec))
    hist_recs = [(item, rec) for item, rec in flat if rec.get('hist_line')]
    model_all = S.driver_parallel(chk, 'C03', lines + [rec['hist_line'] for _, rec in hist_recs])
    model, model_hist = model_all[:len(lines)], model_all[len(lines):]
    first_fail = {}
    for (item, rec), ans in zip(hist_recs, model_hist):
        case = {'kind': 'export', 'spec': item['spec'], 'alphas': rec['alphas'], 'winners': rec['winners'],
                'T': 1.0, 'xseed': item['xseed'], 'hist': rec['hist']}
        # arg-max of theta_alpha is compared only where the model determines it (no Gumbel noise)
        real_f = dict(t.split('=', 1) for t in rec['hist_real'].split(' '))
        mod_f = dict(t.split('=', 1) for t in ans.split(' ') if '=' in t)
        if 'sampled' in mod_f and 'sampled' in real_f:
            rs, ms = real_f['sampled'][1:-1].split(','), mod_f['sampled'][1:-1].split(',')
            if len(rs) == len(ms):
                real_f['sampled'] = '[' + ','.join(m if m.endswith('|?') else r for r, m in zip(rs, ms)) + ']'
        chk.corr(case, ' '.join('%s=%s' % kv for kv in sorted(real_f.items())),
                 ' '.join('%s=%s' % kv for kv in sorted(mod_f.items())),
                 'after the op history: branch best_layer_index() hands to export (arg-max of the CURRENT alpha), '
                 'arg-max of theta_alpha, hard flags: real combiners vs model')
    for (item, rec), ans in zip(flat, model):
        spec = item['spec']
        case = {'kind': 'export', 'spec': spec, 'alphas': rec['alphas'], 'winners': rec['winners'],
                'T': item['T'], 'xseed': item['xseed']}
        if rec.get('hist') is not None:
            case.update(hist=rec['hist'], T=1.0)
        m_main = _canon(ans.split(' plain=')[0].split(' hyp=')[0])
        flags = dict(t.split('=', 1) for t in ans.split(' ') if '=' in t and not t.startswith(('win=', 'nodes=', 'mods=')))
        chk.corr(case, rec['real'], m_main, 'exported node list / module names / winners: real export() vs model')
        if ans.startswith('ok') and not (' plain=1 ' in ans and ' sim=1 ' in ans):
            chk.corr(case, 'plain=1 sim=1', ans[ans.index(' plain=') + 1:],
                     'model self-check: exported graph is plain and simulates the hard evaluation')
        if flags.get('hyp') != '1':
            chk.corr(case, 'hyp=1', 'hyp=%s' % flags.get('hyp'), 'the traced graph satisfies WF, IOSane and Discipline '
                                                               '(hypotheses of the C03 theorems)')
        else:
            chk.hist['theorem-hypotheses-hold'] = chk.hist.get('theorem-hypotheses-hold', 0) + 1
        if rec.get('random_winner'):
            chk.hist['output-not-compared:random-winner'] = chk.hist.get('output-not-compared:random-winner', 0) + 1
        nontriv = any(w != 0 for w in rec['winners'])
        use = '+'.join(sorted({b['use'] for b in spec['blocks']}))
        if rec.get('hist') is not None:
            stale = hist_is_stale(rec['hist'])
            nontriv = stale or any(op['op'] == 'export' or op['op'] == 'fwd' and op['train'] for op in rec['hist'])
            hb = 'history:%s' % hist_class(rec['hist'])
            chk.hist[hb] = chk.hist.get(hb, 0) + 1
            for op in rec['hist']:
                k = 'history-op:' + (op['op'] + ('/' + op['how'] if op['op'] == 'alpha' else '') +
                                     ('/train' if op.get('train') else ''))
                chk.hist[k] = chk.hist.get(k, 0) + 1
        chk.count((json.dumps(spec, sort_keys=True), tuple(rec['winners']),
                   json.dumps(rec.get('hist'), sort_keys=True)), nontrivial=nontriv,
                  sample={'spec': spec, 'winners': rec['winners'], 'alphas': rec['alphas'],
                          'exported_nodes': rec.get('n_nodes'), 'history': rec.get('hist')},
                  bucket=('history,' if rec.get('hist') is not None else '') + 'blocks=%d' % len(spec['blocks']))
        for b, w in zip(spec['blocks'], rec['winners']):
            for key in ('winner-kind:' + S.KIND_CLASS[b['br'][w]], 'use:' + b['use'],
                        'branches:%s' % ('2-4' if len(b['br']) <= 4 else '5-8' if len(b['br']) <= 8 else '9-12'),
                        'sampler:%s%s' % ('gumbel' if b.get('gumbel') else 'softmax',
                                          '/hard-ctor' if b.get('hard_ctor') else '')):
                chk.hist[key] = chk.hist.get(key, 0) + 1
            if len(b['br']) >= 11 and w in (1, 10, 11):
                chk.hist['winner-%d-of->=11' % w] = chk.hist.get('winner-%d-of->=11' % w, 0) + 1
        if rec.get('bit_equal'):
            chk.hist['output-bit-identical'] = chk.hist.get('output-bit-identical', 0) + 1
        for kind, text in rec['fail']:
            key = _finding_key(spec, rec['winners'], kind, rec.get('hist'))
            if key not in first_fail:
                first_fail[key] = (case, kind, text)
    nbit = chk.hist.get('output-bit-identical', 0)
    chk.observe('export().eval()(x) was bit-identical (torch.equal) to the hard-selection SuperNet in %d of %d '
                'cases (demanded: allclose 1e-5; the combiner adds exact zeros)' % (nbit, len(flat)))
    chk.extra['exhaustive_networks'] = sum(1 for it in items if it['exhaustive'])
    chk.extra['sampled_networks'] = sum(1 for it in items if not it['exhaustive'])
    broken = bool(chk.proof_broken or chk.corr_disagreements)
    if broken and not first_fail:
        # escalate the search for a failing input of the property itself
        extra = _items(random.Random(chk.seed + 7919), n_random * 5, n_sampled)
        for item, res in zip(extra, common.pmap(_work, extra)):
            if res['ctor_err']:
                continue
            for rec in res['recs']:
                chk.count((json.dumps(item['spec'], sort_keys=True), tuple(rec['winners']), 'esc'), bucket='escalated')
                for kind, text in rec['fail']:
                    key = _finding_key(item['spec'], rec['winners'], kind, rec.get('hist'))
                    if key not in first_fail:
                        c = {'kind': 'export', 'spec': item['spec'], 'alphas': rec['alphas'],
                             'winners': rec['winners'], 'T': item['T'], 'xseed': item['xseed']}
                        if rec.get('hist') is not None:
                            c.update(hist=rec['hist'], T=1.0)
                        first_fail[key] = (c, kind, text)
    for key, (case, kind, text) in sorted(first_fail.items()):
        small = _shrink(case, kind)
        small = dict(small, observed=text)
        chk.violation(key, text, small)


def replay(data):
    case = data['case']
    common.use_repo_on_path()
    if case.get('kind') == 'ctor':
        r = _work({'spec': case['spec'], 'alphas': [], 'winners': [], 'T': 1.0, 'xseed': 0})
        print('constructor:', r['ctor_err'] or 'ok')
        return 1 if r['ctor_err'] else 0
    fails = _fails(case)
    print('network:', json.dumps(case['spec']))
    print('alpha:', case['alphas'], '-> winners', case['winners'])
    if case.get('hist') is not None:
        print('history before export() (fresh SuperNet):')
        for op in case['hist']:
            print('   ', json.dumps(op))
        print('   export()   <- checked   [%s; %s]' % (
            hist_class(case['hist']), 'no forward pass since the last write of alpha'
            if hist_is_stale(case['hist']) else 'a forward pass follows the last write of alpha'))
    for kind, text in fails:
        print('FAILS [%s] %s' % (kind, text))
    if not fails:
        print('export() = hard-selection SuperNet on this case; losers gone; outside layers untouched')
    return 1 if fails else 0
