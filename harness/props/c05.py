"""C05 — MPS cost equals the exact bit-cost of the selected precision assignment (eval / hard mode).

proof leg            lean/PlinioVerif/Props/C05.lean (hard_cost_per_layer, params_bit_exact, ops_bit_exact,
                     per_channel_exact, spec_keys_follow_torch_names, producer_pruning_lowers_consumer_cost, ...)
correspondence leg   (a) the spec-key table EXTRACTED FROM SOURCE on every run (AST of every MPS layer class's
                     get_modified_vars vs the constructor attribute names of nn.Conv1d/Conv2d/Linear) vs the table
                     the lemma is about; (b) the bit-cost functions on integer grids vs the model's; (c) random
                     nets x {per-layer, per-channel, per-channel with 0-bit} x coefficients: effective in/out
                     feature counts, what a probing CostSpec is shown (counts, precisions, w_theta_alpha, weight of
                     every matrix entry), per-layer and total params_bit / ops_bit (exact integers), mpic_latency
                     and ne16_latency (1e-5 band) — real MPS object vs Lean model.
oracle leg           the property itself, computed independently of the model from summary() and the layer
                     geometry: params_bit = sum #weights x bits, ops_bit = MACs x w bits x in bits (alive channels
                     only), = numel x bits of the exported layers (per-layer search), mpic/ne16 = the cost function on
                     the sub-layers of the assignment; the probing spec sees the alive input width under the PyTorch
                     name of the layer type; pruning a producer strictly lowers its consumers' cost
                     (conv->conv, conv->flatten->linear, linear->linear, conv1d->conv1d).
"""
import ast
import inspect
import json
import os
import random
from fractions import Fraction

from .. import common
from . import mps_common as mc

KEY_LINEAR = 'C05:MPSLinear:spec-keys'
KEY_F14 = 'C05:per-channel:0bit:alive-over-total'
KEY_MPIC_DW = 'C05:mpic_latency:depthwise:per-channel-0bit'
KEY_INCOMP = 'C05:effective-in-features:mps-module-in-input-component'
KEY_REUSE = 'C05:layer-reuse:per-invocation-shape'
KEY_TIE = 'C05:coefficient-tie:sampled-coefficients-not-one-hot'
KEY_NE16_COUNT = 'C05:ne16_latency:per-channel:float32-channel-count'
KEY_SIAM = 'C05:layer-reuse:call-sites-on-different-producers'
KEY_EXCL = 'C05:effective-in-features:excluded-operand'
KEY_SPLIT = 'C05:layer-reuse:call-sites-in-different-components'
KEY_REUSE_IN = 'C05:layer-reuse:call-site-on-network-input'
KEY_EXCL_DW = 'C05:effective-in-features:depthwise-after-excluded-layer'
KEY_EXCL_REUSE = 'C05:effective-in-features:reused-layer-after-excluded-layer'
LT_NAME = {'Conv1d': 'conv1d', 'Conv2d': 'conv2d', 'Linear': 'linear'}


# ------------------------------------------------------------------------------------------
# (a) spec keys extracted from source
# ------------------------------------------------------------------------------------------

def extract_key_tables():
    """-> (mod table, torch table, out-expression kinds), each {layer type: ...}; read from the
    source files of the tree under test on every run."""
    import torch.nn as nn
    from plinio.methods.mps.graph import mps_layer_map
    mod, torch_t, outk = {}, {}, {}
    for nn_cls, mps_cls in mps_layer_map.items():
        lt = LT_NAME[nn_cls.__name__]
        params = [p for p in inspect.signature(nn_cls.__init__).parameters if p != 'self']
        torch_t[lt] = (params[0], params[1])
        path = inspect.getsourcefile(mps_cls)
        tree = ast.parse(open(path).read())
        fn = None
        for node in ast.walk(tree):
            if isinstance(node, ast.ClassDef) and node.name == mps_cls.__name__:
                for it in node.body:
                    if isinstance(it, ast.FunctionDef) and it.name == 'get_modified_vars':
                        fn = it
        if fn is None:
            mod[lt] = ('?', '?')
            continue
        kin = kout = '?'
        okind = '?'
        for st in ast.walk(fn):
            if isinstance(st, ast.Assign) and len(st.targets) == 1 and isinstance(st.targets[0], ast.Subscript):
                sl = st.targets[0].slice
                if isinstance(sl, ast.Constant) and isinstance(sl.value, str):
                    src = ast.unparse(st.value)
                    if 'input_features_calculator' in src:
                        kin = sl.value
                    else:
                        kout = sl.value
                        okind = 'eff' if 'out_features_eff' in src else ('static' if src in ('self.out_channels', 'self.out_features') else src)
        mod[lt] = (kin, kout)
        outk[lt] = okind
    return mod, torch_t, outk


def _show_keys(t):
    return mc.lst(['%s:%s:%s' % (lt, t[lt][0], t[lt][1]) for lt in ('conv1d', 'conv2d', 'linear') if lt in t])


# ------------------------------------------------------------------------------------------
# (b) cost functions on grids
# ------------------------------------------------------------------------------------------

def _costfn_grid(rng, n):
    out = []
    for _ in range(n):
        lt = rng.choice([1, 2, 3])
        dw = rng.choice([0, 1]) if lt != 3 else 0
        cin = rng.randint(2, 9)
        cout = cin if dw else rng.randint(1, 9)
        out.append({'name': rng.choice(['params_bit', 'ops_bit', 'mpic_latency']), 'lt': lt, 'dw': dw,
                    'in': rng.randint(0, cin), 'out': cout, 'cin_static': cin, 'k0': rng.choice([1, 3, 5]), 'k1': rng.choice([1, 3]),
                    'o0': rng.randint(1, 8), 'o1': rng.randint(1, 8), 'bias': rng.choice([0, 1]),
                    'pin': rng.choice([2, 4, 8]), 'pw': rng.choice([0, 2, 4, 8])})
    return out


def _costfn_line(g):
    k1 = g['k1'] if g['lt'] == 2 else 1
    o1 = g['o1'] if g['lt'] == 2 else 1
    return ('costfn name=%s lt=%d dw=%d in=%d out=%d k0=%d k1=%d o0=%d o1=%d bias=%d pin=%d pw=%d'
            % (g['name'], g['lt'], g['dw'], g['in'], g['out'], g['k0'], k1, g['o0'] if g['lt'] != 3 else 1, o1,
               g['bias'], g['pin'], g['pw']))


def _costfn_real(g):
    import torch
    import torch.nn as nn
    import plinio.cost as pc
    typ = {1: nn.Conv1d, 2: nn.Conv2d, 3: nn.Linear}[g['lt']]
    static = {'in_channels': g['cin_static'], 'out_channels': g['out'], 'groups': g['out'] if g['dw'] else 1}
    if g['dw']:
        static['in_channels'] = g['out']
    fn = getattr(pc, g['name'])[(typ, static)]      # looked up on the static layer, as _create_cost_fn_map does
    t = lambda v: torch.tensor(float(v), dtype=torch.float64)
    spec = {'_parameters': {'bias': 1 if g['bias'] else None}, 'in_precision': t(g['pin']), 'w_precision': t(g['pw']),
            'groups': static['groups']}      # vars(layer) always holds it (read by the generic MAC count since 5c5c838)
    if g['lt'] == 3:
        spec.update({'in_features': t(g['in']), 'out_features': g['out']})
    else:
        spec.update({'in_channels': t(g['in']), 'out_channels': g['out'],
                     'kernel_size': (g['k0'],) if g['lt'] == 1 else (g['k0'], g['k1']),
                     'output_shape': (1, g['out'], g['o0']) if g['lt'] == 1 else (1, g['out'], g['o0'], g['o1'])})
    return float(fn(spec))


# ------------------------------------------------------------------------------------------
# (c) nets
# ------------------------------------------------------------------------------------------

def _ne16_ok(desc, cfg):
    if desc['dim'] != 2 or cfg['ap'] != [8] or cfg['ip'] != [8]:
        return False
    for ins in desc['prog']:
        if ins[0] == 'dw' and ins[2] != 3:
            return False
    return True


def _mk_probes(rec):
    """Four probing cost specifications: each returns one of the things it is shown (alive input count,
    output count, input precision, weight precision), read under the PyTorch attribute names of the
    layer type; the first also records everything it is shown."""
    import torch
    from plinio.cost import CostSpec
    from plinio.cost.pattern import Conv1dGeneric, Conv2dGeneric, LinearGeneric

    def mk(kind):
        def fn_for(ki, ko):
            def fn(spec):
                vals = {'in': spec[ki], 'out': spec[ko], 'pin': spec['in_precision'], 'pw': spec['w_precision']}
                if kind == 'in':
                    rec.append((id(spec['_parameters']), float(spec[ki]), float(spec[ko]), float(spec['in_precision']),
                                float(spec['w_precision']), float(spec['w_theta_alpha'])))
                return torch.as_tensor(vals[kind], dtype=torch.float32)
            return fn
        cs = CostSpec(shared=True, default_behavior='zero')
        cs[Conv1dGeneric] = fn_for('in_channels', 'out_channels')
        cs[Conv2dGeneric] = fn_for('in_channels', 'out_channels')
        cs[LinearGeneric] = fn_for('in_features', 'out_features')
        return cs
    return {'probe_' + k: mk(k) for k in ('in', 'out', 'pin', 'pw')}


def _geometry(desc):
    """per instruction: dict(k, pos, bias, cin, cout) of searchable layers (BatchNorm adds a bias)"""
    ch, sp = mc._shapes(desc)
    has_bn = set(ins[1] for ins in desc['prog'] if ins[0] == 'bn')
    g = {}
    for i, ins in enumerate(desc['prog']):
        if ins[0] == 'conv':
            g[i] = {'kind': 'conv', 'k': ins[3] ** desc['dim'], 'pos': sp[i] ** desc['dim'], 'bias': int(bool(ins[5]) or i in has_bn),
                    'cin': ch[ins[1]], 'cout': ins[2], 'ks': ins[3], 'o': sp[i]}
        elif ins[0] == 'dw':
            g[i] = {'kind': 'dw', 'k': ins[2] ** desc['dim'], 'pos': sp[i] ** desc['dim'], 'bias': int(bool(ins[4]) or i in has_bn),
                    'cin': ch[ins[1]], 'cout': ch[ins[1]], 'ks': ins[2], 'o': sp[i]}
        elif ins[0] == 'reuse':
            of = desc['prog'][ins[2]]
            g[i] = {'kind': 'conv', 'k': of[3] ** desc['dim'], 'pos': sp[i] ** desc['dim'],
                    'bias': int(bool(of[5]) or ins[2] in has_bn), 'cin': ch[ins[1]], 'cout': of[2], 'ks': of[3], 'o': sp[i],
                    'reuse_of': ins[2]}
        elif ins[0] == 'lin':
            g[i] = {'kind': 'lin', 'k': 1, 'pos': 1, 'bias': int(bool(ins[3]) or i in has_bn), 'cin': ch[ins[1]], 'cout': ins[2],
                    'ks': 1, 'o': 1}
    return g


def _alive_counts(desc, wbits):
    """alive channels of every instruction's output, from the assignment `summary()` reports
    (wbits: instruction -> list of per-channel weight bits); independent of the calculators.
    Channel tensors are tracked as masks, so the alive set of a sum is the UNION of its operands'."""
    ch, sp = mc._shapes(desc)
    mask, alive = [], []
    for i, ins in enumerate(desc['prog']):
        op = ins[0]
        if op == 'input':
            mask.append([True] * desc['C0'])
        elif op in ('conv', 'dw', 'lin', 'reuse'):
            mask.append([b != 0 for b in wbits[i]])
        elif op == 'flat':
            mask.append(None)
            alive.append(alive[ins[1]] * sp[ins[1]] ** desc['dim'])
            continue
        elif op == 'add':
            ma, mb = mask[ins[1]], mask[ins[2]]
            mask.append([x or y for x, y in zip(ma, mb)] if ma is not None and mb is not None else None)
            if mask[-1] is None:
                alive.append(max(alive[ins[1]], alive[ins[2]]))
                continue
        else:
            mask.append(mask[ins[1]])
            if mask[-1] is None:
                alive.append(alive[ins[1]])
                continue
        alive.append(sum(mask[-1]))
    return alive


def _exact_costs(desc, wbits, inbits, ne16_fn=None):
    """The exact cost of an assignment, layer by layer: {instr: dict(pb, ob, mpic, ne16, alive_in)}"""
    from plinio.cost.mpic_latency import _mpic_lut
    geo = _geometry(desc)
    alive = _alive_counts(desc, wbits)
    out = {}
    for i, g in geo.items():
        src = desc['prog'][i][1]
        ain = alive[src]
        wpc = g['k'] if g['kind'] == 'dw' else g['k'] * ain          # weights per alive output channel
        groups = {}
        for b in wbits[i]:
            groups[b] = groups.get(b, 0) + 1
        pb = sum(n * wpc * b for b, n in groups.items())
        ob = pb * g['pos'] * inbits[i]
        mp = None
        if inbits[i] in (2, 4, 8) and all(b in (0, 2, 4, 8) for b in groups):
            mp = sum(n * (wpc + g['bias']) * g['pos'] * _mpic_lut(inbits[i], b) for b, n in groups.items())
        ne = None
        if ne16_fn is not None:
            ne = 0.0
            for b, n in groups.items():
                if b != 0:
                    ne += float(ne16_fn(g, n, ain, b))
        out[i] = {'pb': pb, 'ob': ob, 'mpic': mp, 'ne16': ne, 'alive_in': ain, 'dup': 'reuse_of' in g,
                  'alive_out': sum(1 for b in wbits[i] if b != 0), 'pruned': sum(1 for b in wbits[i] if b == 0)}
    return out


def _ne16_sub(g, n_out, n_in, bits):
    """ne16_latency of the sub-layer holding the `n_out` channels assigned `bits`"""
    import torch
    import torch.nn as nn
    from plinio.cost import ne16_latency
    t = lambda v: torch.tensor(float(v))
    if g['kind'] == 'lin':
        fn = ne16_latency[(nn.Linear, {})]
        spec = {'in_features': t(n_in), 'out_features': n_out}
    else:
        dw = g['kind'] == 'dw'
        fn = ne16_latency[(nn.Conv2d, {'in_channels': g['cin'], 'out_channels': g['cout'], 'groups': g['cout'] if dw else 1})]
        spec = {'in_channels': t(n_in), 'out_channels': n_out, 'kernel_size': (g['ks'], g['ks']),
                'output_shape': (1, n_out, g['o'], g['o'])}
    spec.update({'w_precision': t(bits), 'in_precision': t(8), 'w_theta_alpha': t(1.0)})
    return fn(spec)


def _close(a, b, rel=1e-5):
    return abs(a - b) <= rel * max(1.0, abs(a), abs(b))


def _run_case(case):
    import torch
    import warnings
    warnings.filterwarnings('ignore')
    torch.set_num_threads(1)
    from plinio.cost import params_bit, ops_bit, mpic_latency, ne16_latency
    from plinio.graph.inspection import shapes_dict
    desc, cfg = case['desc'], case['cfg']
    res = {'fail': [], 'family': case['family']}
    try:
        rec = []
        cost = {'params_bit': params_bit, 'ops_bit': ops_bit}
        cost.update(_mk_probes(rec))
        mpic_ok = all(p in (2, 4, 8) for p in cfg['ap'] + cfg['ip']) and all(p in (0, 2, 4, 8) for p in cfg['wp'])
        if mpic_ok:
            cost['mpic_latency'] = mpic_latency
        ne16 = bool(case.get('ne16'))
        if ne16:
            cost['ne16_latency'] = ne16_latency
        m, shape = mc.make_mps(desc, cfg, cost)
        if case.get('force'):
            # directed assignment: the first `n` channels of one layer take candidate `row`, the others candidate 0
            fl = m.seed.get_submodule('n%d' % case['force']['instr'])
            with torch.no_grad():
                a = fl.w_mps_quantizer.alpha
                a.zero_()
                a[0, :] = 1.0
                a[0, :case['force']['n']] = 0.0
                a[case['force']['row'], :case['force']['n']] = 1.0
        x = mc.rand_input(cfg, shape, batch=2)
        if case['mode'] == 'hard':
            m.train()
            m.update_softmax_options(hard=True, gumbel=False)
        else:
            m.eval()
        with torch.no_grad():
            m(x)
        line, slots = mc.request_line(desc, cfg, m)
        res['line'] = line
        if line is None:
            return res
        real = mc.mps_slots(m)
        layers = [(mi_, ii, mod, node, name) for (tag, mi_, ii), (rtag, name, mod, node) in zip(slots, real) if tag == 'L']
        # ---- what the real object says
        res['feat'] = mc.lst(['%d:%s:%s' % (mi_, mc.rat(mc.frac_of(mod.input_features_calculator.features)),
                                            mc.rat(mc.frac_of(mod.out_features_eff))) for mi_, ii, mod, node, name in layers])
        totals = {k: float(m.get_cost(k)) for k in cost}       # probe_in fills `rec`
        by_layer = {}
        for r in rec:
            by_layer.setdefault(r[0], []).append(r[1:])
        shown, lc, mp_real, ne_real, per_layer = [], [], {}, {}, {}
        summ = m.summary()
        wbits, inbits, shown_by_instr = {}, {}, {}
        for mi_, ii, mod, node, name in layers:
            sd = shapes_dict(node)
            ent = by_layer.get(id(mod._parameters), [])
            # weight of every matrix entry, independent of how the matrix is laid out: the cost under a
            # function that answers 1 for one pair of precisions only
            wm = []
            for e_ in ent:
                pair = (e_[2], e_[3])
                ind = lambda v, pair=pair: torch.tensor(1.0 if (float(v['in_precision']), float(v['w_precision'])) == pair else 0.0)
                wm.append(float(torch.sum(mod.get_cost(ind, sd))))
            shown_by_instr[ii] = (wm, ent)
            rows = []
            for w, e_ in zip(wm, ent):
                rows.append(mc.lst([mc.rat(mc.small_frac(w)), mc.rat(mc.frac_of(e_[0])), mc.rat(mc.frac_of(e_[1])),
                                    mc.rat(mc.frac_of(e_[2])), mc.rat(mc.frac_of(e_[3])), mc.rat(mc.small_frac(e_[4]))]))
            shown.append('%d:%s' % (mi_, mc.lst(sorted(rows))))
            typ = type(mod).__mro__[1]
            per = {}
            for k in ('params_bit', 'ops_bit') + (('mpic_latency',) if mpic_ok else ()) + (('ne16_latency',) if ne16 else ()):
                fn = cost[k][(typ, vars(mod))]
                per[k] = float(torch.sum(mod.get_cost(fn, sd)))
            lc.append('%d:%s:%s' % (mi_, mc.rat(mc.frac_of(per['params_bit'])), mc.rat(mc.frac_of(per['ops_bit']))))
            mp_real[mi_] = per.get('mpic_latency')
            per_layer[ii] = per
            ne_real[ii] = per.get('ne16_latency')
            s = summ[name]
            wb = s['w_precision']
            wbits[ii] = list(wb) if isinstance(wb, list) else [wb] * int(mod.weight.shape[0])
            inbits[ii] = s['in_precision']
        # input bits of every CALL SITE, independently of the layer's own in-quantizer: the output
        # bit-width summary() reports for the searchable module that produced the tensor read there
        name_of = {ii_: rname for (tag_, mi2, ii_), (rtag, rname, rmod, rnode) in zip(slots, real)}
        for mi_, ii, mod, node, name in layers:
            j = desc['prog'][ii][1]
            while j not in name_of:
                j = desc['prog'][j][1]
            site_bits = summ[name_of[j]]['out_precision']
            if site_bits != inbits[ii]:
                res.setdefault('in_bits_mismatch', []).append((name, ii, inbits[ii], site_bits))
            inbits[ii] = site_bits
        res['shown'] = mc.lst(shown)
        res['lc'] = mc.lst(lc)
        res['mp_real'] = mp_real
        res['cost'] = '[params_bit:%s,ops_bit:%s]' % (mc.rat(mc.frac_of(totals['params_bit'])), mc.rat(mc.frac_of(totals['ops_bit'])))
        res['mpic_total'] = totals.get('mpic_latency')
        res['ne16_total'] = totals.get('ne16_latency')
        res['ne16_layers'] = ne_real
        res['probe_totals'] = {k: totals[k] for k in totals if k.startswith('probe_')}
        res['geo'] = {ii: _geometry(desc)[ii] for _, ii, _, _, _ in layers}
        # ---- oracle: the exact cost of the assignment summary() reports
        ex = _exact_costs(desc, wbits, inbits, _ne16_sub if ne16 else None)
        res['pruned_layers'] = sum(1 for v in ex.values() if v['pruned'])
        res['exact'] = {'pb': sum(v['pb'] for v in ex.values() if not v['dup']), 'ob': sum(v['ob'] for v in ex.values())}
        res['reuse'] = any(v['dup'] for v in ex.values())
        big = res['exact']['ob'] >= 2 ** 24
        res['big'] = big
        pc0 = 0 in cfg['wp']
        icc = mc.input_component_consumers(desc)
        geo = _geometry(desc)
        # ---- oracle: the probing spec is shown the alive widths under the PyTorch names
        in_key = {}
        for mi_, ii, mod, node, name in layers:
            wm, ent = shown_by_instr[ii]
            kind = geo[ii]['kind']
            for e_ in ent:
                if e_[0] != ex[ii]['alive_in']:
                    in_key[ii] = (KEY_SPLIT if desc.get('split') else KEY_SIAM if (desc.get('siamese') and (desc['prog'][ii][0] == 'reuse' or any(
                        j[0] == 'reuse' and j[2] == ii for j in desc['prog']))) else
                                  KEY_INCOMP if ii in icc else (KEY_LINEAR if kind == 'lin' else 'C05:shown-in-features:%s' % kind))
                    res['fail'].append((in_key[ii], 'layer %s (%s) is shown %s input features under its PyTorch name, %d are alive'
                                        % (name, kind, e_[0], ex[ii]['alive_in'])))
                    break
            eff_out = sum(e_[4] * e_[1] for e_ in ent if e_[3] != 0 and e_[2] == ent[0][2])
            if ent and not _close(eff_out, ex[ii]['alive_out'], 1e-6):
                res['fail'].append((KEY_F14 if pc0 else 'C05:shown-out-features:%s' % kind,
                                    'layer %s: shares x shown output width give %s alive output features, %d are alive'
                                    % (name, eff_out, ex[ii]['alive_out'])))

        # are the sampled coefficients one-hot (per quantizer / per channel)? With exactly tied top
        # coefficients the selection of summary()/export() is the first maximum (torch.argmax)
        def _one_hot(t):
            t = t.detach()
            cols = t.unsqueeze(1) if t.dim() == 1 else t
            return all(sorted(cols[:, c].tolist()) == [0.0] * (cols.shape[0] - 1) + [1.0] for c in range(cols.shape[1]))
        not_hot = []
        for mi_, ii, mod, node, name in layers:
            for role in ('in', 'w', 'out'):
                if not _one_hot(getattr(mod, role + '_mps_quantizer').theta_alpha):
                    not_hot.append('%s.%s' % (name, role))
        res['not_one_hot'] = not_hot

        def cost_key(ii, spec):
            if not_hot:
                return KEY_TIE if cfg.get('ties') else 'C05:sampled-coefficients-not-one-hot:%s' % case['family']
            if ii in in_key:
                return in_key[ii]
            if desc.get('reuse_in') and any(b_[1] == ii for b_ in res.get('in_bits_mismatch', [])):
                return KEY_REUSE_IN
            if pc0 and ex[ii]['pruned']:
                return KEY_F14
            if spec == 'ne16_latency' and case.get('force'):
                return KEY_NE16_COUNT
            return 'C05:%s:%s:%s' % (spec, case['family'], geo[ii]['kind'])
        # ---- oracle: exact bit costs, layer by layer and in total
        # (shares that are not dyadic -- directed wide layers -- are not exact in float32: 1e-6 band there)
        neq = (lambda a_, b_: not _close(a_, b_, 1e-6)) if case.get('force') else (lambda a_, b_: a_ != b_)
        if not big:
            for mi_, ii, mod, node, name in layers:
                if neq(per_layer[ii]['params_bit'], ex[ii]['pb']):
                    res['fail'].append((cost_key(ii, 'params_bit'), 'params_bit of layer %s is %s but its assignment in summary() '
                                        'stores %d bits' % (name, per_layer[ii]['params_bit'], ex[ii]['pb'])))
                if neq(per_layer[ii]['ops_bit'], ex[ii]['ob']):
                    res['fail'].append((cost_key(ii, 'ops_bit'), 'ops_bit of layer %s is %s but its assignment in summary() '
                                        'performs %d bit-operations' % (name, per_layer[ii]['ops_bit'], ex[ii]['ob'])))
            if not res['fail'] and (neq(totals['params_bit'], res['exact']['pb']) or neq(totals['ops_bit'], res['exact']['ob'])):
                res['fail'].append((KEY_REUSE if res['reuse'] else 'C05:total:%s' % case['family'],
                                    'network cost (params_bit %s, ops_bit %s) but the assignment costs (%d, %d): params_bit once '
                                    'per layer, ops_bit summed over all layer invocations with the output size of each'
                                    % (totals['params_bit'], totals['ops_bit'], res['exact']['pb'], res['exact']['ob'])))
        if mpic_ok:
            for mi_, ii, mod, node, name in layers:
                if not _close(mp_real[mi_], ex[ii]['mpic']):
                    if ii not in in_key and ex[ii]['pruned'] and geo[ii]['kind'] == 'dw':
                        key = KEY_MPIC_DW
                    else:
                        key = cost_key(ii, 'mpic_latency')
                    res['fail'].append((key, 'mpic_latency of layer %s (%s) is %.4f, its assignment costs %.4f'
                                        % (name, geo[ii]['kind'], mp_real[mi_], ex[ii]['mpic'])))
        if mpic_ok and not res['fail']:
            tot_mp = sum(v['mpic'] for v in ex.values())
            if not _close(totals['mpic_latency'], tot_mp):
                res['fail'].append((KEY_REUSE if res['reuse'] else 'C05:total:mpic_latency:%s' % case['family'],
                                    'network mpic_latency %.4f but the layer invocations of the assignment sum to %.4f'
                                    % (totals['mpic_latency'], tot_mp)))
        if ne16:
            for mi_, ii, mod, node, name in layers:
                if not _close(ne_real[ii], ex[ii]['ne16']):
                    res['fail'].append((cost_key(ii, 'ne16_latency'), 'ne16_latency of layer %s is %.3f, the sub-layers of its '
                                        'assignment cost %.3f' % (name, ne_real[ii], ex[ii]['ne16'])))
        if ne16 and not res['fail']:
            tot_ne = sum(v['ne16'] for v in ex.values())
            if not _close(totals['ne16_latency'], tot_ne):
                res['fail'].append((KEY_REUSE if res['reuse'] else 'C05:total:ne16_latency:%s' % case['family'],
                                    'network ne16_latency %.3f but the layer invocations of the assignment sum to %.3f'
                                    % (totals['ne16_latency'], tot_ne)))
        # ---- oracle (per-layer search): numel x bits of the exported layers
        if not cfg['pc'] and case['mode'] == 'eval' and not big:
            e = m.export()
            pbx = obx = 0
            for mi_, ii, mod, node, name in layers:
                l = e.get_submodule(name)
                if not ex[ii]['dup']:
                    pbx += l.weight.numel() * int(l.w_quantizer.precision)
                obx += l.weight.numel() * int(l.w_quantizer.precision) * int(l.in_quantizer.precision) * _geometry(desc)[ii]['pos']
            if totals['params_bit'] != pbx or totals['ops_bit'] != obx:
                res['fail'].append((KEY_REUSE if res['reuse'] else 'C05:exported-numel:%s' % case['family'],
                                    'cost (%s, %s) but the exported layers hold %d weight bits / %d bit-ops'
                                    % (totals['params_bit'], totals['ops_bit'], pbx, obx)))
        if res.get('not_one_hot'):
            # one root cause: name it once (the sampled coefficients are not the one-hot of the selection)
            tk = KEY_TIE if cfg.get('ties') else 'C05:sampled-coefficients-not-one-hot:%s' % case['family']
            res['fail'] = [(tk, '%s [sampled coefficients not one-hot: %s]' % (msg, ','.join(res['not_one_hot'][:4])))
                           for _, msg in res['fail']]
    except Exception as ex_:
        import traceback
        res['fail'].append(('C05:exception:%s' % case['family'], '%s: %s' % (type(ex_).__name__, str(ex_)[:200])))
        res['tb'] = traceback.format_exc().splitlines()[-6:]
    return res


def _gen_cases(rng, n):
    cases = []
    fams = ['pl', 'pl', 'pc', 'pc0', 'pc0']
    for k in range(n):
        fam = fams[k % len(fams)]
        ne16 = (k % 4 == 3)
        dim = 1 if (k % 9 == 5 and not ne16) else 2
        # every 10th net: a depthwise conv directly on the network input, or a conv summed with the network
        # input (residual add whose other operand cannot be pruned), per-channel search with the 0-bit
        # option and half of the channels pruned (class of the open finding KEY_INCOMP)
        probe_in = (k % 10 == 8)
        if probe_in:
            fam, dim = 'pc0', 2
        reuse = (k % 6 == 1) and not probe_in
        if reuse and (k // 6) % 4 == 3:
            ne16 = False     # network input and activations at different bit-widths there (ne16 wants 8 / 8)
        if reuse and (k // 6) % 4 == 2:
            fam = 'pc0'      # results feeding different sums: per-channel search with pruned channels
        if reuse:
            # one conv module invoked at two resolutions (non-shared metrics are per call site)
            dim = 2
            # ... alternately on tensors of one producer / of two different producers (siamese branches)
            # ... or with its two results feeding different sums (the call sites must share one component)
            # ... or with one call site on the network input and one on an inner tensor
            gen_r = (mc.gen_reuse_desc, mc.gen_siamese_desc, mc.gen_split_reuse_desc, mc.gen_reuse_input_desc)[(k // 6) % 4]
            desc = gen_r(rng, couts=(2, 3, 4) if fam == 'pl' else (2, 4, 8))
        else:
            desc = mc.gen_desc(rng, couts=(2, 3, 4) if fam == 'pl' else (2, 4, 8), dim=dim,
                               first=('addin' if k % 20 == 18 else 'dw') if probe_in else ('dw' if (k % 11 == 4 and dim == 2) else None),
                               dw_k=(3,) if ne16 else (1, 3))
        cfg = mc.make_cfg(rng, pc=fam != 'pl', zero=fam == 'pc0', ne16=ne16)
        if probe_in or desc.get('split'):
            cfg['prune_p'] = 0.5
        if desc.get('reuse_in') and not ne16:
            # network input and inner activations at different bit-widths, whatever the coefficients
            cfg['ip'], cfg['ap'] = [rng.choice([4, 8])], [2]
        if k % 3 == 2 and not probe_in:
            cfg['ties'] = 1      # tie stream: exactly equal top coefficients (selection = first maximum)
        case = {'kind': 'cost', 'family': fam, 'desc': desc, 'cfg': cfg, 'mode': 'hard' if rng.random() < 0.3 else 'eval'}
        case['ne16'] = int(ne16 and _ne16_ok(desc, cfg))
        cases.append(case)
    return cases + _wide_cases(rng)


def _wide_cases(rng):
    """Directed: one wide layer in per-channel search whose split is not dyadic and puts a multiple of the
    NE16 output tile (32) at one precision -- 96 of 168 conv channels, 96 of 151 linear features: the
    share n/C times C is 96.000008 in float32."""
    out = []
    conv = {'C0': 4, 'T': 4, 'dim': 2, 'wseed': 11, 'prog': [['input'], ['conv', 0, 168, 1, 1, 1], ['relu', 1], ['pool', 2, 'max'],
                                                               ['flat', 3], ['lin', 4, 4, 1]]}
    lin = {'C0': 2, 'T': 4, 'dim': 2, 'wseed': 12, 'prog': [['input'], ['conv', 0, 2, 1, 1, 1], ['relu', 1], ['flat', 2],
                                                              ['lin', 3, 151, 1], ['relu', 4], ['lin', 5, 4, 1]]}
    for desc, instr in ((conv, 1), (lin, 4)):
        cfg = mc.make_cfg(rng, pc=True, zero=False, ne16=True)
        cfg['wp'] = [4, 8]
        out.append({'kind': 'cost', 'family': 'pc', 'desc': desc, 'cfg': cfg, 'mode': 'eval', 'ne16': 1,
                    'force': {'instr': instr, 'n': 96, 'row': 1}})
    return out


# ------------------------------------------------------------------------------------------
# (d) pruning a producer lowers the cost of its consumers
# ------------------------------------------------------------------------------------------

def _prune_families():
    """(name, desc, producer instruction, consumer instruction)"""
    fams = []
    fams.append(('conv->conv', {'C0': 3, 'T': 6, 'dim': 2, 'wseed': 1, 'prog': [
        ['input'], ['conv', 0, 4, 3, 1, 1], ['relu', 1], ['conv', 2, 4, 3, 1, 1], ['relu', 3], ['flat', 4], ['lin', 5, 2, 1]]}, 1, 3))
    fams.append(('conv->pool->flatten->linear', {'C0': 3, 'T': 6, 'dim': 2, 'wseed': 2, 'prog': [
        ['input'], ['conv', 0, 4, 3, 1, 1], ['relu', 1], ['pool', 2, 'max'], ['flat', 3], ['lin', 4, 4, 1], ['relu', 5], ['lin', 6, 2, 1]]}, 1, 5))
    fams.append(('linear->linear', {'C0': 3, 'T': 6, 'dim': 2, 'wseed': 3, 'prog': [
        ['input'], ['conv', 0, 2, 3, 2, 1], ['relu', 1], ['flat', 2], ['lin', 3, 8, 1], ['relu', 4], ['lin', 5, 4, 1], ['relu', 6],
        ['lin', 7, 2, 1]]}, 4, 6))
    fams.append(('conv->bn->dw->conv', {'C0': 2, 'T': 6, 'dim': 2, 'wseed': 4, 'prog': [
        ['input'], ['conv', 0, 4, 3, 1, 0], ['bn', 1], ['relu', 2], ['dw', 3, 3, 1, 1], ['relu', 4], ['conv', 5, 4, 1, 1, 1], ['relu', 6],
        ['flat', 7], ['lin', 8, 2, 1]]}, 1, 6))
    fams.append(('conv1d->conv1d', {'C0': 2, 'T': 8, 'dim': 1, 'wseed': 5, 'prog': [
        ['input'], ['conv', 0, 4, 3, 1, 1], ['relu', 1], ['conv', 2, 4, 3, 1, 1], ['relu', 3], ['flat', 4], ['lin', 5, 2, 1]]}, 1, 3))
    fams.append(('conv1d->flatten->linear', {'C0': 2, 'T': 8, 'dim': 1, 'wseed': 6, 'prog': [
        ['input'], ['conv', 0, 4, 3, 2, 1], ['relu', 1], ['flat', 2], ['lin', 3, 4, 1], ['relu', 4], ['lin', 5, 2, 1]]}, 1, 4))
    return fams


def _run_prune(case):
    """Prune 0..C-1 channels of the producer; the consumer's cost (params_bit, ops_bit, probe) per step."""
    import torch
    import warnings
    warnings.filterwarnings('ignore')
    torch.set_num_threads(1)
    from plinio.cost import params_bit, ops_bit
    from plinio.graph.inspection import shapes_dict
    desc, cfg, prod, cons = case['desc'], case['cfg'], case['producer'], case['consumer']
    res = {'fail': [], 'steps': []}
    try:
        rec = []
        cost = {'params_bit': params_bit, 'ops_bit': ops_bit}
        cost.update(_mk_probes(rec))
        m, shape = mc.make_mps(desc, cfg, cost)
        x = mc.rand_input(cfg, shape, batch=2)
        pl = m.seed.get_submodule('n%d' % prod)
        cl = m.seed.get_submodule('n%d' % cons)
        cnode = [n for n in m.seed.graph.nodes if n.op == 'call_module' and str(n.target) == 'n%d' % cons][0]
        zi = pl.w_mps_quantizer.zero_index
        C = pl.w_mps_quantizer.alpha.shape[1]
        order = list(range(C))
        random.Random(cfg['aseed']).shuffle(order)
        prev = None
        for k in range(C):
            with torch.no_grad():
                a = pl.w_mps_quantizer.alpha
                for c in range(C):
                    col = a[:, c].clone()
                    mx = int(torch.argmax(col))
                    want = c in order[:k]
                    if want != (mx == zi):
                        other = mx if want else int(torch.argmax(torch.cat([col[:zi], torch.tensor([-1.0]), col[zi + 1:]])))
                        col[zi], col[other] = col[other].clone(), col[zi].clone()
                        a[:, c] = col
            m.eval()
            with torch.no_grad():
                m(x)
            del rec[:]
            tot = {k2: float(m.get_cost(k2)) for k2 in cost}
            typ = type(cl).__mro__[1]
            sd = shapes_dict(cnode)
            per = {k2: float(torch.sum(cl.get_cost(cost[k2][(typ, vars(cl))], sd))) for k2 in ('params_bit', 'ops_bit', 'probe_in')}
            summ = m.summary()
            wbits, inbits = {}, {}
            for i, ins in enumerate(desc['prog']):
                if ins[0] in ('conv', 'dw', 'lin'):
                    s = summ['n%d' % i]
                    wbits[i] = list(s['w_precision']) if isinstance(s['w_precision'], list) else [s['w_precision']]
                    inbits[i] = s['in_precision']
            ex = _exact_costs(desc, wbits, inbits)
            step = {'pruned': k, 'consumer': per, 'exact': {'pb': ex[cons]['pb'], 'ob': ex[cons]['ob']},
                    'alive_in': ex[cons]['alive_in'], 'total': {k2: tot[k2] for k2 in ('params_bit', 'ops_bit')},
                    'exact_total': {'pb': sum(v['pb'] for v in ex.values()), 'ob': sum(v['ob'] for v in ex.values())}}
            res['steps'].append(step)
            kind = _geometry(desc)[cons]['kind']
            bad_in = per['probe_in'] != ex[cons]['alive_in']
            in_key = KEY_LINEAR if kind == 'lin' else 'C05:shown-in-features:%s' % kind
            if bad_in:
                res['fail'].append((in_key, '%s: consumer is shown %s input features with %d channels of the producer pruned '
                                    '(alive %d)' % (case['name'], per['probe_in'], k, ex[cons]['alive_in'])))
            bad_cons = per['params_bit'] != ex[cons]['pb'] or per['ops_bit'] != ex[cons]['ob']
            if bad_cons:
                res['fail'].append((in_key if bad_in else 'C05:consumer-cost:%s' % kind,
                                    '%s: consumer cost (%s, %s) with %d producer channels pruned, exact (%d, %d)'
                                    % (case['name'], per['params_bit'], per['ops_bit'], k, ex[cons]['pb'], ex[cons]['ob'])))
            if not bad_in and not bad_cons and (tot['params_bit'] != step['exact_total']['pb'] or tot['ops_bit'] != step['exact_total']['ob']):
                res['fail'].append((KEY_F14 if k > 0 else 'C05:total:prune',
                                    '%s: network cost (%s, %s) with %d producer channels pruned, exact (%d, %d)'
                                    % (case['name'], tot['params_bit'], tot['ops_bit'], k, step['exact_total']['pb'],
                                       step['exact_total']['ob'])))
            if prev is not None and not (per['params_bit'] < prev['params_bit'] and per['ops_bit'] < prev['ops_bit']):
                res['fail'].append((in_key if bad_in else 'C05:pruning-does-not-lower-consumer:%s' % kind,
                                    '%s: pruning channel %d of the producer leaves the consumer cost at (%s, %s) (was (%s, %s))'
                                    % (case['name'], k, per['params_bit'], per['ops_bit'], prev['params_bit'], prev['ops_bit'])))
            prev = per
    except Exception as ex_:
        import traceback
        res['fail'].append(('C05:exception:prune', '%s: %s' % (type(ex_).__name__, str(ex_)[:200])))
        res['tb'] = traceback.format_exc().splitlines()[-6:]
    return res


def _prune_cases(rng):
    cases = []
    for name, desc, prod, cons in _prune_families():
        for rep in range(2):
            cfg = mc.make_cfg(rng, pc=True, zero=True)
            cfg['prune_p'] = 0.0
            cfg['ap'] = [rng.choice([2, 4, 8])] if rep else cfg['ap']
            cases.append({'kind': 'prune', 'name': name, 'desc': desc, 'cfg': cfg, 'producer': prod, 'consumer': cons})
    return cases


# ------------------------------------------------------------------------------------------
# (e) residual sum with the output of a layer excluded from the search (oracle only: the Lean model has
#     no excluded layers -- exclusions are C09's grammar; probed here because the cost is C05's)
# ------------------------------------------------------------------------------------------

def _run_excluded(case):
    """a(y) + b(y) with b excluded by name (all its channels stay alive), per-channel search with the
    0-bit option, half of a's channels pruned: the consumer of the sum must be shown / charged for the
    full width."""
    import torch
    import warnings
    warnings.filterwarnings('ignore')
    torch.set_num_threads(1)
    from plinio.methods.mps import MPS, MPSType
    from plinio.cost import params_bit, ops_bit
    desc, cfg = case['desc'], case['cfg']
    res = {'fail': []}
    try:
        rec = []
        cost = {'params_bit': params_bit, 'ops_bit': ops_bit}
        cost.update(_mk_probes(rec))
        net, shape = mc.build_net(desc)
        m = MPS(net, input_shape=shape, cost=cost, qinfo=mc.qinfo_of(cfg), w_search_type=MPSType.PER_CHANNEL,
                temperature=cfg['T'], exclude_names=('n%d' % case['excluded'],))
        with torch.no_grad():
            for _, p_ in m.named_nas_parameters():
                if p_.dim() == 2:
                    p_.zero_()
                    p_[p_.shape[0] - 1, :] = 1.0        # every channel: the non-zero precision (last row of (0, 8))
            qa = m.seed.get_submodule('n%d' % case['pruned']).w_mps_quantizer
            if qa.zero_index is not None:               # the repair may take the 0-bit option away
                n_pr = qa.alpha.shape[1] // 2
                qa.alpha[:, :n_pr] = 0.0
                qa.alpha[qa.zero_index, :n_pr] = 1.0
        m.eval()
        with torch.no_grad():
            m(mc.rand_input(cfg, shape, batch=2))
        cons = m.seed.get_submodule('n%d' % case['consumer'])
        full = int(cons.in_channels)
        shown = float(cons.input_features_calculator.features)
        summ = m.summary()
        # alive channels of the tensor the consumer reads: all of them when a dense (excluded) tensor is
        # part of it; the channels a searchable depthwise producer kept otherwise
        if case.get('alive_of') is not None:
            alive = sum(1 for b_ in summ['n%d' % case['alive_of']]['w_precision'] if b_ != 0)
        else:
            alive = full
        res['shown'], res['full'], res['alive'] = shown, full, alive
        pb = float(m.get_cost('params_bit'))
        anything_pruned = any(0 in v['w_precision'] for v in summ.values() if isinstance(v.get('w_precision'), list))
        exact = 0
        for i, ins in enumerate(desc['prog']):
            if ins[0] in ('conv', 'dw', 'lin') and i != case['excluded']:
                wb = summ['n%d' % i]['w_precision']
                g = _geometry(desc)[i]
                exact += sum(wb) * g['k'] * (1 if ins[0] == 'dw' else g['cin'])
        if shown != alive:
            res['fail'].append((case.get('key', KEY_EXCL), '%s: layer n%d is shown %s input features, %d are alive (the excluded '
                                'layer n%d keeps all its channels)' % (case['what'], case['consumer'], shown, alive, case['excluded'])))
        elif not anything_pruned and pb != exact:
            res['fail'].append(('C05:params_bit:excluded-layer', 'params_bit %s, exact %s' % (pb, exact)))
    except Exception as ex_:
        import traceback
        res['fail'].append(('C05:exception:excluded-operand', '%s: %s' % (type(ex_).__name__, str(ex_)[:200])))
        res['tb'] = traceback.format_exc().splitlines()[-6:]
    return res


def _excluded_cases(rng):
    out = []

    def cfg_():
        c = mc.make_cfg(rng, pc=True, zero=True)
        c['wp'] = [0, 8]
        return c
    # a(y) + b(y), b excluded
    for first in (0, 1):
        prog = [['input'], ['conv', 0, 4, 3, 1, 1], ['relu', 1], ['conv', 2, 4, 3, 1, 1], ['conv', 2, 4, 1, 1, 1]]
        prog.append(['add', 3, 4] if first else ['add', 4, 3])
        prog += [['relu', 5], ['conv', 6, 4, 1, 1, 1], ['relu', 7], ['flat', 8], ['lin', 9, 2, 1]]
        out.append({'kind': 'excluded', 'desc': {'C0': 3, 'T': 4, 'dim': 2, 'wseed': 21 + first, 'prog': prog}, 'cfg': cfg_(),
                    'pruned': 3, 'excluded': 4, 'consumer': 7, 'key': KEY_EXCL,
                    'what': 'consumer of a sum with the output of an excluded layer'})
    # searchable depthwise conv on the output of an excluded layer
    prog = [['input'], ['conv', 0, 8, 3, 1, 1], ['relu', 1], ['dw', 2, 3, 1, 1], ['relu', 3], ['conv', 4, 4, 1, 1, 1], ['relu', 5],
            ['flat', 6], ['lin', 7, 2, 1]]
    out.append({'kind': 'excluded', 'desc': {'C0': 3, 'T': 4, 'dim': 2, 'wseed': 23, 'prog': prog}, 'cfg': cfg_(),
                'pruned': 3, 'excluded': 1, 'consumer': 5, 'alive_of': 3, 'key': KEY_EXCL_DW,
                'what': 'consumer of a searchable depthwise conv fed by an excluded layer'})
    # a layer invoked on the output of an excluded layer and then on its own output
    prog = [['input'], ['conv', 0, 4, 3, 1, 1], ['conv', 1, 4, 3, 1, 1], ['relu', 2], ['reuse', 3, 2], ['relu', 4], ['flat', 5],
            ['lin', 6, 2, 1]]
    out.append({'kind': 'excluded', 'desc': {'C0': 3, 'T': 4, 'dim': 2, 'wseed': 24, 'prog': prog}, 'cfg': cfg_(),
                'pruned': 2, 'excluded': 1, 'consumer': 2, 'key': KEY_EXCL_REUSE,
                'what': 'layer invoked on the output of an excluded layer and on its own output'})
    return out


# ------------------------------------------------------------------------------------------

def _judge(chk, case, res):
    seen = set()
    for key, msg in res['fail']:
        if key in seen:
            continue
        seen.add(key)
        chk.violation(key, msg, case)


def run(chk):
    chk.rule = ('(a) spec-key table extracted from the source of every class in mps_layer_map; (b) bit-cost functions on '
                'random integer grids (layer type x depthwise x sizes x precisions); (c) random nets of the C02 grammar '
                '(every 9th a Conv1d net, every 6th a net in which one conv module is invoked twice: at two resolutions on tensors of '
                'one producer, on the outputs of two different producers (siamese branches), or with its two results feeding different '
                'sums) x {per-layer any tuples, per-channel, per-channel with 0-bit and pruned channels} '
                'x eval mode / training with hard sampling; every 3rd net draws its coefficients from the tie stream (top-2 / top-3 / '
                'all-equal / 0-bit-vs-maximum exact ties; reference: first maximum),  widths powers of two in per-channel search so that shares '
                'are dyadic and every float32 cost below 2^24 is an exact integer; ne16 on nets it applies to (8-bit '
                'activations, 1x1/3x3, depthwise 3x3); (d) producer pruned channel by channel in 6 producer->consumer '
                'families. non-trivial = a quantizer with >= 2 candidates or a pruned channel; distinct = distinct '
                '(program, tuples, coefficients, mode)')
    chk.trusted.append('float32 evaluation of integer-valued costs below 2^24 is exact; mpic/ne16 compared in a 1e-5 band')
    chk.trusted.append('ne16_latency is opaque to the model: the model predicts which specs it is shown with which '
                       'weights, the harness evaluates the real function on them')
    chk.assumptions.append('hard sampling with Gumbel noise in training mode draws the one-hot at random: the cost is then '
                           'that of the sampled assignment, not of summary(); generated modes are eval (Gumbel on/off) '
                           'and training with hard soft-max sampling')
    chk.prove()
    rng = chk.rng
    # ---------------- (a) keys
    mod_t, torch_t, outk = extract_key_tables()
    grid = _costfn_grid(rng, 150 if chk.quick else 1500)
    n = 70 if chk.quick else 1200
    cases = _gen_cases(rng, n)
    prunes = _prune_cases(rng)
    results = common.pmap(_run_case, cases)
    presults = common.pmap(_run_prune, prunes)
    excl = _excluded_cases(rng)
    eresults = common.pmap(_run_excluded, excl)
    lines = ['keys'] + [_costfn_line(g) for g in grid]
    idx = []
    for k, r in enumerate(results):
        if r.get('line'):
            lines.append(r['line'])
            idx.append(k)
    model = chk.driver('C05', lines)
    keys_ans = mc.parse_answer(model[0])
    chk.corr({'table': 'get_modified_vars keys'}, _show_keys(mod_t), keys_ans.get('mod'),
             'keys overwritten by get_modified_vars (extracted from source) vs the table of spec_keys_follow_torch_names')
    chk.corr({'table': 'torch attribute names'}, _show_keys(torch_t), keys_ans.get('torch'),
             'constructor attribute names of nn.Conv1d/Conv2d/Linear vs the model table')
    chk.corr({'table': 'own output width'}, json.dumps(outk, sort_keys=True),
             json.dumps({'conv1d': 'static', 'conv2d': 'static', 'linear': 'static'}, sort_keys=True),
             'get_modified_vars writes the static output width (5b23653)')
    chk.extra['spec_keys_extracted'] = {'get_modified_vars': mod_t, 'torch': torch_t, 'own_output_width': outk}
    for lt in mod_t:
        chk.count(('keys', lt), bucket='key-table')
    # ---------------- (b) cost functions
    for g, a in zip(grid, model[1:1 + len(grid)]):
        real = _costfn_real(g)
        if g['name'] == 'mpic_latency':
            p, _, q = a.partition('/')
            mval = int(p) / int(q or 1)
            chk.corr(g, _close(real, mval, 1e-9), True, 'mpic_latency function vs model (1e-9 band): %s vs %s' % (real, a))
        else:
            chk.corr(g, mc.rat(mc.frac_of(real)), a, 'bit-cost function vs model')
        chk.count(('costfn', json.dumps(g, sort_keys=True)), bucket='costfn:' + g['name'])
    # ---------------- (c) nets
    answers = {k: mc.parse_answer(a) for k, a in zip(idx, model[1 + len(grid):])}
    for k, (case, r) in enumerate(zip(cases, results)):
        cfg = case['cfg']
        cid = json.dumps([case['desc']['prog'], cfg['wp'], cfg['ap'], cfg['ip'], cfg['aseed'], case['mode'], case['family']])
        nontriv = max(len(cfg['wp']), len(cfg['ap']), len(cfg['ip'])) > 1 or r.get('pruned_layers', 0) > 0
        chk.count(cid, nontrivial=nontriv, bucket='family:%s' % case['family'],
                  sample={'prog': case['desc']['prog'], 'family': case['family'], 'wp': cfg['wp'], 'ap': cfg['ap'],
                          'mode': case['mode'], 'cost': r.get('cost')})
        for hk in ('mode:' + case['mode'], 'dim:%d' % case['desc']['dim'], 'ne16:%d' % case['ne16'],
                   'pruned_layers>0:%d' % int(r.get('pruned_layers', 0) > 0), 'layer-reuse:%d' % int(bool(r.get('reuse'))), 'siamese:%d' % int(bool(case['desc'].get('siamese'))), 'split-reuse:%d' % int(bool(case['desc'].get('split'))), 'reuse-on-input:%d' % int(bool(case['desc'].get('reuse_in'))),
                   'ties:%d' % int(bool(cfg.get('ties')))):
            chk.hist[hk] = chk.hist.get(hk, 0) + 1
        if r.get('big'):
            chk.hist['skipped:cost>=2^24'] = chk.hist.get('skipped:cost>=2^24', 0) + 1
        _judge(chk, case, r)
        if k not in answers:
            if r.get('line') is None and not r['fail']:
                chk.corr(case, 'slots differ', 'slots', 'searchable modules of the converted graph')
            continue
        a = answers[k]
        chk.corr(case, r.get('feat'), a.get('feat'), 'effective input features / alive output features per layer')
        chk.corr(case, r.get('shown'), _sort_shown(a.get('shown')),
                 'what the probing CostSpec is shown, entry by entry (as a multiset per layer), with the entry weights')
        if not r.get('big') and not case.get('force'):      # non-dyadic shares are not exact in float32
            chk.corr(case, r.get('lc'), a.get('lc'), 'per-layer params_bit / ops_bit')
            chk.corr(case, r.get('cost'), a.get('cost'), 'network params_bit / ops_bit')
        if r.get('mpic_total') is not None and a.get('mpic', 'na') != 'na':
            p, _, q = a['mpic'].partition('/')
            chk.corr(case, _close(r['mpic_total'], int(p) / int(q or 1)), True,
                     'network mpic_latency vs model (1e-5 band): %s vs %s' % (r['mpic_total'], a['mpic']))
        if case['ne16'] and r.get('ne16_total') is not None and 'shown' in a:
            pred = _ne16_from_shown(a['shown'], r['geo'], case['desc'])
            chk.corr(case, _close(r['ne16_total'], pred), True,
                     'network ne16_latency vs the real function on the specs the model predicts: %s vs %s' % (r['ne16_total'], pred))
    # ---------------- (d) pruning
    for case, r in zip(prunes, presults):
        chk.count(('prune', case['name'], json.dumps(case['cfg'], sort_keys=True)), bucket='prune:' + case['name'],
                  sample={'family': case['name'], 'steps': r['steps'][:3]})
        _judge(chk, case, r)
    # ---------------- (e) excluded operand
    for case, r in zip(excl, eresults):
        chk.count(('excluded', json.dumps(case['desc']['prog'])), bucket='excluded-operand',
                  sample={'family': 'excluded-operand', 'shown': r.get('shown'), 'full': r.get('full')})
        _judge(chk, case, r)
    broken = bool(chk.proof_broken or chk.corr_disagreements)
    if broken and not chk.violations:
        extra = _gen_cases(random.Random(chk.seed + 104729), n * 4)
        for case, r in zip(extra, common.pmap(_run_case, extra)):
            chk.count(json.dumps([case['desc']['prog'], case['cfg']['aseed'], case['family']]), bucket='escalated')
            _judge(chk, case, r)


def _sort_shown(shown):
    """the model lists the entries of a layer rows-first; the order in which the implementation visits
    them is not part of the property: compare as a multiset"""
    import re
    if shown is None:
        return None
    out = []
    for m_ in re.finditer(r'(\d+):\[((?:\[[^\]]*\],?)*)\]', shown):
        rows = re.findall(r'\[[^\]]*\]', m_.group(2))
        out.append('%s:%s' % (m_.group(1), mc.lst(sorted(rows))))
    return mc.lst(out)


def _ne16_from_shown(shown, geo, desc):
    """evaluate the real ne16 cost functions on the entries the model predicts"""
    import re
    toks, mi, slots = mc.model_nodes(desc)
    by_mi = {m_: ii for tag, m_, ii in slots if tag == 'L'}
    total = 0.0
    for m_ in re.finditer(r'(\d+):\[((?:\[[^\]]*\],?)*)\]', shown):
        ii = by_mi[int(m_.group(1))]
        g = geo[ii] if ii in geo else geo[str(ii)]
        for ent in re.findall(r'\[([^\]]*)\]', m_.group(2)):
            w, cin, cout, pin, pw, tw = [Fraction(v) for v in ent.split(',')]
            if w == 0 or pw == 0 or tw == 0:
                continue
            total += float(w) * float(_ne16_entry(g, float(cin), float(cout), float(pw), float(tw)))
    return total


def _ne16_entry(g, cin, cout, pw, tw):
    import torch
    import torch.nn as nn
    from plinio.cost import ne16_latency
    t = lambda v: torch.tensor(float(v))
    if g['kind'] == 'lin':
        fn = ne16_latency[(nn.Linear, {})]
        spec = {'in_features': t(cin), 'out_features': cout}
    else:
        dw = g['kind'] == 'dw'
        fn = ne16_latency[(nn.Conv2d, {'in_channels': g['cin'], 'out_channels': g['cout'], 'groups': g['cout'] if dw else 1})]
        spec = {'in_channels': t(cin), 'out_channels': cout, 'kernel_size': (g['ks'], g['ks']),
                'output_shape': (1, int(cout), g['o'], g['o'])}
    spec.update({'w_precision': t(pw), 'in_precision': t(8), 'w_theta_alpha': t(tw)})
    return fn(spec)


def replay(data):
    common.use_repo_on_path()
    case = data['case']
    r = _run_prune(case) if case.get('kind') == 'prune' else (_run_excluded(case) if case.get('kind') == 'excluded' else _run_case(case))
    print('program:', case['desc']['prog'])
    print('cfg:', case['cfg'], 'family:', case.get('family', case.get('name')), 'mode:', case.get('mode'))
    if case.get('kind') == 'prune':
        for s in r['steps']:
            print(' pruned=%d alive_in=%d consumer=%s exact=%s' % (s['pruned'], s['alive_in'], s['consumer'], s['exact']))
    else:
        print('cost:', r.get('cost'), 'exact:', r.get('exact'), 'mpic:', r.get('mpic_total'))
    for key, msg in r['fail']:
        print('FAIL [%s] %s' % (key, msg))
    if r.get('tb'):
        print('\n'.join(r['tb']))
    if not r['fail']:
        print('property holds on this case')
    return 1 if r['fail'] else 0
