"""C01 — PIT export computes the same function as the searched (masked) network.

proof leg            lean/PlinioVerif/Props/C01.lean (time mask: shape of every reachable mask,
                     kernel_size_opt / dilation_opt / kept taps closed forms, masked conv = exported
                     conv for all K, d0, beta, gamma) and Props/C01Net.lean (network level).
correspondence leg   (a) every reachable binarised (beta, gamma) shape for K 1..9 (thorough 1..12) x
                         initial dilation 1..3: real PITConv1d theta/time_mask/kernel_size_opt/
                         dilation_opt = Drivers/PITTime.lean (exact rationals), canonical + random
                         parameter vectors per shape; the same shapes through the real PIT import/
                         export of a one-layer causal network: ID-probed kept taps, kernel, dilation
                         and re-created padding = model;
                     (b) grammar nets: ID-probed export plan (kept out/in features, groups, taps,
                         dilation, padding of every layer) = Drivers/PITNet.lean / PITTime.lean.
                     (c) channel-level integer nets (kernel 1, spatial size 1, any topology of the grammar,
                         exclusions, standalone BatchNorm after excluded layers, fold on/off): the
                         *semantic* model `pitStep`/`expStep` of NetSem.lean executed at V = Int by
                         Drivers/PITSem.lean = real PIT.eval()(x) and export().eval()(x), exactly.
oracle leg           `PIT.eval()(x)` vs `export().eval()(x)` (re-created BatchNorms given the
                     statistics of the ones they replace) on (a) and (b), float tolerance 2e-4*scale.
"""
import json
from fractions import Fraction

from .. import common, pitcheck, pitsem, pittime


def _time_cases(chk, kmax):
    rng = chk.rng
    cases = []
    for K in range(1, kmax + 1):
        L = pittime.gamma_len(K)
        for d0 in (1, 2, 3):
            for a in range(K):
                for t in range(L):
                    cases.append((K, d0, a, t, True))
                    if d0 == 1 or rng.random() < .5:
                        cases.append((K, d0, a, t, False))
    return cases


def _oracle_net(chk, r, a, head):
    cid = pitcheck.case_id(r, a)
    unsup = pitcheck.unsupported_key(head, r) if (head.get('sup') == '0' or (head.get('sup') is None and r['spec']['opts'].get('unsupported'))) else None
    if unsup == 'add-with-concat-operand':
        key = 'C01:add-with-concat-operand'
    elif unsup:
        key = 'C01:unsupported:' + unsup
    else:
        key = None
    if (a.get('reimport_error') or a.get('reimport_diff')) and not key:
        chk.violation('C01:reimported-export:' + ('raises' if a.get('reimport_error') else 'eval-vs-export'),
                      'the exported network imported into PIT again, pruned and exported: %s'
                      % (a.get('reimport_error') or a.get('reimport_diff')), dict(cid, kind='net'))
    if a.get('export_error'):
        chk.violation(key or ('C01:export-raises' + (':fold_bn' if r['spec']['fold_bn'] else '')),
                      'export()/exported forward raises: ' + a['export_error'], dict(cid, kind='net'))
    elif a.get('export_diff'):
        cls = ('1d' if r['spec']['dim'] == 1 else '2d') + (':fold_bn' if r['spec']['fold_bn'] else '')
        chk.violation(key or 'C01:eval-vs-export:' + cls,
                      'exported network differs from the PIT model in eval mode: ' + a['export_diff'], dict(cid, kind='net'))


def run(chk):
    chk.rule = ('(a) exhaustive: every reachable binarised time-mask shape (a,t) for K 1..9 (thorough: 1..12) x d0 1..3, '
                'one canonical binary and random dyadic parameter vectors per shape, on a real PITConv1d and through the '
                'real import/export of a one-layer causal net; (b) random grammar nets x mask assignments. '
                'non-trivial = the mask prunes at least one tap/feature; distinct = distinct (K,d0,beta,gamma) or (program,masks)')
    chk.trusted.append('torch conv/linear/BatchNorm kernels and torch.fx graph surgery (exercised by the eval-vs-export oracle)')
    chk.assumptions.append("causally (left-)padded Conv1d; 'same'/unpadded time pruning is outside the statement")
    chk.prove()
    chk.prove('PlinioVerif.Props.C01Net')
    kmax = 9 if chk.quick else 12
    cases = _time_cases(chk, kmax)
    # ---- (a) layer level, direct objects
    lines, reals, meta = [], [], []
    for (K, d0, a, t, canonical) in cases:
        beta, gamma = pittime.shape_vectors(K, a, t, chk.rng, canonical)
        layer = pittime.real_time(K, d0, beta, gamma)
        lines.append(pittime.line(K, d0, beta, gamma))
        reals.append(pittime.real_answer(layer, d0))
        meta.append((K, d0, a, t, beta, gamma))
    # random real-valued vectors (fractional parameters whose *cumulative* sums cross the threshold,
    # as a real search leaves them behind); sums of palette values are exact in float32
    n_rand = 600 if chk.quick else 12000
    rand_jobs = []
    for i in range(n_rand):
        K = chk.rng.randint(2, kmax)
        d0 = chk.rng.choice([1, 2, 3])
        pal = chk.rng.choice([pittime.PAL_DYADIC, pittime.PAL_THRESH, [0, 1 / 8, 1 / 4, 3 / 8, 1 / 4, 1 / 8]])
        beta = [float(chk.rng.choice(pal)) for _ in range(K)]
        gamma = [float(chk.rng.choice(pal)) for _ in range(pittime.gamma_len(K))]
        layer = pittime.real_time(K, d0, beta, gamma)
        lines.append(pittime.line(K, d0, beta, gamma))
        reals.append(pittime.real_answer(layer, d0))
        meta.append((K, d0, -1, -1, beta, gamma))
        if i % 12 == 0:
            rand_jobs.append((K, d0, beta, gamma, chk.rng.randint(0, 1 << 30)))
    answers = chk.driver('PITTime', lines)
    for (K, d0, a, t, beta, gamma), real, ans in zip(meta, reals, answers):
        mod, toks = pittime.model_answer(ans)
        case = {'K': K, 'd0': d0, 'a': a, 't': t, 'beta': beta, 'gamma': gamma}
        chk.corr(case, real, mod, 'PITConv1d theta/time_mask/kernel_size_opt/dilation_opt')
        chk.count(('time', K, d0, tuple(beta), tuple(gamma)), nontrivial=(a != 0 or t != 0), bucket=('time:K=%d' % K) if a >= 0 else 'time:random-real',
                  sample=case if (a > 0 and t > 0) else None)
        if toks.get('aligned') != '1':
            chk.corr(case, 'aligned', 'model says export misaligned', 'model self-check (exportAligned)')
    # ---- (a') the same shapes through the real import/export of a one-layer net
    jobs = []
    for (K, d0, a, t, canonical) in cases:
        if not canonical:
            continue
        beta, gamma = pittime.shape_vectors(K, a, t, chk.rng, True)
        jobs.append((K, d0, beta, gamma, chk.rng.randint(0, 1 << 30)))
    jobs += rand_jobs
    outs = common.pmap(pittime.single_layer_export, jobs)
    lines = [pittime.line(K, d0, beta, gamma) for (K, d0, beta, gamma, _) in jobs]
    answers = chk.driver('PITTime', lines)
    int_jobs = []
    for job, o, ans in zip(jobs, outs, answers):
        K, d0, beta, gamma, seed = job
        _, toks = pittime.model_answer(ans)
        case = {'kind': 'single', 'K': K, 'd0': d0, 'beta': beta, 'gamma': gamma, 'seed': seed}
        chk.count(('single', K, d0, tuple(beta), tuple(gamma)), nontrivial=sum(beta) + sum(gamma) > 0 or True,
                  bucket='export:K=%d' % K)
        if o.get('error'):
            chk.violation('C01:export-raises:time-mask', 'export of a pruned causal Conv1d raises: ' + o['error'], case)
            continue
        real = 'k=%d d=%d pad=%s kept=%s' % (o['k'], o['d'], list(o['pad']), json.dumps(o['taps']).replace(' ', ''))
        mod = 'k=%s d=%s pad=%s kept=%s' % (toks['k'], toks['d'], [int(toks['pad']), 0], toks['kept'])
        chk.corr(case, real, mod, 'exported Conv1d: kernel, dilation, re-created padding, ID-probed kept taps')
        if o.get('diff'):
            chk.violation('C01:eval-vs-export:time-mask', 'exported causal Conv1d differs from the masked one: ' + o['diff'], case)
        if o.get('int'):
            int_jobs.append((case, o['int'], job))
    # the executable layer functions of the theorem (maskedConvAt / exportedConvAt) vs the real layers, exactly
    fr = lambda v: str(Fraction(float(v)))
    lst = lambda r: '[' + ','.join(str(v) for v in r) + ']'
    lines = ['conv K=%d d0=%d s=%d T=%d cout=3 beta=[%s] gamma=[%s] w=[%s] b=%s x=[%s]'
             % (job[0], job[1], it['stride'], it['T'], ','.join(fr(v) for v in job[2]), ','.join(fr(v) for v in job[3]),
                ','.join(lst(r) for r in it['w']), lst(it['b']), ','.join(lst(r) for r in it['x']))
             for (_, it, job) in int_jobs]
    for (case, it, job), ans in zip(int_jobs, chk.driver('PITTime', lines) if lines else []):
        real = 'masked=%s exported=%s' % (json.dumps(it['pit']).replace(' ', ''), json.dumps(it['exp']).replace(' ', ''))
        chk.corr(dict(case, int=it), real, ans, 'integer execution: PITConv1d output / exported Conv1d output vs maskedConvAt / exportedConvAt')
        chk.count(('conv-int', job[0], job[1], tuple(job[2]), tuple(job[3])), nontrivial=True, bucket='conv-int:stride=%d' % it['stride'])
        if it['pit'] != it['exp']:
            chk.violation('C01:eval-vs-export:time-mask:integer', 'exported causal Conv1d differs from the masked one on an integer signal '
                          '(exact comparison): %s vs %s' % (it['pit'], it['exp']), case)
    # ---- (b) grammar nets
    n = 30 if chk.quick else 700
    broken = bool(chk.proof_broken or chk.corr_disagreements)
    if broken:
        n *= 4
    specs = pitcheck.specs_for(chk, n, {'excl': True, 'p_excl': .2, 'unsupported': True, 'unsupported_every': 10, 'reuse': True})
    for r, assigns in pitcheck.run_nets(chk, specs):
        if r.get('harness_error'):
            raise RuntimeError('harness error on %s: %s %s' % (r['spec'], r['harness_error'], r.get('tb')))
        if r.get('construct_error'):
            continue        # C09's business (depthwise fed by a concat)
        tl, tw = [], []
        for a, head, rows in assigns:
            if head.get('err') == 'no-request':       # a layer invoked twice: oracle only
                chk.count((tuple(r['prog']), a['style'], r['spec']['seed']), nontrivial=True, bucket='net:layer-invoked-twice')
                _oracle_net(chk, r, a, {})
                continue
            if 'err' in head:
                continue
            sup = head.get('sup') == '1'
            chk.count((tuple(r['prog']), a['request']), nontrivial=any('0' in x['out'] for x in a['rows']),
                      bucket='net:' + ('supported' if sup else 'unsupported'),
                      sample={'prog': r['prog'], 'fold_bn': r['spec']['fold_bn'], 'style': a['style']})
            if sup and a.get('assign_done'):
                pi, pm = pitcheck.plan_rows(r, a, head, rows)
                chk.corr(pitcheck.case_id(r, a), pi, pm, 'export plan (kept out/in features by ID-probing)')
                for node, ti in a.get('time', {}).items():
                    pl = a['plan'][node]
                    tl.append('tmask K=%d d0=%d beta=[%s] gamma=[%s]' % (ti['K'], ti['d0'], ti['beta'], ti['gamma']))
                    tw.append((a, node, ti, pl))
            _oracle_net(chk, r, a, head)
        if tl:
            for (a, node, ti, pl), ans in zip(tw, chk.driver('PITTime', tl)):
                _, toks = pittime.model_answer(ans)
                real = 'mask=%s k=%d d=%d kept=%s pad=%s' % (pl['time_mask'], pl['kernel_size'][0], pl['dilation'][0],
                                                             json.dumps(pl['tkept']).replace(' ', ''),
                                                             None if pl['pad'] is None else pl['pad'][0])
                mod = 'mask=%s k=%s d=%s kept=%s pad=%s' % (toks['mask'].strip('[]').replace(',', ''), toks['k'], toks['d'], toks['kept'],
                                                            None if pl['pad'] is None else int(toks['pad']))
                chk.corr(dict(pitcheck.case_id(r, a), node=node, time=ti), real, mod,
                         'exported Conv1d inside a net: time mask, kernel, dilation, kept taps, padding')
    # ---- (c) the semantic model itself, executed: pitStep / expStep at V = Int vs the real networks
    nsem = 60 if chk.quick else 2500
    results, rows = pitsem.run_sem(chk, pitsem.sem_specs(chk, nsem, unsupported=True))
    for r in results:
        if r.get('skipped'):
            chk.hist['sem:skipped:' + r['skipped']] = chk.hist.get('sem:skipped:' + r['skipped'], 0) + 1
    for r, row, real, mod in rows:
        cid = pitsem.sem_case_id(r, row)
        chk.corr(cid, 'pit=%s exp=%s' % (real['pit'], real['exp']),
                 'pit=%s exp=%s' % (mod.get('pit'), mod.get('exp')) if 'err' not in mod else mod['err'],
                 'integer-valued execution of pitStep/expStep (NetSem.lean) vs PIT.eval()(x) / export().eval()(x)')
        chk.count(('sem', row['request']), nontrivial=bool(r.get('pruned')),
                  bucket='sem:' + ('supported' if mod.get('sup') == '1' else 'unsupported') +
                         (':standalone-bn' if r.get('standalone_bn') else ''),
                  sample={'prog': r['prog'], 'real': row['real']} if r.get('pruned') else None)
        if mod.get('sup') == '1' and real['pit'] != real['exp']:
            chk.violation('C01:eval-vs-export:integer-net', 'exported network differs from the PIT model on an integer-valued '
                          'channel-level network (exact comparison): %s' % row['real'], cid)
    chk.extra['exhaustive'] = False
    chk.extra['time_shapes_enumerated_exhaustively'] = True


def replay(data):
    case = data['case']
    if case.get('kind') == 'sem':
        r = pitsem.sem_case(case['spec'])
        print(r.get('construct_error') or r.get('export_error') or [x['real'] for x in r['rows']])
        bad = [x for x in r['rows'] if x['real'].split()[0][4:] != x['real'].split()[1][4:]]
        return 1 if (bad or r.get('export_error')) else 0
    if case.get('kind') == 'single':
        o = pittime.single_layer_export((case['K'], case['d0'], case['beta'], case['gamma'], case['seed']))
        print(o)
        return 1 if (o.get('error') or o.get('diff')) else 0
    from . import c09
    return c09.replay(data)
