"""C17 — a checkpointed search resumes to an observationally identical model.

proof leg            lean/PlinioVerif/Props/C17.lean over Model/Checkpoint.lean and the field table
                     `Gen/Fields.lean`, which is RE-EXTRACTED FROM THE SOURCES on every run by
                     harness/fieldtable.py (written only when it changed): `resume_obs_eq` for all
                     histories under protocol R, `keys_match`, and the kernel-checked
                     `gen_fields_classified` / `gen_fields_no_late` over the generated table.
readings             "(after the usual forward pass)" qualifies every observation (outputs, cost, summary, export); what a
                     forward recomputes (SuperNetCombiner.theta_alpha, weight ranges, bias scales) is stale until then by
                     design -> measured and reported as an observation.  Protocol R re-applies the mode and the options that
                     live outside the state_dict; persisted options (MPS temperature buffer) are NOT re-applied.
correspondence leg   (a) table vs running objects: every parameter / buffer / plain attribute of every
                     PLiNIO object inside real PIT/MPS/SuperNet wrappers has the class the table (asked
                     through the Lean driver) gives it; `recomputed` fields are overwritten by a forward
                     whatever they held; constructor/config fields are equal on two fresh wrappers and
                     untouched by training steps.
                     (b) histories: real wrappers driven through random histories (optimizer steps on
                     network and NAS parameters, option changes, mode switches), checkpointed, resumed
                     under protocol R and under the literal reading; the set of fields that differ after
                     loading, and (under R) equality of recomputed fields / state_dict / observation
                     after one forward = what `Drivers/C17.lean` computes on the model.
oracle leg           the property itself on those resumes: no missing/unexpected key under strict load,
                     bit-equal outputs (history's mode and the other mode, same RNG seed), cost values,
                     summary, exported network (structure + tensors).  Under the literal reading the
                     attributes that make the difference are isolated by transplanting them and reported
                     as `C17:config-outside-state_dict:<Class>.<attr>`.
"""
import json
import os
import random

from .. import common
from .. import fieldtable
from .. import fingerprint as fp
from .. import obs_models as om

TEMPS = [1.0, 0.5, 2.0, 2.56]     # index 0 = constructor default; the others are what an annealing schedule sets
CTOR_TEMPS = [None, 1, 5, 2.0, 1.0]   # MPS constructor argument as users write it: Python ints as well as floats
SAMPLERS = ['sample_alpha_sm', 'sample_alpha_gs', 'sample_alpha_none']
OBSERVER_CALLS = ['summary', 'str', 'export', 'cost', 'get_cost']
OPTIONS = {'pit': ['discrete_cost', 'train_features'],
           'mps': ['temperature', 'hard', 'gumbel', 'disable'],
           'sn': ['temperature', 'hard']}


# ----------------------------------------------------------------------------- histories
def gen_history(rng, method, n_train=None):
    """[('init',), ('train', data_seed), ('opt', name, value), ('mode', 0|1), ...]"""
    n_train = rng.randint(0, 5) if n_train is None else n_train
    ops = [('train', rng.randrange(1 << 16)) for _ in range(n_train)]
    for _ in range(rng.randint(0, 3)):
        name = rng.choice(OPTIONS[method])
        val = rng.randrange(1, len(TEMPS)) if name == 'temperature' else rng.random() < 0.7
        ops.append(('opt', name, val))
    for _ in range(rng.randint(0, 2)):
        ops.append(('mode', rng.randrange(2)))
    for _ in range(rng.randint(0, 2)):
        # observer calls are part of any real history (architecture logged at the end of an epoch, ...)
        ops.append(('obs', rng.choice(OBSERVER_CALLS)))
    rng.shuffle(ops)
    return [('init', rng.randrange(1 << 16))] + ops


def apply_op(w, spec, op, shape):
    import torch
    method = om.METHOD[spec['kind']]
    if op[0] == 'init':
        om.randomize_nas(w, op[1])
    elif op[0] == 'train':
        x = om.data(shape, op[1], batch=4)
        params = [p for p in w.parameters() if p.requires_grad]
        for m in w.modules():
            # with sampling disabled the stored coefficients still carry the graph of the forward that
            # sampled them; a second backward through it is an error: keep the values, drop the graph
            if getattr(m, 'disable_sampling', False) and getattr(m.theta_alpha, 'grad_fn', None) is not None:
                m.theta_alpha = m.theta_alpha.detach()
        torch.manual_seed(op[1])
        y = w(x)
        name = om.cost_names(spec)[0]
        loss = y.pow(2).mean() + 1e-4 * (w.cost if name is None else w.get_cost(name))
        for p in params:
            p.grad = None
        loss.backward()
        with torch.no_grad():
            for p in params:
                if p.grad is not None:
                    p.add_(p.grad, alpha=-0.05)
                    p.grad = None
    elif op[0] == 'mode':
        w.train() if op[1] else w.eval()
    elif op[0] == 'obs':
        observer_call(w, spec, op[1])
    elif op[0] == 'opt':
        _, name, val = op
        if method == 'sn':
            w.update_softmax_options(**({'temperature': TEMPS[val]} if name == 'temperature' else {'hard': bool(val)}))
        elif method == 'mps':
            kw = {'temperature': ('temperature', TEMPS[val] if name == 'temperature' else None),
                  'hard': ('hard', bool(val)), 'gumbel': ('gumbel', bool(val)),
                  'disable': ('disable_sampling', bool(val))}[name]
            w.update_softmax_options(**{kw[0]: kw[1]})
        else:
            setattr(w, name, bool(val))


def observer_call(w, spec, name):
    if name == 'summary':
        w.summary()
    elif name == 'str':
        str(w)
    elif name == 'export':
        w.export()
    else:
        for n in om.cost_names(spec):
            if n is None:
                w.cost
            elif name == 'get_cost':
                w.get_cost(n)


def option_is_persisted(spec, op):
    """does this option call write (only) into the state_dict, according to the extracted table"""
    if op[0] != 'opt' or om.METHOD[spec['kind']] != 'mps' or op[1] != 'temperature':
        return False
    tab = _table()
    return all(tab.get(q, {}).get('temperature', {}).get('kind') in ('param', 'pbuf')
               for q in ('MPSPerLayerQtz', 'MPSPerChannelQtz'))


def is_config(op):
    return op[0] in ('opt', 'mode')


# --------------------------------------------------------- model side: history -> driver line
def option_state(spec, history):
    """final value of every option and the constructor defaults (tracked symbolically)"""
    method = om.METHOD[spec['kind']]
    d = {'temperature': 0, 'hard': bool(spec['hard']) if method != 'pit' else False,
         'gumbel': bool(spec['gumbel']), 'disable': False,
         'discrete_cost': bool(spec['discrete_cost']), 'train_features': True}
    return d


def model_ops(spec, history, classes):
    """render the history for Drivers/C17.lean; an option call becomes one `s:` op per table field it
    writes (value id 0 = constructor default)"""
    method = om.METHOD[spec['kind']]
    default = option_state(spec, history)
    cur = dict(default)
    out = []
    qtz = [c for c in ('MPSPerLayerQtz', 'MPSPerChannelQtz') if c in classes]
    layers = [c for c in ('PITConv1d', 'PITConv2d', 'PITLinear') if c in classes]

    def sampler(st):
        return 2 if st['disable'] else (1 if st['gumbel'] else 0)
    for op in history:
        if op[0] in ('init', 'train'):
            out.append('t')
        elif op[0] == 'obs':
            out.append('o')
        elif op[0] == 'mode':
            out.append('m:%d' % op[1])
        else:
            _, name, val = op
            cur[name] = val
            rel = lambda k: int(cur[k] != default[k]) if k != 'temperature' else cur[k]
            if method == 'sn':
                f = {'temperature': '_softmax_temperature', 'hard': 'hard_softmax'}[name]
                out.append('s:SuperNetCombiner.%s=%d' % (f, rel(name)))
            elif method == 'mps':
                for q in qtz:
                    if name == 'temperature':
                        out.append('s:%s.temperature=%d' % (q, rel(name)))
                    elif name == 'hard':
                        out.append('s:%s.hard_softmax=%d' % (q, rel(name)))
                    else:
                        f = {'gumbel': 'gumbel_softmax', 'disable': 'disable_sampling'}[name]
                        out.append('s:%s.%s=%d' % (q, f, rel(name)))
                        out.append('s:%s.sample_alpha=%d' % (q, (sampler(cur) - sampler(default)) % 3))
            else:
                if name == 'discrete_cost':
                    out.append('s:PIT._discrete_cost=%d' % rel(name))
                    for l in layers:
                        out.append('s:%s.discrete_cost=%d' % (l, rel(name)))
                else:
                    out.append('s:PIT._train_features=%d' % rel(name))
    return out


# ------------------------------------------------------------------- real side, one case
def _table():
    if not hasattr(_table, 'rows'):
        rows, _ = fieldtable.extract()
        _table.rows = fieldtable.by_class(rows)
    return _table.rows


def runtime_kind(m, k):
    if k in m._parameters:
        return 'param'
    if k in m._buffers:
        return 'nbuf' if k in m._non_persistent_buffers_set else 'pbuf'
    return 'outside'


def table_fields_diff(a, b, include_recomputed=False):
    """'Class.field' of table fields whose value differs between wrappers a and b (same structure)"""
    import torch
    tab = _table()
    out, rec = set(), set()
    for (n, ma), (_, mb) in zip(a.named_modules(), b.named_modules()):
        cn = type(ma).__name__
        rows = tab.get(cn)
        if not rows or type(ma).__module__.split('.')[0] != 'plinio':
            continue
        for f, r in rows.items():
            if f.startswith('*'):
                continue
            va, vb = _get(ma, f), _get(mb, f)
            ca, cb = fp.canon(va, ma), fp.canon(vb, mb)
            if ca is None and cb is None:
                continue        # sub-modules, calculators, containers: structure, compared elsewhere
            if ca != cb:
                (rec if r['kind'] == 'recomputed' else out).add(cn + '.' + f)
    return sorted(out), sorted(rec)


_NONE = object()


def _get(m, f):
    if f in m._parameters:
        return m._parameters[f]
    if f in m._buffers:
        return m._buffers[f]
    return vars(m).get(f, _NONE)


def observe(w, spec, shape, seed):
    """The statement's observations after the usual forward pass; consumes the wrapper."""
    import torch
    x = om.data(shape, seed)
    res = {}
    for phase in ('mode', 'flipped'):
        if phase == 'flipped':
            w.eval() if w.training else w.train()
        torch.manual_seed(seed)
        with torch.no_grad():
            y = w(x)
        res['y:' + phase] = fp.thash(y)
        costs = []
        for n in om.cost_names(spec):
            c = w.cost if n is None else w.get_cost(n)
            costs.append(fp.thash(c) + '=' + repr(float(c)))
        res['cost:' + phase] = tuple(costs)
        res['summary:' + phase] = fp.summary_str(w.summary())
        if phase == 'mode':
            rec = {}
            for n, m in w.named_modules():
                for k, v in fp.plain_attrs(m).items():
                    if isinstance(v, torch.Tensor):
                        rec[n + '.' + k] = fp.thash(v)
            res['rec'] = rec
            res['state'] = {k: fp.thash(v) for k, v in w.state_dict().items()}
            try:
                torch.manual_seed(seed)
                res['export'] = fp.net_fingerprint(w.export())
            except Exception as e:   # the export itself failing is not C17's business, but must agree
                res['export'] = 'EXC:' + type(e).__name__
    return res


OBS_KEYS = ('y:mode', 'cost:mode', 'summary:mode', 'export', 'y:flipped', 'cost:flipped', 'summary:flipped')


def obs_diff(a, b):
    out = []
    for k in OBS_KEYS:
        if a[k] != b[k]:
            d = fp.net_diff(a[k], b[k]) if k == 'export' and isinstance(a[k], dict) and isinstance(b[k], dict) else None
            out.append((k.split(':')[0] if k != 'export' else 'export', k, d or '%s != %s' % (str(a[k])[:80], str(b[k])[:80])))
    return out


def resume(spec, history, sd, proto, modes, transplant=None, fresh_obs=()):
    """fresh wrapper of the same seed network, protocol R or literal, observer calls the fresh wrapper
    saw before loading (`fresh_obs`), strict load"""
    w, shape = om.build(spec)
    if proto == 'R':
        # protocol R, minimal form: the mode and the option calls whose target lives OUTSIDE the state_dict are
        # re-applied; an option that is itself persisted (MPS keeps its temperature in a buffer) is left to the
        # checkpoint -- a user has no reason to give it again, and an implementation consulting a second,
        # non-persisted copy of it is exposed
        for op in history:
            if is_config(op) and not option_is_persisted(spec, op):
                apply_op(w, spec, op, shape)
    else:
        # the mode is the caller's choice at observation time, not state: same flags as the original
        for m, tr in zip(w.modules(), modes):
            m.training = tr
    for name in fresh_obs:
        observer_call(w, spec, name)
    status = 'ok'
    try:
        r = w.load_state_dict(sd, strict=True)
        if r.missing_keys or r.unexpected_keys:
            status = 'keys:%s|%s' % (sorted(r.missing_keys)[:3], sorted(r.unexpected_keys)[:3])
    except RuntimeError as e:
        status = 'load-error:' + str(e).replace('\n', ' ')[:200]
    if transplant:
        mods = dict(w.named_modules())
        for (path, attr), val in transplant.items():
            m = mods[path]
            if isinstance(val, str) and val.startswith('self.'):
                val = getattr(m, val[5:])
            vars(m)[attr] = val
    return w, shape, status


def owner_class(m, attr):
    """the most basic PLiNIO class of `m`'s MRO whose own source writes `self.<attr>` (stable finding keys:
    `MPSBaseQtz.hard_softmax` rather than one key per concrete quantizer class)"""
    import inspect
    import re
    pat = re.compile(r'\bself\.%s\s*(:[^=\n]+)?=[^=]' % re.escape(attr))
    for c in reversed(type(m).__mro__):
        if c.__module__.split('.')[0] != 'plinio':
            continue
        try:
            src = inspect.getsource(c)
        except (OSError, TypeError):
            continue
        if pat.search(src):
            return c.__name__
    return type(m).__name__


def simple_attr_diff(a, b):
    """{(module path, attr): value in a} for plain, simply-valued attributes that differ"""
    import torch
    out = {}
    tab = _table()
    for (n, ma), (_, mb) in zip(a.named_modules(), b.named_modules()):
        pa, pb = fp.plain_attrs(ma), fp.plain_attrs(mb)
        for k in sorted(set(pa) | set(pb)):
            va, vb = pa.get(k, _NONE), pb.get(k, _NONE)
            if isinstance(va, torch.Tensor) and isinstance(vb, torch.Tensor):
                # plain tensor attributes (not buffers): candidates too; the ones a forward recomputes are
                # eliminated by the attribution
                rec = tab.get(type(ma).__name__, {}).get(k, {}).get('kind') == 'recomputed'   # poison-tested
                if k != '_input_example' and not rec and fp.thash(va) != fp.thash(vb) and va.shape == vb.shape:
                    out[(n, k)] = va.detach().clone()
                continue
            if isinstance(va, torch.Tensor) or isinstance(vb, torch.Tensor):
                continue
            ca, cb = (fp.canon(va, ma) if va is not _NONE else '<absent>'), (fp.canon(vb, mb) if vb is not _NONE else '<absent>')
            if ca is None or cb is None or ca == cb:
                continue
            out[(n, k)] = ca if isinstance(ca, str) and ca.startswith('self.') else va
    return out


def run_case(item):
    """One (spec, history): returns everything the parent needs, JSON-able."""
    import torch
    import warnings
    warnings.filterwarnings('ignore')
    torch.set_num_threads(1)
    common.use_repo_on_path()
    spec, history = item['spec'], [tuple(o) for o in item['history']]
    method = om.METHOD[spec['kind']]
    res = {'violations': [], 'observations': [], 'real': {}, 'classes': []}
    w, shape = om.build(spec)
    fresh_keys = sorted(w.state_dict().keys())          # the key set at construction
    fresh_obs = list(item.get('fresh_obs') or [])
    res['classes'] = sorted({type(m).__name__ for m in w.modules()})
    frozen_before = None
    for op in history:
        if op[0] == 'train' and frozen_before is None:
            frozen_before = _frozen_values(w)
        apply_op(w, spec, op, shape)
        if op[0] == 'train':
            # training steps never write configuration / constructor fields (model: `step … .train`)
            now = _frozen_values(w)
            bad = sorted(k for k in now if now[k] != frozen_before.get(k))
            res['real']['train_touches_frozen'] = bad
            frozen_before = now
        else:
            frozen_before = None
    res['real'].setdefault('train_touches_frozen', [])
    sd = {k: v.detach().clone() for k, v in w.state_dict().items()}
    trained_keys = sorted(sd.keys())
    keydiff = sorted(set(trained_keys) ^ set(fresh_keys))
    if fresh_obs:
        wf, _ = om.build(spec)
        for name in fresh_obs:
            observer_call(wf, spec, name)
        keydiff = sorted(set(keydiff) | (set(wf.state_dict().keys()) ^ set(fresh_keys)))
        del wf
    # key set after any history (observer calls included, on either side) = key set at construction
    res['real']['keys_equal_fresh'] = not keydiff
    final_training = [m.training for m in w.modules()]
    seed = item['obs_seed']
    variants = {}
    for proto in ('R', 'L'):
        v, _, status = resume(spec, history, sd, proto, final_training, fresh_obs=fresh_obs)
        diff, _ = table_fields_diff(w, v)
        # the state_dict right after loading IS the checkpoint: same keys, dtype, shape, bits (`load_state_dict`
        # copies with copy_(), which silently casts to the dtype of the destination)
        sv = v.state_dict()
        bad = []
        for k in sorted(sd):
            if k in sv and (sv[k].dtype != sd[k].dtype or sv[k].shape != sd[k].shape or fp.thash(sv[k]) != fp.thash(sd[k])):
                bad.append((k, '%s %s %s -> %s %s %s' % (str(sd[k].dtype).replace('torch.', ''), tuple(sd[k].shape),
                                                          _short(sd[k]), str(sv[k].dtype).replace('torch.', ''),
                                                          tuple(sv[k].shape), _short(sv[k]))))
        variants[proto] = {'w': v, 'status': status, 'diff': diff, 'ckpt_bad': bad}
        if proto == 'L':
            variants[proto]['attrdiff'] = simple_attr_diff(w, v)
    # right after loading, BEFORE the usual forward pass (not demanded, see `assumptions`): cost values
    try:
        pre = [tuple(repr(float(x.cost if n is None else x.get_cost(n))) for n in om.cost_names(spec))
               for x in (w, variants['R']['w'])]
        res['real']['cost_before_forward_eq'] = pre[0] == pre[1]
    except Exception:
        res['real']['cost_before_forward_eq'] = None
    o = observe(w, spec, shape, seed)
    for proto in ('R', 'L'):
        V = variants[proto]
        ov = observe(V['w'], spec, shape, seed)
        V['obs'] = ov
        V['obsdiff'] = obs_diff(o, ov)
        V['rec_eq'] = o['rec'] == ov['rec']
        V['state_eq'] = o['state'] == ov['state']
        res['real'][proto] = {'status': V['status'], 'diff': V['diff'], 'rec_eq': V['rec_eq'],
                              'state_eq': V['state_eq'], 'obs_eq': not V['obsdiff'], 'ckpt_eq': not V['ckpt_bad']}
        if V['ckpt_bad'] and V['status'] == 'ok':
            k, d = V['ckpt_bad'][0]
            path, fld = k.rsplit('.', 1)
            owner = owner_class(w.get_submodule(path), fld)
            res['violations'].append({'key': 'C17:state_dict-entry-not-restored:%s.%s' % (owner, fld),
                                      'what': 'after a clean strict load (%s) the resumed wrapper does not hold the '
                                              'checkpointed value of %s: %s%s'
                                              % ('protocol R' if proto == 'R' else 'constructor arguments only', k, d,
                                                 '; observations differ: %s' % V['obsdiff'][0][1] if V['obsdiff'] else ''),
                                      'case': dict({'kind': 'resume', 'spec': spec, 'history': [list(op) for op in history],
                                                    'obs_seed': seed, 'fresh_obs': fresh_obs}, proto=proto)})
    case = {'kind': 'resume', 'spec': spec, 'history': [list(op) for op in history], 'obs_seed': seed,
            'fresh_obs': fresh_obs}
    # ---- oracle, protocol R: the property as stated
    R = variants['R']
    if not res['real']['keys_equal_fresh'] or 'key(s)' in R['status'] or R['status'].startswith('keys'):
        res['violations'].append({'key': 'C17:key-set-depends-on-history',
                                  'what': 'the state_dict key set depends on the call history (observer calls %s on the '
                                          'checkpointed wrapper, %s on the fresh one), not only on seed and constructor '
                                          'arguments: %s; strict load: %s'
                                          % ([o[1] for o in history if o[0] == 'obs'], fresh_obs, keydiff[:4], R['status'][:160]),
                                  'case': dict(case, proto='R')})
    elif R['status'] != 'ok':
        res['violations'].append({'key': 'C17:resume-differs:%s:load-error' % method,
                                  'what': 'strict load of a checkpoint into a fresh wrapper (protocol R): ' + R['status'],
                                  'case': dict(case, proto='R')})
    for comp, k, d in R['obsdiff']:
        res['violations'].append({'key': 'C17:resume-differs:%s:%s' % (method, comp),
                                  'what': 'resumed wrapper (protocol R) differs from the original in %s: %s' % (k, d),
                                  'case': dict(case, proto='R')})
    if not R['obsdiff'] and not R['state_eq']:
        res['violations'].append({'key': 'C17:resume-differs:%s:state-after-forward' % method,
                                  'what': 'state_dict after the forward differs between original and resumed wrapper',
                                  'case': dict(case, proto='R')})
    # ---- literal reading: attribute what makes the difference
    L = variants['L']
    if L['status'] != 'ok' and not res['real']['keys_equal_fresh']:
        pass        # reported above
    elif L['status'] != 'ok':
        res['violations'].append({'key': 'C17:resume-differs:%s:keys-literal' % method,
                                  'what': 'strict load (literal reading): ' + L['status'], 'case': dict(case, proto='L')})
    elif L['obsdiff'] and L['ckpt_bad']:
        pass        # explained and reported above: a state_dict entry was not restored
    elif L['obsdiff']:
        groups = {}
        for (path, attr), val in L['attrdiff'].items():
            cn = owner_class(dict(w.named_modules())[path], attr)
            groups.setdefault(cn + '.' + attr, {})[(path, attr)] = val

        def trial(keep):
            tp = {}
            for g in keep:
                tp.update(groups[g])
            v, _, _ = resume(spec, history, sd, 'L', final_training, transplant=tp, fresh_obs=fresh_obs)
            return obs_diff(o_ref, observe(v, spec, shape, seed))
        # the original was consumed by `observe`: rebuild the reference through protocol R when that
        # one agreed, else through a full transplant
        o_ref = o
        full = trial(sorted(groups))
        if full:
            res['violations'].append({'key': 'C17:outside-state_dict:unattributed:%s' % method,
                                      'what': 'literal resume differs (%s) and copying every simple attribute '
                                              'that differs (%s) does not repair it: state outside state_dict '
                                              'and outside plain attributes' % (L['obsdiff'][0][1], sorted(groups)),
                                      'case': dict(case, proto='L')})
        else:
            # a minimal set of attributes whose values repair the resume (greedy elimination, fixed order)
            needed = sorted(groups)
            for g in sorted(groups):
                rest = [h for h in needed if h != g]
                if not trial(rest):
                    needed = rest
            for g in needed:
                res['violations'].append({'key': 'C17:config-outside-state_dict:' + g,
                                          'what': 'literal resume (configuration not re-applied) differs in %s; '
                                                  'attribute %s lives outside the state_dict' % (L['obsdiff'][0][1], g),
                                          'case': dict(case, proto='L', attr=g)})
            res['real']['L']['needed'] = needed
    return res


def _short(t):
    t = t.detach().flatten()
    return repr(t[:3].tolist()) if t.numel() else '[]'


def _frozen_values(w):
    tab = _table()
    out = {}
    for n, m in w.named_modules():
        rows = tab.get(type(m).__name__)
        if not rows:
            continue
        for f, r in rows.items():
            if r['kind'] in ('config', 'ctor') and f in vars(m):
                c = fp.canon(vars(m)[f], m)
                if c is not None:
                    out[n + '.' + f] = c
    return out


# ------------------------------------------------------------- table vs running objects
def calculators_of(w):
    seen, out = set(), []
    todo = [getattr(m, '_input_features_calculator', None) for m in w.modules()]
    while todo:
        c = todo.pop()
        if c is None or id(c) in seen:
            continue
        seen.add(id(c))
        out.append(c)
        todo.append(getattr(c, 'prev', None))
        todo.extend(getattr(c, 'inputs', None) or [])
    return out


def table_vs_runtime(item):
    """per (class, attribute) seen on real objects: runtime registration kind; recompute check; ctor check"""
    import torch
    import warnings
    warnings.filterwarnings('ignore')
    torch.set_num_threads(1)
    common.use_repo_on_path()
    spec = item['spec']
    tab = _table()
    w, shape = om.build(spec)
    w2, _ = om.build(spec)
    seen = {}
    foreign = {r['field'][1:]: r for rows in tab.values() for r in rows.values() if r['field'].startswith('*')}
    for (n, m), (_, m2) in zip(w.named_modules(), w2.named_modules()):
        cn = type(m).__name__
        if type(m).__module__.split('.')[0] != 'plinio':
            continue
        names = set(m._parameters) | set(m._buffers) | set(fp.plain_attrs(m)) | set(m._modules)
        for k in sorted(names):
            rk = runtime_kind(m, k) if k not in m._modules else 'outside'
            suffix = next((s for s in foreign if k.endswith(s)), None)
            is_foreign = suffix is not None and k not in tab.get(cn, {})
            entry = seen.setdefault((cn, k), {'runtime': rk, 'foreign': suffix if is_foreign else None,
                                              'fresh_equal': True})
            if k in fp.plain_attrs(m):
                c1, c2 = fp.canon(vars(m)[k], m), fp.canon(vars(m2).get(k), m2)
                if c1 is not None and c1 != c2 and not isinstance(vars(m)[k], torch.Tensor):
                    entry['fresh_equal'] = False
    calc = {}
    for c in calculators_of(w):
        for k in vars(c):
            calc[(type(c).__name__, k)] = 'outside'
    # recomputed fields: poison, forward, compare with the unpoisoned twin
    x = om.data(shape, 7)
    w.eval(); w2.eval()
    poisoned = []
    for n, m in w.named_modules():
        rows = tab.get(type(m).__name__, {})
        for f, r in rows.items():
            if r['kind'] == 'recomputed' and isinstance(vars(m).get(f), torch.Tensor):
                vars(m)[f] = torch.full_like(vars(m)[f].detach(), 12345.0)
                poisoned.append((n, f, type(m).__name__))
    with torch.no_grad():
        w(x); w2(x)
    mods2 = dict(w2.named_modules())
    rec = {}
    for n, f, cn in poisoned:
        a, b = vars(dict(w.named_modules())[n])[f], vars(mods2[n])[f]
        ok = fp.thash(a) == fp.thash(b)
        rec[(cn, f)] = rec.get((cn, f), True) and ok
    return {'seen': [[k[0], k[1], v] for k, v in seen.items()], 'calc': [[k[0], k[1]] for k in calc],
            'recomputed': [[k[0], k[1], v] for k, v in rec.items()]}


# ------------------------------------------------------------------------------- run
def _sorted_diff(ans):
    """the driver lists differing fields in table order: canonicalise to sorted order"""
    import re
    return re.sub(r'diff=\[([^\]]*)\]', lambda m: 'diff=[%s]' % ','.join(sorted(x for x in m.group(1).split(',') if x)), ans)


def _kind_class(kind_answer):
    k = kind_answer.split()[0]
    return {'param': 'param', 'pbuf': 'pbuf'}.get(k, 'outside' if not k.startswith('err') else k)


def run(chk):
    # a development run against a scratch copy (PLINIO_SRC) regenerates the table from the *modified*
    # sources into the shared Lean project: put the previous file back afterwards
    path = os.path.join(common.LEAN_DIR, 'PlinioVerif', 'Gen', 'Fields.lean')
    prev = open(path).read() if os.path.exists(path) else None
    try:
        _run(chk)
    finally:
        if common.REPO != '/repo' and prev is not None and open(path).read() != prev:
            with open(path, 'w') as fh:
                fh.write(prev)


def _run(chk):
    chk.rule = ('table leg: every (class, attribute) found on the objects of real wrappers of 6 architectures '
                '(PIT 1D with time masks, PIT 2D, PIT with channel concat, MPS per-layer, MPS per-channel with '
                '0-bit, SuperNet) vs the extracted table; history leg: random histories = shuffle of 0..5 '
                'optimizer steps (network + NAS parameters, random data), 0..3 option changes (temperature, '
                'hard, gumbel, disable_sampling, discrete_cost, train_features), 0..2 mode switches, each resumed '
                'under protocol R and under the literal reading. non-trivial = history with at least one '
                'optimizer step or option change; distinct = distinct (architecture spec, history)')
    chk.trusted += ['state_dict / load_state_dict mechanics of torch.nn.Module (modelled as save/load over the '
                    'param and persistent-buffer fields)',
                    'harness/fieldtable.py (AST extractor, ~400 lines): its table is compared with the running '
                    'objects on every run but the extractor itself is not verified',
                    'the torch RNG: equal seeds give equal Gumbel / dropout draws']
    # ---- regenerate the table (own regeneration: harness/regen.py belongs to the translator)
    try:
        rows, missing, changed = fieldtable.regenerate(common.LEAN_DIR)
    except Exception as e:       # source left the subset the extractor understands
        rows, missing, changed = [], [], False
        chk.proof_broken.append('field-table extraction failed: %s: %s' % (type(e).__name__, str(e)[:300]))
    if missing:
        chk.proof_broken.append('anchored classes absent from the extracted table: %s' % missing)
    chk.extra['field_table'] = {'rows': len(rows), 'regenerated': changed,
                                'by_kind': {k: sum(1 for r in rows if r['kind'] == k) for k in fieldtable.KINDS},
                                'volatile_read': [r['cls'] + '.' + r['field'] for r in rows
                                                  if r['kind'] == 'volatile' and r['read']],
                                'late': [r['cls'] + '.' + r['field'] for r in rows if r['late']]}
    chk.assumptions += [
        'Reading of "(after the usual forward pass)": it qualifies the whole list -- outputs, cost values, summary and '
        'exported network are all observed after one forward of both wrappers. State that every forward recomputes '
        '(extracted class `recomputed`: SuperNetCombiner.theta_alpha, a plain tensor attribute; MinMaxWeight.ch_min/ch_max; '
        'QuantizerBias._scale) is not in the checkpoint by design; read BEFORE that forward it is stale: right after '
        'load_state_dict a SuperNet reports cost / get_cost / get_total_icv of the uniform start-up coefficients (MPS keeps '
        'theta_alpha in a buffer, PIT has no sampled state: both agree immediately). The check measures this and reports it '
        'as an observation, not as a violation (Lean: recomputed_field_stale_until_forward).',
        'Protocol R (demanded reading) = same constructor arguments, same mode, the option calls whose target is outside '
        'the state_dict re-applied (hard / gumbel / disable flags, SuperNet temperature, discrete_cost, train_* flags), strict '
        'load, one forward. Options that are themselves persisted (the MPS temperature buffer) are NOT re-applied. The '
        'literal reading (nothing re-applied) is run next to it; its differences are the by-design configuration findings.']
    chk.prove()
    rng = chk.rng
    # ---- cases
    n_hist = 4 if chk.quick else 120
    items = []

    def add(spec, hist, fresh_obs=None):
        if fresh_obs is None:
            fresh_obs = [rng.choice(OBSERVER_CALLS) for _ in range(rng.choice([0, 0, 1, 2]))]
        items.append({'spec': spec, 'history': [list(o) for o in hist], 'obs_seed': rng.randrange(1 << 16),
                      'fresh_obs': fresh_obs})
    for kind in om.KINDS:
        method = om.METHOD[kind]
        # fixed histories: every option the quantifier names is changed once, between optimizer steps
        if method == 'pit':
            spec = om.random_spec(rng, kind)
            add(spec, [('init', 1), ('train', 2), ('opt', 'discrete_cost', not spec['discrete_cost']), ('train', 3)])
        elif method == 'mps':
            spec = om.random_spec(rng, kind)
            # the sampled coefficients matter once sampling is disabled
            add(spec, [('init', 1), ('train', 2), ('opt', 'disable', True), ('train', 3), ('mode', rng.randrange(2))])
            spec = om.random_spec(rng, kind)
            add(spec, [('init', 1), ('train', 2), ('opt', 'hard', not spec['hard']), ('train', 3)])
            spec = om.random_spec(rng, kind)
            add(spec, [('init', 1), ('opt', 'gumbel', not spec['gumbel']), ('train', 2), ('opt', 'temperature', 2), ('mode', 1)])
            # temperature annealing: constructor temperature written as a Python int, annealed to a non-integer value
            # before the checkpoint, observed in training mode with soft sampling
            for t0 in (5, 1):
                spec = om.random_spec(rng, kind, hard=False, gumbel=False, temperature=t0)
                add(spec, [('init', 1), ('mode', 1), ('train', 2), ('opt', 'temperature', 3), ('train', 3),
                           ('opt', 'temperature', 1 if t0 == 1 else 3), ('train', 4)])
        else:
            spec = om.random_spec(rng, kind, hard=False)
            add(spec, [('init', 1), ('opt', 'temperature', 1), ('train', 2), ('train', 4)])
            spec = om.random_spec(rng, kind)
            add(spec, [('init', 1), ('train', 2), ('opt', 'hard', not spec['hard']), ('train', 4)])
        add(om.random_spec(rng, kind), gen_history(rng, method, n_train=0))     # checkpoint of an untrained wrapper
        # observer calls on exactly one side: the architecture is logged / exported before checkpointing and the
        # fresh wrapper is loaded untouched; and the reverse
        add(om.random_spec(rng, kind), [('init', 1), ('train', 2), ('obs', 'summary'), ('train', 3), ('obs', 'export'),
                                        ('obs', 'str'), ('obs', 'get_cost')], fresh_obs=[])
        add(om.random_spec(rng, kind), [('init', 1), ('train', 2), ('train', 3)], fresh_obs=['summary', 'export', 'cost'])
        for j in range(n_hist):
            force = {'temperature': rng.choice(CTOR_TEMPS)} if method == 'mps' else {}
            add(om.random_spec(rng, kind, **force), gen_history(rng, method))
    tv_items = [{'spec': om.random_spec(rng, kind)} for kind in om.KINDS for _ in range(1 if chk.quick else 4)]
    results = common.pmap(run_case, items)
    tvs = common.pmap(table_vs_runtime, tv_items)
    # ---- model side
    lines, meta = [], []
    for it, r in zip(items, results):
        mo = model_ops(it['spec'], [tuple(o) for o in it['history']], r['classes'])
        for proto in ('R', 'L'):
            lines.append('resume proto=%s ops=[%s] pre=[%s]' % (proto, ','.join(mo), ','.join('o' for _ in it['fresh_obs'])))
            meta.append(('resume', it, r, proto))
    tab = fieldtable.by_class(rows)
    kind_q = {}
    for tv in tvs:
        for cn, k, v in tv['seen']:
            if v['foreign'] is None:
                kind_q.setdefault((cn, k), v)
        for cn, k in tv['calc']:
            kind_q.setdefault((cn, k), {'runtime': 'outside', 'foreign': None, 'fresh_equal': True})
    for (cn, k) in sorted(kind_q):
        lines.append('kind %s.%s' % (cn, k))
        meta.append(('kind', cn, k))
    model = chk.driver('C17', lines) if not any('lake build' in b for b in chk.proof_broken) else None
    if model is None:
        chk.proof_broken.append('driver not run: the library does not build')
        model = [None] * len(lines)
    # ---- compare
    for m, ans in zip(meta, model):
        if ans is None:
            continue
        if m[0] == 'kind':
            _, cn, k = m
            v = kind_q[(cn, k)]
            real = v['runtime'] if v['runtime'] != 'nbuf' else 'outside'
            chk.corr({'class': cn, 'attribute': k}, real, _kind_class(ans),
                     'registration of an attribute on the running object vs the extracted table')
            chk.count(('kind', cn, k), nontrivial=real != 'outside' or ans.split()[0] != 'ctor',
                      bucket='table:' + ans.split()[0])
            tk = ans.split()[0]
            if tk in ('ctor', 'config') and not v['fresh_equal']:
                chk.corr({'class': cn, 'attribute': k, 'check': 'two fresh wrappers'}, 'differs', 'equal',
                         'constructor/config field differs between two wrappers built alike')
        else:
            _, it, r, proto = m
            ans = _sorted_diff(ans)
            real = r['real'][proto]
            keys = 'ok' if real['status'] == 'ok' and r['real']['keys_equal_fresh'] else 'bad'
            b = lambda x: 'eq' if x else 'ne'
            if proto == 'R':
                rs = 'keys=%s ckpt=%s diff=[%s] rec=%s pers=%s obs=%s' % (keys, b(real['ckpt_eq']), ','.join(real['diff']),
                                                                          b(real['rec_eq']), b(real['state_eq']),
                                                                          b(real['obs_eq']))
                chk.corr({'spec': it['spec'], 'history': it['history'], 'fresh_obs': it['fresh_obs'], 'proto': 'R'}, rs, ans,
                         'fields differing after load / equality after one forward, protocol R')
            else:
                # after the forward the literal resume may or may not differ (mode, hardening); the
                # model's claim is one-sided: a real difference must be predicted
                pre = ans.split(' rec=')[0]
                rs = 'keys=%s ckpt=%s diff=[%s]' % (keys, b(real['ckpt_eq']), ','.join(real['diff']))
                chk.corr({'spec': it['spec'], 'history': it['history'], 'fresh_obs': it['fresh_obs'], 'proto': 'L'}, rs, pre,
                         'fields differing after load, literal reading')
                if not real['obs_eq'] and ans.endswith('obs=eq'):
                    chk.corr({'spec': it['spec'], 'history': it['history'], 'proto': 'L', 'check': 'obs'},
                             'obs=ne', 'obs=eq', 'literal resume differs where the model predicts equality')
            nontriv = any(o[0] in ('train', 'opt') for o in it['history'])
            chk.count((json.dumps(it['spec'], sort_keys=True), json.dumps(it['history']), json.dumps(it['fresh_obs']), proto),
                      nontrivial=nontriv,
                      sample={'spec': it['spec'], 'history': it['history'], 'proto': proto, 'impl': real},
                      bucket='%s:%s' % (it['spec']['kind'], proto))
    for it, r in zip(items, results):
        if r['real']['train_touches_frozen']:
            chk.corr({'spec': it['spec'], 'history': it['history'], 'check': 'train leaves config/ctor fields'},
                     'changed:%s' % r['real']['train_touches_frozen'][:3], 'unchanged',
                     'a training step wrote a configuration / constructor field')
        for v in r['violations']:
            chk.violation(v['key'], v['what'], v['case'])
        n_tr = sum(1 for o in it['history'] if o[0] == 'train')
        chk.hist['train_steps=%d' % n_tr] = chk.hist.get('train_steps=%d' % n_tr, 0) + 1
        for o in it['history']:
            if o[0] in ('opt', 'obs'):
                chk.hist[o[0] + ':' + o[1]] = chk.hist.get(o[0] + ':' + o[1], 0) + 1
        for o in it['fresh_obs']:
            chk.hist['fresh-side-obs:' + o] = chk.hist.get('fresh-side-obs:' + o, 0) + 1
    for tv in tvs:
        for cn, k, ok in tv['recomputed']:
            chk.corr({'class': cn, 'attribute': k, 'check': 'poisoned before forward'},
                     'overwritten' if ok else 'kept-or-depends-on-old-value', 'overwritten',
                     'a `recomputed` field is overwritten by forward whatever it held')
        for cn, k, v in tv['seen']:
            if v['foreign'] is not None:
                want = 'pbuf'
                chk.corr({'class': cn, 'attribute': k, 'registered_by': 'features calculator'}, v['runtime'], want,
                         'calculator buffer registered on a layer is persistent')
    stale = {}
    for it, r in zip(items, results):
        v = r['real'].get('cost_before_forward_eq')
        if v is not None:
            m = om.METHOD[it['spec']['kind']]
            stale.setdefault(m, [0, 0])
            stale[m][0 if v else 1] += 1
    chk.extra['cost_right_after_load_before_forward'] = {m: {'equal': a, 'differs': b} for m, (a, b) in stale.items()}
    for m, (a, b) in sorted(stale.items()):
        if b:
            chk.observe('%s: right after load_state_dict and before any forward, the cost of the resumed wrapper differs from '
                        'the checkpointed one in %d of %d histories (sampled coefficients recomputed by forward are not in '
                        'the state_dict); after the usual forward pass they agree' % (m, b, a + b))
    needed = sorted({g for r in results for g in r['real'].get('L', {}).get('needed', [])})
    chk.extra['literal_reading_config_attributes'] = needed
    if needed:
        chk.observe('literal reading (configuration not re-applied): observations differ through %s' % needed)
    # ---- escalation: a broken proof / correspondence widens the search for a failing resume
    broken = bool(chk.proof_broken or chk.corr_disagreements)
    if broken and not any(not v['key'].startswith('C17:config-outside') for v in chk.violations):
        extra_items = []
        for kind in om.KINDS:
            for j in range(12 if chk.quick else 40):
                spec = om.random_spec(rng, kind)
                hist = gen_history(rng, om.METHOD[kind], n_train=rng.randint(1, 5))
                extra_items.append({'spec': spec, 'history': [list(o) for o in hist], 'obs_seed': rng.randrange(1 << 16),
                                    'fresh_obs': [rng.choice(OBSERVER_CALLS) for _ in range(rng.choice([0, 1, 2]))]})
        for it, r in zip(extra_items, common.pmap(run_case, extra_items)):
            for v in r['violations']:
                chk.violation(v['key'], v['what'], v['case'])
            chk.count((json.dumps(it['spec'], sort_keys=True), json.dumps(it['history']), 'esc'), bucket='escalated')


def replay(data):
    common.use_repo_on_path()
    case = data['case']
    r = run_case({'spec': case['spec'], 'history': case['history'], 'obs_seed': case['obs_seed'],
                  'fresh_obs': case.get('fresh_obs') or []})
    print(json.dumps(r['real'], indent=1, default=str))
    keys = [v['key'] for v in r['violations']]
    for v in r['violations']:
        print('VIOLATES', v['key'], '-', v['what'])
    return 1 if data.get('key') in keys else 0
