"""Layer-level probes of the PIT maskers and of the Conv1d time mask (C01, C08, C12): real
`PITFeaturesMasker` / `PITConv1d` objects vs `Drivers/PITTime.lean`, exact rationals."""
import warnings
from fractions import Fraction

import torch
import torch.nn as nn

# parameter palettes: every sum of a vector drawn from ONE palette is exact in float32
PAL_DYADIC = [0, 0, 1, 1, 1 / 8, -1 / 8, 1 / 4, 3 / 8, -1 / 2, 1 / 2, 5 / 8, 2, -3]
PAL_THRESH = [0, 0, 1 / 2, 1 / 2 + 2 ** -10, 1 / 2 - 2 ** -10, 2 ** -10, 1 / 4]
# adversarial magnitudes: only discrete outcomes are compared (float sums absorb small terms)
PAL_HUGE = [0, 0, 1e30, -1e30, 1]
PAL_TINY = [0, 0, 2 ** -30, -2 ** -30, 2 ** -29]


def gamma_len(K):
    import math
    return max(math.ceil(math.log(K, 2)), 1)


def frac(v):
    return str(Fraction(float(torch.tensor(v, dtype=torch.float32))))


def shape_vectors(K, a, t, rng, canonical):
    """beta, gamma (python floats) whose binarised masks have shape (a, t): receptive field
    keeps taps j >= a, dilation comb 2^t."""
    L = gamma_len(K)
    if canonical:
        beta = [0.0] * K
        if a < K - 1:
            beta[a] = 1.0
        gamma = [0.0] * L
        if t < L - 1:
            gamma[t] = 1.0
        return beta, gamma
    beta = [rng.choice([0, 1 / 8, -1 / 8, 1 / 4]) if j < a else rng.choice(PAL_DYADIC) for j in range(K)]
    # keep the prefix sum below threshold before a, cross it at a
    s = 0.0
    for j in range(a):
        if s + abs(beta[j]) > 0.5:
            beta[j] = 0.0
        s += abs(beta[j])
    if a < K - 1:
        beta[a] = rng.choice([1.0, -1.0, 2.0, 5 / 8])
    gamma = [0.0 for _ in range(L)]
    for i in range(L):
        gamma[i] = 0.0 if i < t else rng.choice(PAL_DYADIC)
    if t < L - 1:
        gamma[t] = rng.choice([1.0, -3.0, 5 / 8])
    return beta, gamma


def real_time(K, d0, beta, gamma, cin=2, cout=2):
    """Real PITConv1d (built directly, no fx) with the given parameters."""
    warnings.filterwarnings('ignore')
    from plinio.methods.pit.nn import PITConv1d
    from plinio.methods.pit.nn.features_masker import PITFeaturesMasker
    from plinio.methods.pit.nn.timestep_masker import PITTimestepMasker
    from plinio.methods.pit.nn.dilation_masker import PITDilationMasker
    conv = nn.Conv1d(cin, cout, K, dilation=d0)
    layer = PITConv1d(conv, PITFeaturesMasker(cout), PITTimestepMasker(K), PITDilationMasker(K))
    with torch.no_grad():
        layer.timestep_masker.beta.copy_(torch.tensor(beta, dtype=torch.float32))
        layer.dilation_masker.gamma.copy_(torch.tensor(gamma, dtype=torch.float32))
    return layer


def real_answer(layer, d0, exact_theta=True):
    """Canonical answer string in the format of the Lean driver's `tmask` (without keffc)."""
    tb = layer.timestep_masker.theta.detach()
    tg = layer.dilation_masker.theta.detach()
    m = layer.time_mask
    k = layer.kernel_size_opt[0]
    d = layer.dilation_opt[0]
    kept = [j for j, b in enumerate(m) if b > 0]
    s = 'L=%d ' % layer.dilation_masker.gamma.numel()
    if exact_theta:
        s += 'tb=[%s] tg=[%s] ' % (','.join(str(Fraction(float(v))) for v in tb),
                                    ','.join(str(Fraction(float(v))) for v in tg))
    s += 'mask=[%s] k=%d d=%d pad=%d kept=[%s]' % (','.join(str(int(b)) for b in m), k, d, (k - 1) * d,
                                                   ','.join(map(str, kept)))
    return s


def model_answer(ans, exact_theta=True):
    """Project the driver's answer onto the fields `real_answer` reports."""
    toks = dict(t.split('=', 1) for t in ans.split())
    s = 'L=%s ' % toks.get('L')
    if exact_theta:
        s += 'tb=%s tg=%s ' % (toks.get('tb'), toks.get('tg'))
    s += 'mask=%s k=%s d=%s pad=%s kept=%s' % (toks.get('mask'), toks.get('k'), toks.get('d'), toks.get('pad'), toks.get('kept'))
    return s, toks


def line(K, d0, beta, gamma):
    return 'tmask K=%d d0=%d beta=[%s] gamma=[%s]' % (K, d0, ','.join(frac(v) for v in beta), ','.join(frac(v) for v in gamma))


def single_layer_export(args):
    """A one-layer causal Conv1d network through the real PIT import/export (worker function).
    Returns what export built (ID-probed taps, kernel, dilation, padding) and the eval-vs-export
    difference."""
    K, d0, beta, gamma, seed = args
    warnings.filterwarnings('ignore')
    torch.set_num_threads(1)
    import contextlib
    import io
    from plinio.methods import PIT
    torch.manual_seed(seed)

    stride = 1 + seed % 2
    T_out = (10 - 1) // stride + 1

    class Net(nn.Module):
        def __init__(self):
            super().__init__()
            self.pad = nn.ConstantPad1d(((K - 1) * d0, 0), 0.)
            self.c = nn.Conv1d(2, 3, K, dilation=d0, stride=stride)
            self.fc = nn.Linear(3 * T_out, 2)

        def forward(self, x):
            return self.fc(torch.flatten(torch.relu(self.c(self.pad(x))), 1))
    out = {'K': K, 'd0': d0}
    with contextlib.redirect_stderr(io.StringIO()):
        try:
            net = Net().eval()
            pit = PIT(net, input_shape=(2, 10)).eval()
            layer = pit.seed.c
            with torch.no_grad():
                layer.timestep_masker.beta.copy_(torch.tensor(beta, dtype=torch.float32))
                layer.dilation_masker.gamma.copy_(torch.tensor(gamma, dtype=torch.float32))
            x = torch.randn(3, 2, 10)
            with torch.no_grad():
                y = pit(x)
                e = pit.export().eval()
                ye = e(x)
            out['diff'] = None if (y.shape == ye.shape and float((y - ye).abs().max()) <= 2e-4 * max(1.0, float(y.abs().max()))) \
                else ('shape %s vs %s' % (tuple(y.shape), tuple(ye.shape)) if y.shape != ye.shape else 'max abs diff %.3g' % float((y - ye).abs().max()))
            out['summary'] = (pit.summary()['c']['kernel_size'], pit.summary()['c']['dilation'])
            # integer execution: small integer weights, bias and input; the outputs of the PIT layer and of
            # the exported Conv1d (captured by hooks) are exact integers, compared with the executable
            # model functions maskedConvAt / exportedConvAt (Drivers/PITTime.lean `conv`)
            import random as _r
            rg = _r.Random(seed)
            with torch.no_grad():
                wi = torch.tensor([rg.randint(-3, 3) for _ in range(layer.weight.numel())], dtype=torch.float32).reshape(layer.weight.shape)
                bi = torch.tensor([float(rg.randint(-2, 2)) for _ in range(3)])
                layer.weight.copy_(wi)
                layer.bias.copy_(bi)
                xi = torch.tensor([[[float(rg.randint(-3, 3)) for _ in range(10)] for _ in range(2)]])
                cap = {}
                h1 = layer.register_forward_hook(lambda m, i, o: cap.__setitem__('pit', o.detach().clone()))
                pit(xi)
                h1.remove()
                ei = pit.export().eval()
                h2 = ei.c.register_forward_hook(lambda m, i, o: cap.__setitem__('exp', o.detach().clone()))
                ei(xi)
                h2.remove()
            out['int'] = {'stride': stride, 'T': T_out,
                          'w': [[int(v) for v in wi[co, ci]] for co in range(3) for ci in range(2)],
                          'b': [int(v) for v in bi], 'x': [[int(v) for v in xi[0, ci]] for ci in range(2)],
                          'pit': [[int(v) for v in cap['pit'][0, co]] for co in range(3)],
                          'exp': [[int(v) for v in cap['exp'][0, co]] for co in range(3)]}
            with torch.no_grad():
                w = layer.weight
                w.copy_(torch.arange(w.numel(), dtype=torch.float32).reshape(w.shape))
                ep = pit.export()
            ids = ep.c.weight.detach().long()
            out['taps'] = [int(v) % K for v in ids[0, 0, :]]
            out['k'] = ep.c.kernel_size[0]
            out['d'] = ep.c.dilation[0]
            out['pad'] = tuple(ep.pad.padding)
        except Exception as ex:
            out['error'] = '%s: %s' % (type(ex).__name__, str(ex)[:160])
    return out
