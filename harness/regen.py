"""Regeneration of lean/PlinioVerif/Gen/*.lean from /repo's working tree (translator leg)."""


def regenerate_all():
    return []
