"""Regeneration of lean/PlinioVerif/Gen/*.lean from the working tree under test (translator leg).

The tree is `common.REPO` (env PLINIO_SRC, default /repo).  Files are rewritten only when their
content changes, so that an unchanged tree costs a no-op `lake build`.

    regenerate_all()   -> [(file, error)]     called by `./check --setup`
    regenerate(names)  -> [(file, error)]     names among 'cost' (Gen/Ste.lean + Gen/Cost.lean),
                                              'reg' (Gen/Reg.lean)

A returned problem is a source construct outside the translated subset (TranslationError naming
file / function / line).  The function concerned is emitted as a stub so that everything else still
builds; the caller records the problem as a broken obligation, never as a violation by itself.
"""
import fcntl
import importlib.util
import os
import shutil

from . import common

GEN_DIR = os.path.join(common.LEAN_DIR, 'PlinioVerif', 'Gen')
GROUPS = {'cost': ['Ste.lean', 'Cost.lean'], 'reg': ['Reg.lean']}


def _translator():
    path = os.path.join(common.VERIF, 'translator', 'py2lean.py')
    spec = importlib.util.spec_from_file_location('plinio_verif_py2lean', path)
    mod = importlib.util.module_from_spec(spec)
    spec.loader.exec_module(mod)
    return mod


def _write_if_changed(path, text):
    try:
        with open(path) as fh:
            if fh.read() == text:
                return False
    except OSError:
        pass
    tmp = path + '.tmp%d' % os.getpid()
    with open(tmp, 'w') as fh:
        fh.write(text)
    os.replace(tmp, path)
    return True


def private_project_for_scratch_tree():
    """Development runs against a scratch copy of plinio (PLINIO_SRC set) must not rewrite the generated
    files of the shared Lean project (other checks build on them at the same time): they get a private
    copy of the project, build products included, under the scratch tree's output directory, and
    `common.LEAN_DIR` is pointed at it for the rest of the process."""
    global GEN_DIR
    if os.path.abspath(common.REPO) == '/repo':
        return
    shared = os.path.join(common.VERIF, 'lean')
    private = os.path.join(common.OUT, 'lean')
    if os.path.abspath(common.LEAN_DIR) != os.path.abspath(private):
        if not os.path.isdir(private):
            os.makedirs(common.OUT, exist_ok=True)
            with open(os.path.join(shared, '.lake.lock'), 'w') as lk:      # a consistent snapshot
                fcntl.flock(lk, fcntl.LOCK_EX)
                try:
                    shutil.copytree(shared, private, symlinks=True,
                                    ignore=shutil.ignore_patterns('.lake.lock', '.audit'))
                finally:
                    fcntl.flock(lk, fcntl.LOCK_UN)
        common.LEAN_DIR = private
    GEN_DIR = os.path.join(common.LEAN_DIR, 'PlinioVerif', 'Gen')


def regenerate(names, root=None):
    """Regenerate the named groups from `root`; returns the list of (generated file, error text)."""
    root = root or common.REPO
    private_project_for_scratch_tree()
    tr = _translator()
    os.makedirs(GEN_DIR, exist_ok=True)
    problems = []
    # the project lock also protects the generated sources (several checks may run at once)
    with open(os.path.join(common.LEAN_DIR, '.lake.lock'), 'w') as lk:
        fcntl.flock(lk, fcntl.LOCK_EX)
        try:
            for name in names:
                if name == 'cost':
                    files, errs = tr.generate_cost(root)
                elif name == 'reg':
                    files, errs = tr.generate_reg(root)
                else:
                    raise ValueError('unknown generated group %r' % name)
                for fname, text in files.items():
                    _write_if_changed(os.path.join(GEN_DIR, fname), text)
                for e in errs:
                    problems.append((GROUPS[name][-1], str(e)))
        finally:
            fcntl.flock(lk, fcntl.LOCK_UN)
    return problems


def regenerate_all():
    return regenerate(['cost', 'reg'])


def record(chk, problems):
    """Put translation problems into a Check as broken obligations."""
    for fname, err in problems:
        chk.proof_broken.append('translation (Gen/%s): %s' % (fname, err))
