"""Features-calculator trees (plinio/graph/features_calculation.py) against `Drivers/FeatCalc.lean`.

A tree is drawn in prefix form (`c n` | `a bits` | `f k tree` | `k n tree…`), built from the real classes
(ModAttr leaves read `out_features_eff` / `features_mask` of a small host module, as they do on a PIT layer
with a discrete cost), registered on a consumer module the way the PIT / MPS layers do it
(`calc.register(self)`: buffers named by the path), and evaluated: `features`, `features_mask`.  The same
line goes to the Lean model; the property's own clause (number of features == alive entries of the mask ==
what the tree structure says: sum across concat, product across flatten) is checked on the real objects."""
import random


def draw(rng, depth=0, max_depth=4):
    r = rng.random()
    if depth >= max_depth or r < .25 + .1 * depth:
        if rng.random() < .3:
            return ['c', str(rng.randint(1, 5))]       # (a tensor has at least one feature)
        n = rng.randint(1, 6)
        bits = ''.join(rng.choice('01') for _ in range(n))
        return ['a', bits]
    if r < .6:
        return ['f', str(rng.choice([1, 1, 2, 3, 4, 6]))] + draw(rng, depth + 1, max_depth)
    n = rng.choice([1, 2, 2, 3, 3, 4])
    out = ['k', str(n)]
    for _ in range(n):
        out += draw(rng, depth + 1, max_depth)
    return out


def draw_line(seed):
    rng = random.Random(seed)
    toks = draw(rng, 0, rng.choice([2, 3, 4, 5]))
    return ' '.join(toks), rng.random() < .3


def _build(toks, pos, hosts, shared):
    import torch
    import torch.nn as nn
    from plinio.graph.features_calculation import (ConstFeaturesCalculator, ModAttrFeaturesCalculator,
                                                   FlattenFeaturesCalculator, ConcatFeaturesCalculator)
    t = toks[pos]
    if t == 'c':
        return ConstFeaturesCalculator(int(toks[pos + 1])), pos + 2, int(toks[pos + 1])
    if t == 'a':
        bits = toks[pos + 1]
        key = bits if shared else (bits, pos)
        if key not in hosts:
            host = nn.Module()
            m = torch.tensor([float(b) for b in bits])
            host.features_mask = m
            host.out_features_eff = m.sum()
            # (one calculator object per producer, reused wherever the producer feeds: as add_features_calculator does)
            hosts[key] = ModAttrFeaturesCalculator(host, 'out_features_eff', 'features_mask')
        return hosts[key], pos + 2, bits.count('1')
    if t == 'f':
        k = int(toks[pos + 1])
        p, nxt, alive = _build(toks, pos + 2, hosts, shared)
        return FlattenFeaturesCalculator(p, k), nxt, alive * k
    if t == 'k':
        n = int(toks[pos + 1])
        pos += 2
        ins, alive = [], 0
        for _ in range(n):
            c, pos, a = _build(toks, pos, hosts, shared)
            ins.append(c)
            alive += a
        return ConcatFeaturesCalculator(ins), pos, alive
    raise ValueError(t)


def run_real(job):
    """(line, shared) -> dict(answer=..., structural=<alive count by the statement's rule>) on the real classes."""
    from . import common
    common.use_repo_on_path()
    import torch
    import torch.nn as nn
    line, shared = job
    toks = line.split()
    out = {'line': line, 'shared': shared}
    try:
        calc, end, alive = _build(toks, 0, {}, shared)
        assert end == len(toks)
        consumer = nn.Linear(1, 1)
        calc.register(consumer)
        calc.register(consumer)          # registering twice is a no-op (layers re-register on every setter call)
        if toks[0] == 'k' and toks[1] == '0':
            raise ValueError('empty concat')
        f = calc.features
        m = calc.features_mask
        bits = ''.join('1' if float(b) != 0 else '0' for b in m.reshape(-1).tolist())
        out['answer'] = 'feat=%d width=%d mask=%s' % (int(round(float(f))), len(bits), bits)
        out['integral'] = float(f) == int(round(float(f)))
        out['structural'] = alive
        # the buffers registered on the consumer survive a state_dict round trip / deepcopy with the same answer
        import copy
        c2 = copy.deepcopy(consumer)
        out['buffers'] = len(list(consumer.named_buffers()))
        out['deepcopy_ok'] = sorted(k for k, _ in c2.named_buffers()) == sorted(k for k, _ in consumer.named_buffers())
    except Exception as ex:       # noqa
        out['error'] = '%s: %s' % (type(ex).__name__, str(ex)[:200])
    return out
