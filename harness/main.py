"""Entry point:  ./check Cxx --tier quick|thorough   |   ./check Cxx --replay FILE   |   ./check --setup"""
import argparse
import importlib
import json
import os
import sys
import time
import traceback

from . import common


def setup():
    t0 = time.time()
    from . import regen
    regen.regenerate_all()
    try:        # field-classification table of C17 (Gen/Fields.lean)
        from . import fieldtable
        common.use_repo_on_path()
        fieldtable.regenerate(common.LEAN_DIR)
    except Exception as ex:
        print('setup: fieldtable regeneration failed: %s' % ex)
    rc, out = common.lake(['build'], timeout=7200)
    print(out[-3000:])
    print('setup: lake build rc=%d in %.0fs' % (rc, time.time() - t0))
    if rc not in (0, 1):
        return 2            # lake itself could not run: infrastructure
    if rc == 1:
        # some module did not build (e.g. a translated model no longer proves because /repo changed): lake has
        # built everything it could; the property checks report what is broken, setup is not the place to fail
        failed = [l for l in out.splitlines() if l.startswith('- ')]
        print('setup: modules with failures (reported by the checks that depend on them): %s' % failed)
    return 0


def main():
    ap = argparse.ArgumentParser()
    ap.add_argument('prop', nargs='?')
    ap.add_argument('--tier', default=os.environ.get('VERIF_TIER', 'quick'), choices=['quick', 'thorough'])
    ap.add_argument('--replay')
    ap.add_argument('--setup', action='store_true')
    a = ap.parse_args()
    if a.setup:
        sys.exit(setup())
    if not a.prop:
        ap.error('property id required')
    seed = int(os.environ.get('VERIF_SEED', '0') or 0)
    common.use_repo_on_path()
    mod = importlib.import_module('harness.props.' + a.prop.lower())
    if a.replay:
        data = json.load(open(a.replay))
        if 'case' not in data and 'no_longer_checks' in data:
            # a no-failing-input-found report: nothing to run on the implementation; name what no longer checks
            print('no failing input was found; the theorems / correspondences that no longer check:')
            for x in data['no_longer_checks']:
                print('  -', str(x)[:600])
            print('re-run ./check %s --tier %s with VERIF_SEED=%s to reproduce' % (a.prop if hasattr(a, 'prop') else data.get('property'), data.get('tier'), data.get('seed')))
            sys.exit(1)
        sys.exit(mod.replay(data))
    chk = common.Check(a.prop, a.tier, seed)
    try:
        mod.run(chk)
        rc = chk.finish()
    except common.InfraError as e:
        print('INFRA-ERROR %s: %s' % (a.prop, e))
        rc = 2
    except Exception:
        traceback.print_exc()
        print('INFRA-ERROR %s: harness crashed' % a.prop)
        rc = 2
    sys.exit(rc)


if __name__ == '__main__':
    main()
