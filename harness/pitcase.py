"""One generated PIT case, run on the real implementation (in a worker process): import, mask
assignments, eval-vs-export oracle, ID-probing of the export, costs, bookkeeping rows.  The
property checks C01/C04/C07/C08/C09 pick what they need from the returned dictionary and send
`request` lines to `Drivers/PITNet.lean`."""
import random
import traceback
import warnings

import torch
import torch.nn as nn

from . import pitgen

TOL = 2e-4


def _allclose(a, b):
    if a.shape != b.shape:
        return 'shape %s vs %s' % (tuple(a.shape), tuple(b.shape))
    d = float((a - b).abs().max())
    scale = max(1.0, float(a.abs().max()))
    return None if d <= TOL * scale else 'max abs diff %.3g (scale %.3g)' % (d, scale)


def scratch_cost(model, spec, example_inputs, skip=(), lookup_vars=None):
    """A cost metric computed from scratch on a plain network: cost-spec look-up over its leaf
    conv/linear modules with their traced output shapes (unique modules for shared metrics)."""
    import torch.fx as fx
    from torch.fx.passes.shape_prop import ShapeProp
    gm = fx.symbolic_trace(model)
    ShapeProp(gm).propagate(*example_inputs)
    total = 0.0
    seen = set()
    for n in gm.graph.nodes:
        if n.op != 'call_module':
            continue
        layer = gm.get_submodule(str(n.target))
        if not isinstance(layer, (nn.Conv1d, nn.Conv2d, nn.Linear)):
            continue
        if str(n.target) in skip:
            continue
        if spec.shared and str(n.target) in seen:
            continue
        seen.add(str(n.target))
        v = dict(vars(layer))
        v['output_shape'] = n.meta['tensor_meta'].shape
        fn = spec[(type(layer), (lookup_vars or {}).get(str(n.target), v))]
        total += float(fn(v))
    return total


def _folded_bias(prog, layers, fold):
    """Biases that BatchNorm folding creates on bias-free layers (they are real parameters of the
    imported and of the exported network, absent from the user's model)."""
    if not fold:
        return 0
    extra = 0
    for i, l in layers.items():
        m = prog[i][-1]
        if m.bias is None and l.bias is not None:
            extra += l.bias.numel()
    return extra


def numel_params(model):
    return sum(p.numel() for m in model.modules() if isinstance(m, (nn.Conv1d, nn.Conv2d, nn.Linear))
               for p in m.parameters(recurse=False))


def id_probe(pit, layers):
    """Overwrite every PIT layer's weight with unique identifiers; returns {node: (Cout, Cin_g, K)}."""
    dims = {}
    with torch.no_grad():
        for i, layer in layers.items():
            w = layer.weight
            n = w.numel()
            assert n < (1 << 24)
            w.copy_(torch.arange(n, dtype=torch.float32).reshape(w.shape))
            dims[i] = tuple(w.shape)
    return dims


def read_probe(exported, name, dims):
    """Decode the exported weight of layer `name` into (out kept, in kept, taps kept) or 'irregular'."""
    try:
        m = exported.get_submodule(name)
    except AttributeError:
        return None
    w = m.weight.detach()
    ids = w.reshape(w.shape[0], w.shape[1] if w.dim() > 1 else 1, -1).long()
    co_n, ci_n = dims[0], (dims[1] if len(dims) > 1 else 1)
    kk = 1
    for d in dims[2:]:
        kk *= d
    co = ids // (ci_n * kk)
    ci = (ids // kk) % ci_n
    k = ids % kk
    okept = [int(v) for v in co[:, 0, 0]] if ids.numel() else []
    ikept = [int(v) for v in ci[0, :, 0]] if ids.numel() else []
    tkept = [int(v) for v in k[0, 0, :]] if ids.numel() else []
    regular = bool(ids.numel()) and bool((co == co[:, :1, :1]).all() and (ci == ci[:1, :, :1]).all() and (k == k[:1, :1, :]).all())
    return {'okept': okept, 'ikept': ikept, 'tkept': tkept, 'regular': regular,
            'shape': tuple(w.shape), 'groups': getattr(m, 'groups', 1),
            'dilation': tuple(getattr(m, 'dilation', ())), 'kernel_size': tuple(getattr(m, 'kernel_size', ())),
            'in': getattr(m, 'in_channels', getattr(m, 'in_features', None)),
            'out': getattr(m, 'out_channels', getattr(m, 'out_features', None))}


def run_case(spec):
    """spec: dict(seed, dim, opts, fold_bn, excl_mode, styles, full_cost, train_mode)."""
    import contextlib
    import io
    with contextlib.redirect_stderr(io.StringIO()):     # torch.fx prints tracebacks of failing calls
        return _run_case(spec)


def _run_case(spec):
    warnings.filterwarnings('ignore')
    torch.set_num_threads(1)
    from plinio.methods import PIT
    from plinio.methods.pit.nn.features_masker import PITFrozenFeaturesMasker
    from plinio.cost import params, ops
    import plinio.cost as pcost
    seed = spec['seed']
    rng = random.Random(seed)
    torch.manual_seed(seed)
    res = {'spec': spec, 'assign': []}
    try:
        dim = spec['dim']
        prog, in_shapes = pitgen.gen_program(rng, dim, spec.get('opts'))
        net = pitgen.build_net(prog, len(in_shapes))
        pitgen.randomize_bn(net, rng)
        names, types, excl = pitgen.choose_exclusions(prog, rng, spec.get('excl_mode'))
        res['prog'] = pitgen.prog_summary(prog)
        res['excl'] = sorted(excl)
        train_mode = bool(spec.get('train_mode'))
        net.train(train_mode)
        xs = [torch.randn((2,) + s) for s in in_shapes]
        net.eval()
        with torch.no_grad():
            y0 = pitgen.merge_out(net(*xs))
        net.train(train_mode)
        shapes_rec = pitgen.shapes_of(net, in_shapes)
        net.train(train_mode)
        state0 = {k: v.clone() for k, v in net.state_dict().items()}
        cost_specs = {'params': params, 'ops': ops}
        for extra in spec.get('extra_costs', ()):
            cost_specs[extra] = getattr(pcost, extra)
        fold = bool(spec.get('fold_bn'))
        full = bool(spec.get('full_cost'))
        # (the example used for shape propagation has 1..5 samples: costs depend on the architecture only)
        nb = 1 + seed % 5 if seed % 3 else 1
        example = tuple(torch.randn((nb,) + s) for s in in_shapes)
        kw = dict(cost=cost_specs, fold_bn=fold, discrete_cost=True, full_cost=full,
                  exclude_names=names, exclude_types=types)
        if len(in_shapes) == 1 and seed % 3 == 0:
            kw['input_shape'] = in_shapes[0]
        elif len(in_shapes) == 1:
            kw['input_example'] = example[0]
        else:
            kw['input_example'] = example
        try:
            pit = PIT(net, **kw)
        except Exception as ex:
            res['construct_error'] = '%s: %s' % (type(ex).__name__, str(ex)[:160])
            return res
        res['mode_after_import'] = {'wrapper': pit.training, 'seed': pit.seed.training, 'expected': train_mode,
                                    'modules_off': [n for n, m in pit.named_modules() if m.training != train_mode][:5]}
        if not train_mode:
            # the model was handed over in eval mode and the wrapper reports eval mode: it must compute the
            # model's function as it stands, without another .eval()
            try:
                with torch.no_grad():
                    res['import_diff_as_returned'] = _allclose(y0, pitgen.merge_out(pit(*xs)))
            except Exception:
                pass
        changed = [k for k, v in net.state_dict().items() if k in state0 and not torch.equal(v, state0[k])]
        res['user_params_changed'] = changed
        pit.eval()
        layers = {int(n[1:]): l for n, l in pit.seed.named_modules()
                  if hasattr(l, 'out_features_masker') and n.startswith('n') and n[1:].isdigit()}
        # ---------------------------------------------------------------- import (C07)
        try:
            with torch.no_grad():
                y1 = pitgen.merge_out(pit(*xs))
        except Exception as ex:
            res['construct_error'] = 'first forward: %s: %s' % (type(ex).__name__, str(ex)[:160])
            return res
        res['import_diff'] = _allclose(y0, y1)
        try:
            with torch.no_grad():
                e0 = pit.export().eval()
                pitgen.copy_bn_stats(pit, e0)
                res['export0_diff'] = _allclose(y0, pitgen.merge_out(e0(*xs)))
        except Exception as ex:
            res['construct_error'] = 'export() right after import: %s: %s' % (type(ex).__name__, str(ex)[:160])
            return res
        arch0 = []
        for i, ins in enumerate(prog):
            if ins[0] in ('conv', 'dw', 'lin'):
                m, em = ins[-1], e0.get_submodule('n%d' % i)
                a = tuple(m.weight.shape) + tuple(getattr(m, 'dilation', ())) + tuple(getattr(m, 'stride', ()))
                b = tuple(em.weight.shape) + tuple(getattr(em, 'dilation', ())) + tuple(getattr(em, 'stride', ()))
                if a != b:
                    arch0.append((i, a, b))
        res['export0_arch_diff'] = arch0
        # initial cost: continuous = discrete = cost of the original model
        init = {}
        for cname, cs in cost_specs.items():
            pit.discrete_cost = False
            cc = float(pit.get_cost(cname))
            pit.discrete_cost = True
            dc = float(pit.get_cost(cname))
            skip = () if full else ['n%d' % i for i in excl]
            fb = _folded_bias(prog, layers, fold)
            try:
                # a bias created by BatchNorm folding is a parameter of the imported network that the
                # user's model does not have: the reference is then the network exported at once
                ref = scratch_cost(net if fb == 0 else e0, cs, [x[:1] for x in xs], skip)
            except Exception as ex:
                ref = 'error %s: %s' % (type(ex).__name__, str(ex)[:120])
            init[cname] = {'continuous': cc, 'discrete': dc, 'seed_model': ref, 'folded_bias': fb}
        res['init_cost'] = init
        # ---------------------------------------------------------------- mask assignments
        snap = {k: v.clone() for k, v in pit.seed.state_dict().items()}
        for style in spec.get('styles', ['mixed']):
            a = {'style': style}
            pit.seed.load_state_dict(snap)
            pitgen.set_masks(pit, rng, style)
            maskers = {}
            for i, l in layers.items():
                maskers.setdefault(id(l.out_features_masker), []).append(i)
            grp = {i: min(idxs) for idxs in maskers.values() for i in idxs}
            rows, alphas, layer_info = [], [], {}
            for i in sorted(layers):
                l = layers[i]
                m = l.out_features_masker
                frozen = isinstance(m, PITFrozenFeaturesMasker)
                om = ''.join(str(int(b)) for b in l.features_mask)
                im = ''.join(str(int(b)) for b in l.input_features_calculator.features_mask)
                rows.append({'node': i, 'out': om, 'in': im, 'frozen': int(frozen), 'grp': grp[i]})
                alphas.append('%d=%s' % (i, pitgen.frac_list(torch.ones_like(m.alpha) if frozen else m.alpha)))
            for i, ins in enumerate(prog):
                if ins[0] in ('conv', 'dw', 'lin'):
                    m = ins[-1]
                    l = layers.get(i)
                    if ins[0] == 'lin':
                        k = 1
                    elif l is not None and isinstance(l, nn.Conv1d):
                        k = l.kernel_size_opt[0]
                    else:
                        k = 1
                        for kk in m.kernel_size:
                            k *= kk
                    has_bias = (l.bias is not None) if l is not None else (m.bias is not None)
                    layer_info[i] = (k, int(has_bias))
            a['rows'] = rows
            tinfo = {}
            for i, l in layers.items():
                if isinstance(l, nn.Conv1d):
                    tinfo[i] = {'K': l.kernel_size[0], 'd0': l.dilation[0], 'stride': l.stride[0],
                                'beta': pitgen.frac_list(l.timestep_masker.beta),
                                'gamma': pitgen.frac_list(l.dilation_masker.gamma),
                                'frozen': not isinstance(l.timestep_masker.beta, nn.Parameter)}
            a['time'] = tinfo
            rendered = pitgen.render(prog, shapes_rec, excl, layer_info)
            if rendered is not None:
                a['request'] = '%s|%s|full=%d' % (rendered, ';'.join(alphas), int(full))
            # the train_* switches must not influence what is evaluated or exported
            flags = spec.get('flags')
            if flags == 'random':
                a['flags'] = {k: rng.random() < .5 for k in ('train_features', 'train_rf', 'train_dilation')}
                for k, v in a['flags'].items():
                    setattr(pit, k, v)
            # oracle: eval vs export
            try:
                with torch.no_grad():
                    y2 = pitgen.merge_out(pit(*xs))
                    e = pit.export().eval()
                    pitgen.copy_bn_stats(pit, e)
                    y3 = pitgen.merge_out(e(*xs))
                a['export_diff'] = _allclose(y2, y3)
                a['out_shape_ok'] = tuple(y3.shape) == tuple(y0.shape)
            except Exception as ex:
                a['export_error'] = '%s: %s' % (type(ex).__name__, str(ex)[:200])
                a['assign_done'] = False
                res['assign'].append(a)
                continue
            # summary vs exported sizes (C08), sizes >= 1
            summ = pit.summary()
            bad = []
            for i, l in layers.items():
                em = e.get_submodule('n%d' % i)
                s = summ['n%d' % i]
                eo = getattr(em, 'out_channels', getattr(em, 'out_features', None))
                ei = getattr(em, 'in_channels', getattr(em, 'in_features', None))
                if (s['in_features'], s['out_features']) != (ei, eo):
                    bad.append((i, 'features', (s['in_features'], s['out_features']), (ei, eo)))
                if isinstance(em, nn.Conv1d):
                    if tuple(s['kernel_size']) != tuple(em.kernel_size) or tuple(s['dilation']) != tuple(em.dilation):
                        bad.append((i, 'kernel/dilation', (s['kernel_size'], s['dilation']), (em.kernel_size, em.dilation)))
                    if em.kernel_size[0] < 1 or em.dilation[0] < 1:
                        bad.append((i, 'degenerate', em.kernel_size, em.dilation))
                if eo < 1 or ei < 1:
                    bad.append((i, 'empty', ei, eo))
            a['summary_vs_export'] = bad
            a['min_sizes'] = {i: (layers[i].out_features_opt, layers[i].in_features_opt) for i in layers}
            # costs (C04)
            costs = {}
            for cname, cs in cost_specs.items():
                pit.discrete_cost = True
                try:
                    c = float(pit.get_cost(cname))
                except Exception as ex:
                    costs[cname] = {'error': '%s: %s' % (type(ex).__name__, str(ex)[:120])}
                    continue
                # without full_cost only the searchable layers are charged
                skip = () if full else ['n%d' % i for i in excl]
                try:
                    ref = scratch_cost(e, cs, [x[:1] for x in xs], skip)
                except Exception as ex:
                    ref = 'error %s: %s' % (type(ex).__name__, str(ex)[:120])
                costs[cname] = {'pit': c, 'export': ref}
                if not isinstance(ref, str) and ref != c:
                    # same computation, but every layer classified (generic / depthwise) as its seed layer was
                    try:
                        lv = {'n%d' % i: dict(vars(ins[-1])) for i, ins in enumerate(prog) if ins[0] in ('conv', 'dw', 'lin')}
                        costs[cname]['export_seed_kind'] = scratch_cost(e, cs, [x[:1] for x in xs], skip, lv)
                    except Exception:
                        pass
            # the same metrics with the specification assigned (as a single spec) on the pruned model
            for cname, cs in cost_specs.items():
                if 'error' in costs[cname]:
                    continue
                try:
                    pit.cost_specification = cs
                    costs[cname]['pit_single'] = float(pit.get_cost())
                except Exception as ex:
                    costs[cname]['pit_single'] = 'error %s: %s' % (type(ex).__name__, str(ex)[:120])
            pit.cost_specification = cost_specs
            costs['numel_export'] = numel_params(e)

            a['costs'] = costs
            # ID-probing of the export plan
            dims = id_probe(pit, layers)
            with torch.no_grad():
                ep = pit.export()
            plan = {}
            for i in sorted(layers):
                plan[i] = read_probe(ep, 'n%d' % i, dims[i])
                if isinstance(layers[i], nn.Conv1d):
                    pad = None
                    src = prog[i][1]
                    if prog[src][0] == 'pad':
                        try:
                            pad = tuple(ep.get_submodule('n%d' % src).padding)
                        except AttributeError:
                            pad = None
                        try:        # a padded tensor shared with other layers: export gives the layer a pad of its own
                            pad = tuple(ep.get_submodule('n%d_pad' % i).padding)
                        except AttributeError:
                            pass
                    plan[i]['pad'] = pad
                    plan[i]['k_opt'] = layers[i].kernel_size_opt[0]
                    plan[i]['d_opt'] = layers[i].dilation_opt[0]
                    plan[i]['time_mask'] = ''.join(str(int(b)) for b in layers[i].time_mask)
            a['plan'] = plan
            if spec.get('flags') == 'random':
                for k in ('train_features', 'train_rf', 'train_dilation'):
                    setattr(pit, k, True)
            # round trip: the exported network is itself a legal model: import it again, prune, export, compare
            if seed % 4 == 0 and style != 'open' and not a.get('export_error'):
                try:
                    kw2 = {'input_shape': in_shapes[0]} if len(in_shapes) == 1 else {'input_example': example}
                    with torch.no_grad():
                        e.eval()
                        # (grouped convolutions PIT does not convert stay excluded, as in the first import)
                        grouped = [nm for nm, m_ in e.named_modules() if isinstance(m_, (torch.nn.Conv1d, torch.nn.Conv2d))
                                   and m_.groups > 1 and not (m_.groups == m_.in_channels == m_.out_channels)]
                        pit2 = PIT(e, exclude_names=grouped, **kw2).eval()
                        pitgen.set_masks(pit2, rng, 'mixed')
                        z2 = pitgen.merge_out(pit2(*xs))
                        e2 = pit2.export().eval()
                        pitgen.copy_bn_stats(pit2, e2)
                        z3 = pitgen.merge_out(e2(*xs))
                    a['reimport_diff'] = _allclose(z2, z3)
                except Exception as ex:
                    a['reimport_error'] = '%s: %s' % (type(ex).__name__, str(ex)[:200])
            a['assign_done'] = True
            res['assign'].append(a)
    except Exception as ex:
        res['harness_error'] = '%s: %s' % (type(ex).__name__, str(ex)[:200])
        res['tb'] = traceback.format_exc().splitlines()[-8:]
    return res


def parse_model_answer(ans):
    """Answer of Drivers/PITNet.lean -> (head dict, {node: row dict})."""
    if ans.startswith('err:') or ans == 'bad-request':
        return {'err': ans}, {}
    parts = [p.strip() for p in ans.split('|')]
    head = dict(kv.split('=') for kv in parts[0].split())
    rows = {}
    for tok in parts[1:]:
        if not tok:
            continue
        n, rest = tok.split(':', 1)
        d = {}
        for kv in _split_top(rest):
            k, v = kv.split('=', 1)
            d[k] = v
        rows[int(n)] = d
    return head, rows


def _split_top(s):
    out, cur, depth = [], '', 0
    for c in s:
        if c == '[':
            depth += 1
        elif c == ']':
            depth -= 1
        if c == ',' and depth == 0:
            out.append(cur)
            cur = ''
        else:
            cur += c
    if cur:
        out.append(cur)
    return out


def partition(rows_grp):
    """{node: group id} -> canonical partition (sorted list of sorted lists)."""
    classes = {}
    for n, g in rows_grp.items():
        classes.setdefault(g, []).append(n)
    return sorted(sorted(v) for v in classes.values())
