"""Shared runner of the PIT network-level checks (C01, C04, C07, C08, C09): generates case specs
for a profile, runs them on the real implementation in a process pool (`pitcase.run_case`), sends
the same programs to `Drivers/PITNet.lean`, and offers the comparisons each property needs."""
import json

from . import common, pitcase


def specs_for(chk, n, profile):
    """profile: dict(excl=bool, unsupported=bool, two_inputs=bool, styles=[...], full_cost=bool|'mix',
    extra_costs=[...], train_mode=bool|'mix', dims=(1,2))"""
    rng = chk.rng
    out = []
    dims = profile.get('dims', (1, 2))
    for i in range(n):
        dim = dims[i % len(dims)]
        opts = {'squeeze': rng.random() < .15, 'two_inputs': profile.get('two_inputs', True) and rng.random() < .15,
                'tcat': profile.get('tcat', True)}
        if i % 8 == 5 and profile.get('two_outputs', True):
            opts['two_outputs'] = True
        if i % 13 == 9 and profile.get('variants', True):
            opts = {'mlp_res': True}
        if i % 9 == 7 and profile.get('variants', True):
            opts['shared_pad'] = True
        if i % 12 == 10 and profile.get('variants', True):
            opts['shared_bn'] = True
        if i % 11 == 8 and profile.get('variants', True):
            opts['reuse_dw'] = True
        if excl_hint(profile, i):
            opts['cat_tail'] = True
        if profile.get('excl') and i % 7 == 3:
            opts['fixed_cat'] = 'nested' if (i // 7) % 2 == 0 else True
        if profile.get('excl') and i % 10 == 6 and not opts.get('mlp_res'):
            opts['grouped_excl'] = True
        if profile.get('reuse') and i % 4 == 1:
            opts['reuse'] = 'pool' if (i // 4) % 2 == 0 else True     # 'pool': the two call sites at two resolutions
        if profile.get('unsupported') and i % profile.get('unsupported_every', 6) == 0 and not opts.get('fixed_cat'):
            opts['unsupported'] = ['add_cat', 'dw_cat', 'reuse_cat'][(i // profile.get('unsupported_every', 6)) % 3]
        excl = None
        if profile.get('excl') and (rng.random() < profile.get('p_excl', .35) or opts.get('cat_tail')):
            excl = rng.choice(['names', 'names', 'types', 'both']) if not opts.get('cat_tail') else rng.choice(['types', 'lastlin'])
        fc = profile.get('full_cost', False)
        tm = profile.get('train_mode', False)
        extra = list(profile.get('extra_costs', ()))
        if dim == 1:
            extra = [e for e in extra if e != 'gap8_latency']
        out.append({'seed': rng.randint(0, 1 << 30), 'dim': dim, 'opts': opts,
                    'fold_bn': rng.random() < .4, 'excl_mode': excl,
                    'styles': list(profile.get('styles', ['mixed', 'mixed', 'min'])),
                    'full_cost': (rng.random() < .5) if fc == 'mix' else bool(fc),
                    'train_mode': (rng.random() < .5) if tm == 'mix' else bool(tm),
                    'extra_costs': extra, 'flags': profile.get('flags')})
    return out


def excl_hint(profile, i):
    return bool(profile.get('excl')) and i % 5 == 2


def run_nets(chk, specs):
    """Returns list of (result, [(assignment, head, rows)]) with the model's answers attached."""
    results = common.pmap(pitcase.run_case, specs)
    lines, where = [], []
    for ri, r in enumerate(results):
        for ai, a in enumerate(r.get('assign', [])):
            if 'request' in a:
                lines.append(a['request'])
                where.append((ri, ai))
    answers = chk.driver('PITNet', lines) if lines else []
    model = {}
    for (ri, ai), ans in zip(where, answers):
        model[(ri, ai)] = pitcase.parse_model_answer(ans)
    out = []
    for ri, r in enumerate(results):
        out.append((r, [(a,) + model.get((ri, ai), ({'err': 'no-request'}, {})) for ai, a in enumerate(r.get('assign', []))]))
    return out


def case_id(r, a=None):
    return {'seed': r['spec']['seed'], 'dim': r['spec']['dim'], 'opts': r['spec']['opts'],
            'fold_bn': r['spec']['fold_bn'], 'excl_mode': r['spec']['excl_mode'],
            'full_cost': r['spec'].get('full_cost'), 'train_mode': r['spec'].get('train_mode'),
            'extra_costs': r['spec'].get('extra_costs'), 'styles': r['spec'].get('styles'),
            'flags': r['spec'].get('flags'), 'assign_flags': a.get('flags') if a else None,
            'prog': r.get('prog'), 'style': a.get('style') if a else None,
            'request': a.get('request') if a else None}


def is_dw(r, node):
    return r['prog'][node] == 'dw'


def bookkeeping_rows(r, a, head, rows):
    """Canonical (impl, model) strings of the feature bookkeeping of one assignment (C09):
    per searchable layer out mask, in mask, frozen; masker-sharing partition."""
    impl = [(x['node'], x['out'], x['in'], x['frozen']) for x in a['rows']]
    mod = [(n, d['out'], d['in'], int(d['frozen'])) for n, d in sorted(rows.items()) if d.get('masker') == '1']
    pi = pitcase.partition({x['node']: x['grp'] for x in a['rows']})
    pm = pitcase.partition({n: int(d['grp']) for n, d in rows.items() if d.get('masker') == '1'})
    return json.dumps([impl, pi]), json.dumps([mod, pm])


def plan_rows(r, a, head, rows):
    """Canonical (impl, model) strings of the export plan (C01/C09): kept output features, kept
    input features (non-depthwise), groups, exported in/out sizes — from ID-probing vs the model."""
    impl, mod = [], []
    for node in sorted(a.get('plan', {})):
        pl = a['plan'][node]
        if pl is None:
            impl.append((node, 'missing'))
            continue
        dw = is_dw(r, node)
        impl.append((node, pl['regular'], pl['okept'], None if dw else pl['ikept'],
                     len(pl['okept']) if dw else 1, pl['out'], pl['in']))
    for node, d in sorted(rows.items()):
        if d.get('masker') != '1':
            continue
        dw = is_dw(r, node)
        ok = json.loads(d['okept'])
        ik = json.loads(d['ikept'])
        mod.append((node, True, ok, None if dw else ik, len(ok) if dw else 1, len(ok), len(ik)))
    return json.dumps(impl), json.dumps(mod)


def unsupported_key(head, r=None):
    why = head.get('why', '')
    if r is not None and r['spec']['opts'].get('mlp_res'):
        # a residual sum with the flattened network input: outside the model's `supported` (a flatten-derived operand),
        # but nothing of it can be pruned, so the real code must handle it: never one of the known unsupported classes
        return None
    if not why and r is not None and head.get('sup') is None:
        # no model answer for this net (a feature outside the model): the generator knows which family it drew
        return {'add_cat': 'add-with-concat-operand', 'dw_cat': 'depthwise-fed-by-concat',
                'reuse_cat': 'layer-twice-fed-by-concat'}.get(r['spec']['opts'].get('unsupported'))
    if 'add' in why or 'tcat' in why:
        return 'add-with-concat-operand'
    if 'dw' in why:
        return 'depthwise-fed-by-concat'
    if 'reuse' in why:
        return 'layer-twice-fed-by-concat'
    return None


def raise_kind(r):
    """Finding-key suffix for a case that raised before any mask was assigned."""
    e = r.get('construct_error', '')
    if e.startswith('export() right after import'):
        return 'export-at-once-raises'
    if e.startswith('first forward'):
        return 'first-forward-raises'
    return 'constructor-raises'
