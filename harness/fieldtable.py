"""Field-classification table of the stateful PLiNIO classes, EXTRACTED FROM SOURCE by a small AST
analysis (C17; DESIGN section 6, `Model/Checkpoint.lean`).

For every class defined in the listed modules (maskers, MPS quantizers, weight / bias / activation
quantizers, SuperNet combiner, feature calculators, the PIT / MPS / SuperNet layers and the three
wrappers) and for every class of its MRO (torch base classes included, read through
`inspect.getsource`), the extractor collects

  * `self.x = nn.Parameter(...)` / `register_parameter`            -> `param`
  * `self.register_buffer('x', ..., persistent=?)`                  -> `pbuf` / non-persistent buffer
  * `del self.x`
  * every plain `self.x = ...` (also tuple targets, `+=`, annotated) with the method it occurs in,
    whether it is reached on *every* path of that method, and whether the new value depends on the
    old one (`self.x = self.x + 1`, `self.x += 1`, in-place `self.x.add_(1)`, `self.x.append(..)`)
  * every read of `self.x` outside `__init__` / `__repr__`
  * assignments from outside the class (`layer.discrete_cost = value`) anywhere in the package
  * `mod.register_buffer(prefix + 'name', ...)` on another object (feature calculators)

and classifies every field of every class (facts merged along the MRO, in construction order):

  param       a parameter (in the state_dict)
  pbuf        a persistent buffer (in the state_dict)
  recomputed  plain attribute (or non-persistent buffer) that `forward` overwrites on every path with a
              value that does not depend on its previous value
  config      plain attribute written only by setters / option methods / other objects
  ctor        plain attribute (or sub-module reference) fixed by the constructor
  volatile    anything else living outside the state_dict: accumulated or conditionally cached values,
              non-persistent buffers that are not recomputed

`late` marks a parameter/buffer registered outside construction (its key may be missing from a fresh
model).  The table is rendered to `lean/PlinioVerif/Gen/Fields.lean`; `Props/C17.lean` proves over that
generated table that every field read by an observer is not `volatile` and that no key is `late`.
"""
import ast
import importlib
import inspect
import os
import textwrap

MODULES = [
    'plinio.methods.pit.nn.features_masker', 'plinio.methods.pit.nn.timestep_masker',
    'plinio.methods.pit.nn.dilation_masker', 'plinio.methods.pit.nn.conv1d', 'plinio.methods.pit.nn.conv2d',
    'plinio.methods.pit.nn.linear', 'plinio.methods.pit.nn.batchnorm_1d', 'plinio.methods.pit.nn.batchnorm_2d',
    'plinio.methods.mps.nn.qtz', 'plinio.methods.mps.nn.conv1d', 'plinio.methods.mps.nn.conv2d',
    'plinio.methods.mps.nn.linear', 'plinio.methods.mps.nn.identity', 'plinio.methods.mps.nn.add',
    'plinio.methods.mps.quant.quantizers.quantizer', 'plinio.methods.mps.quant.quantizers.minmax_weight',
    'plinio.methods.mps.quant.quantizers.qtz_bias', 'plinio.methods.mps.quant.quantizers.pact_act',
    'plinio.methods.mps.quant.quantizers.dummy',
    'plinio.methods.supernet.nn.combiner', 'plinio.methods.supernet.nn.module',
    'plinio.graph.features_calculation',
    'plinio.methods.dnas_base.dnas', 'plinio.methods.pit.pit', 'plinio.methods.mps.mps',
    'plinio.methods.supernet.supernet',
]
# the classes named by the property's anchors: their absence from the table is an error
ANCHORED = ['PITFeaturesMasker', 'PITFrozenFeaturesMasker', 'PITTimestepMasker', 'PITFrozenTimestepMasker',
            'PITDilationMasker', 'PITFrozenDilationMasker', 'MPSBaseQtz', 'MPSPerChannelQtz', 'MPSPerLayerQtz',
            'MPSBiasQtz', 'MinMaxWeight', 'QuantizerBias', 'PACTAct', 'SuperNetCombiner',
            'ConstFeaturesCalculator', 'ModAttrFeaturesCalculator', 'FlattenFeaturesCalculator',
            'ConcatFeaturesCalculator']

# methods through which the statement's observables are computed; together with `forward` and every
# property getter they are the entry points of the "observer paths"
OBSERVER_METHODS = {'forward', 'summary', 'get_cost', 'export', 'get_modified_vars', 'nas_parameters_summary',
                    'best_layer_index', '_get_single_cost', '__call__'}
MUTATORS = {'append', 'extend', 'update', 'pop', 'clear', 'insert', 'remove', 'add', 'discard', 'setdefault'}
KINDS = ('param', 'pbuf', 'recomputed', 'config', 'ctor', 'volatile')


def _is_self_attr(node, selfname='self'):
    return isinstance(node, ast.Attribute) and isinstance(node.value, ast.Name) and node.value.id == selfname


def _targets(t):
    if isinstance(t, (ast.Tuple, ast.List)):
        for e in t.elts:
            yield from _targets(e)
    elif isinstance(t, ast.Starred):
        yield from _targets(t.value)
    else:
        yield t


def _call_name(call):
    f = call.func
    if isinstance(f, ast.Attribute):
        return f.attr
    if isinstance(f, ast.Name):
        return f.id
    return None


def _is_parameter_ctor(v):
    return isinstance(v, ast.Call) and _call_name(v) == 'Parameter'


def _const_str(node):
    """(exact, suffix): the constant string, or the constant suffix of `prefix + 'name'` / f-strings"""
    if isinstance(node, ast.Constant) and isinstance(node.value, str):
        return node.value, node.value
    if isinstance(node, ast.BinOp) and isinstance(node.op, ast.Add):
        _, suf = _const_str(node.right)
        return None, suf
    if isinstance(node, ast.JoinedStr) and node.values and isinstance(node.values[-1], ast.Constant):
        return None, str(node.values[-1].value)
    return None, None


class Method:
    def __init__(self, name, node, kind):
        self.name, self.node, self.kind = name, node, kind   # kind: 'method' | 'getter' | 'setter' | 'static'
        self.selfname = node.args.args[0].arg if (node.args.args and kind != 'static') else None


class ClassFacts:
    """Syntactic facts of one class body (no inheritance yet)."""
    def __init__(self, name, node):
        self.name = name
        self.methods = {}     # name -> Method (getter under its name, setter under name + '.setter')
        self.properties = set()
        for item in node.body:
            if isinstance(item, (ast.FunctionDef, ast.AsyncFunctionDef)):
                kind = 'method'
                key = item.name
                for d in item.decorator_list:
                    if isinstance(d, ast.Name) and d.id == 'property':
                        kind = 'getter'
                        self.properties.add(item.name)
                    elif isinstance(d, ast.Attribute) and d.attr == 'setter':
                        kind = 'setter'
                        key = item.name + '.setter'
                    elif isinstance(d, ast.Name) and d.id in ('staticmethod', 'classmethod'):
                        kind = 'static'
                self.methods[key] = Method(key, item, kind)


def class_facts(cls):
    try:
        src = textwrap.dedent(inspect.getsource(cls))
    except (OSError, TypeError):
        return None
    tree = ast.parse(src)
    node = next((n for n in tree.body if isinstance(n, ast.ClassDef)), None)
    return ClassFacts(cls.__name__, node) if node is not None else None


class Resolved:
    """A class with the facts of its whole MRO."""
    def __init__(self, cls):
        self.cls = cls
        import torch.nn as nn
        # torch.nn.Module's own bookkeeping (_parameters, _buffers, training, hooks) is the state_dict
        # machinery itself: modelled, not analysed
        self.mro = [c for c in cls.__mro__ if c is not object and c is not nn.Module]
        self.facts = {}
        for c in self.mro:
            f = class_facts(c)
            if f is not None:
                self.facts[c] = f

    def method(self, name):
        for c in self.mro:
            f = self.facts.get(c)
            if f and name in f.methods:
                return c, f.methods[name]
        return None, None

    def is_property(self, name):
        return any(name in self.facts[c].properties for c in self.mro if c in self.facts)


class Analysis:
    """Abstract interpretation of the methods of one resolved class."""
    def __init__(self, R):
        self.R = R
        self.events = []          # construction-time events, in order
        self.assign = {}          # field -> list of (method, accumulating)
        self.reads = {}           # field -> set(methods)
        self.regs = {}            # field -> list of (kind, persistent, method)
        self.deleted = {}
        self.foreign = []         # (suffix, persistent, method)
        self.alias = {}           # field -> set of method names it may be bound to (self.f = self.g)
        self._definite = {}
        self._scan_all()

    # ---------------------------------------------------------------- per-method scan
    def _scan_all(self):
        seen = set()
        for c in self.R.mro:
            f = self.R.facts.get(c)
            if not f:
                continue
            for key, m in f.methods.items():
                if (key in seen and key != '__init__') or m.kind == 'static':
                    continue   # overridden further down the MRO / no instance
                if key.startswith('__') and key.endswith('__') and key not in ('__init__', '__call__'):
                    continue   # pickling / printing helpers
                seen.add(key)       # every `__init__` of the MRO runs (super chain)
                self._scan_method(m)

    def _scan_method(self, m):
        sn = m.selfname
        if sn is None:
            return
        for node in ast.walk(m.node):
            if isinstance(node, ast.Attribute) and isinstance(node.value, ast.Name) and node.value.id == sn:
                if isinstance(node.ctx, ast.Load):
                    self.reads.setdefault(node.attr, set()).add(m.name)
            if isinstance(node, ast.Assign) and _is_self_attr(node.value, sn):
                for t in node.targets:
                    if _is_self_attr(t, sn):
                        self.alias.setdefault(t.attr, set()).add(node.value.attr)
            if isinstance(node, ast.Call):
                nm = _call_name(node)
                f = node.func
                if nm in ('register_buffer', 'register_parameter') and isinstance(f, ast.Attribute):
                    a0 = node.args[0] if node.args else None
                    if isinstance(a0, ast.Name):
                        # name held in a local variable:  name = self.prefix + 'feat_calc_x'
                        for st in ast.walk(m.node):
                            if isinstance(st, ast.Assign) and any(isinstance(t, ast.Name) and t.id == a0.id for t in st.targets):
                                a0 = st.value
                                break
                    exact, suf = _const_str(a0) if a0 is not None else (None, None)
                    persistent = True
                    for kw in node.keywords:
                        if kw.arg == 'persistent':
                            persistent = not (isinstance(kw.value, ast.Constant) and kw.value.value is False)
                    if len(node.args) >= 3 and isinstance(node.args[2], ast.Constant):
                        persistent = bool(node.args[2].value)
                    kind = 'param' if nm == 'register_parameter' else 'buf'
                    if isinstance(f.value, ast.Name) and f.value.id == sn and exact is not None:
                        self.regs.setdefault(exact, []).append((kind, persistent, m.name))
                    else:
                        # registered on another object (or under a computed name)
                        self.foreign.append((suf or '<dynamic>', persistent, m.name))
                if nm == 'setattr' and isinstance(f, ast.Name) and len(node.args) >= 2 and \
                        isinstance(node.args[0], ast.Name) and node.args[0].id == sn:
                    exact, _ = _const_str(node.args[1])
                    self.assign.setdefault(exact or '<dynamic>', []).append((m.name, True))

    # ---------------------------------------------------------------- definite assignment
    def definite(self, mname, stack=()):
        """fields assigned on every normally-terminating path of method `mname`;
        also records, per assignment, whether the new value depends on the old one"""
        if mname in self._definite:
            return self._definite[mname]
        if mname in stack:
            return set()
        _, m = self.R.method(mname)
        if m is None or m.selfname is None:
            return set()
        fall, exits = self._block(m.node.body, set(), m, stack + (mname,))
        outs = exits + ([fall] if fall is not None else [])
        res = set.intersection(*outs) if outs else set()
        self._definite[mname] = res
        return res

    def _calls_in(self, node, m, cur, stack):
        """definite effects of the `self.f()` calls evaluated unconditionally inside an expression"""
        out = set()
        if node is None:
            return out
        todo = [node]
        while todo:
            n = todo.pop()
            if isinstance(n, (ast.IfExp, ast.BoolOp, ast.Lambda, ast.ListComp, ast.SetComp, ast.DictComp,
                              ast.GeneratorExp)):
                continue
            if isinstance(n, ast.Call) and _is_self_attr(n.func, m.selfname):
                out |= self._call_effect(n.func.attr, stack)
                # in-place mutation of a field:  self.x.add_(1), self.cache.append(v)
            if isinstance(n, ast.Call) and isinstance(n.func, ast.Attribute) and _is_self_attr(n.func.value, m.selfname):
                meth = n.func.attr
                if (meth.endswith('_') and not meth.endswith('__')) or meth in MUTATORS:
                    fld = n.func.value.attr
                    if m.name != '__init__' and fld not in cur:
                        self.assign.setdefault(fld, []).append((m.name, True))
            todo.extend(ast.iter_child_nodes(n))
        return out

    def _call_effect(self, name, stack):
        c, mm = self.R.method(name)
        if mm is not None:
            return set(self.definite(name, stack))
        if name in self.alias:     # self.sample_alpha() where sample_alpha is bound to one of several methods
            sets = [set(self.definite(t, stack)) for t in self.alias[name]]
            return set.intersection(*sets) if sets else set()
        return set()

    def _reads_field(self, expr, fld, sn):
        return any(isinstance(n, ast.Attribute) and n.attr == fld and isinstance(n.value, ast.Name) and
                   n.value.id == sn and isinstance(n.ctx, ast.Load) for n in ast.walk(expr)) if expr is not None else False

    def _block(self, stmts, cur, m, stack):
        """returns (fall-through set or None, [sets at return statements])"""
        cur = set(cur)
        exits = []
        sn = m.selfname
        for st in stmts:
            if isinstance(st, (ast.Assign, ast.AnnAssign, ast.AugAssign)):
                value = st.value
                cur |= self._calls_in(value, m, cur, stack)
                tgts = st.targets if isinstance(st, ast.Assign) else [st.target]
                for t0 in tgts:
                    for t in _targets(t0):
                        if _is_self_attr(t, sn) and self.R.is_property(t.attr):
                            # assignment to a property = call of its setter
                            cur |= self._call_effect(t.attr + '.setter', stack)
                        elif _is_self_attr(t, sn):
                            fld = t.attr
                            acc = isinstance(st, ast.AugAssign) and fld not in cur
                            if fld not in cur and self._reads_field(value, fld, sn):
                                acc = True
                            if isinstance(st, ast.AnnAssign) and value is None:
                                continue
                            if self._in_ctor_chain(m.name):
                                self.events.append(('param' if _is_parameter_ctor(value) else 'plain', fld, m.name))
                            if m.name != '__init__':
                                self.assign.setdefault(fld, []).append((m.name, acc))
                            cur.add(fld)
                        elif isinstance(t, (ast.Subscript, ast.Attribute)):
                            # self.x[i] = v  /  self.x.y = v : in-place change of what the field holds
                            base = t.value
                            while isinstance(base, (ast.Subscript, ast.Attribute)) and not _is_self_attr(base, sn):
                                base = base.value
                            if _is_self_attr(base, sn) and m.name != '__init__' and isinstance(t, ast.Subscript) \
                                    and base.attr not in cur:
                                self.assign.setdefault(base.attr, []).append((m.name, True))
            elif isinstance(st, ast.Delete):
                for t in st.targets:
                    if _is_self_attr(t, sn):
                        self.events.append(('del', t.attr, m.name))
                        cur.discard(t.attr)
            elif isinstance(st, ast.Expr):
                v = st.value
                if isinstance(v, ast.Call) and _call_name(v) in ('register_buffer', 'register_parameter') \
                        and isinstance(v.func, ast.Attribute) and isinstance(v.func.value, ast.Name) \
                        and v.func.value.id == sn and v.args:
                    exact, _ = _const_str(v.args[0])
                    if exact is not None:
                        if self._in_ctor_chain(m.name):
                            self.events.append(('reg', exact, m.name))
                        cur.add(exact)
                cur |= self._calls_in(v, m, cur, stack)
            elif isinstance(st, ast.Return):
                cur |= self._calls_in(st.value, m, cur, stack)
                exits.append(set(cur))
                return None, exits
            elif isinstance(st, ast.Raise):
                return None, exits          # abnormal exit: imposes nothing
            elif isinstance(st, ast.If):
                cur |= self._calls_in(st.test, m, cur, stack)
                f1, e1 = self._block(st.body, cur, m, stack)
                f2, e2 = self._block(st.orelse, cur, m, stack)
                exits += e1 + e2
                falls = [f for f in (f1, f2) if f is not None]
                if not falls:
                    return None, exits
                cur = set.intersection(*falls)
            elif isinstance(st, (ast.With, ast.AsyncWith)):
                for it in st.items:
                    cur |= self._calls_in(it.context_expr, m, cur, stack)
                f1, e1 = self._block(st.body, cur, m, stack)
                exits += e1
                if f1 is None:
                    return None, exits
                cur = f1
            elif isinstance(st, (ast.For, ast.AsyncFor, ast.While)):
                # zero iterations possible: the body contributes facts (accumulation) but nothing definite
                self._calls_in(st.iter if hasattr(st, 'iter') else st.test, m, cur, stack)
                f1, e1 = self._block(st.body, cur, m, stack)
                exits += e1
                self._block(st.orelse, cur, m, stack)
            elif isinstance(st, ast.Try):
                f1, e1 = self._block(st.body, cur, m, stack)
                exits += e1
                for h in st.handlers:
                    _, eh = self._block(h.body, cur, m, stack)
                    exits += eh
                ff, ef = self._block(st.finalbody, cur, m, stack)
                exits += ef
                cur = ff if ff is not None else cur
            elif isinstance(st, (ast.FunctionDef, ast.ClassDef, ast.Pass, ast.Import, ast.ImportFrom,
                                 ast.Global, ast.Nonlocal, ast.Assert, ast.Break, ast.Continue)):
                pass
            else:
                for ch in ast.iter_child_nodes(st):
                    if isinstance(ch, ast.expr):
                        cur |= self._calls_in(ch, m, cur, stack)
        return cur, exits

    def _in_ctor_chain(self, mname):
        return mname in self.ctor_methods()

    def ctor_methods(self):
        """methods called (transitively, unconditionally or not) from `__init__`"""
        if not hasattr(self, '_ctor'):
            self._ctor = self._reach({'__init__'})
        return self._ctor

    def _reach(self, roots):
        seen, todo = set(), list(roots)
        while todo:
            mn = todo.pop()
            if mn in seen:
                continue
            if mn == '__init__':      # the whole super chain
                ms = [self.R.facts[c].methods['__init__'] for c in self.R.mro
                      if c in self.R.facts and '__init__' in self.R.facts[c].methods]
            else:
                ms = [self.R.method(mn)[1]]
            ms = [m for m in ms if m is not None and m.selfname is not None]
            if not ms:
                continue
            seen.add(mn)
            for m in ms:
              for n in ast.walk(m.node):
                if isinstance(n, ast.Call) and _is_self_attr(n.func, m.selfname):
                    nm = n.func.attr
                    todo.append(nm)
                    todo.extend(self.alias.get(nm, ()))
                elif isinstance(n, ast.Attribute) and isinstance(n.value, ast.Name) and n.value.id == m.selfname \
                        and self.R.is_property(n.attr):
                    todo.append(n.attr if isinstance(n.ctx, ast.Load) else n.attr + '.setter')
        return seen


def external_assignments(pkg_root):
    """attribute names assigned from outside (`layer.discrete_cost = value`) anywhere in the package"""
    out = {}
    for dp, _, fns in os.walk(pkg_root):
        for fn in fns:
            if not fn.endswith('.py'):
                continue
            path = os.path.join(dp, fn)
            try:
                tree = ast.parse(open(path).read())
            except SyntaxError:
                continue
            for node in ast.walk(tree):
                tgts = []
                if isinstance(node, ast.Assign):
                    tgts = node.targets
                elif isinstance(node, (ast.AugAssign, ast.AnnAssign)):
                    tgts = [node.target]
                for t0 in tgts:
                    for t in _targets(t0):
                        if isinstance(t, ast.Attribute) and not (isinstance(t.value, ast.Name) and t.value.id in ('self', 'cls')):
                            out.setdefault(t.attr, set()).add(os.path.relpath(path, pkg_root))
    return out


def classify(cls, ext):
    """[(field, kind, read, late, why)] for one class (facts of the whole MRO merged)."""
    R = Resolved(cls)
    A = Analysis(R)
    # run the constructor chain in construction order (base `__init__` bodies are entered through
    # `super().__init__()`, which the walk below emulates by processing the MRO from the base up)
    A.events = []
    for c in reversed(R.mro):
        f = R.facts.get(c)
        if f and '__init__' in f.methods:
            m = f.methods['__init__']
            if m.selfname is not None:
                A._block(m.node.body, set(), m, ('__init__',))
    for mn in sorted(A.ctor_methods() - {'__init__'}):
        A.definite(mn)
    fwd = A.definite('forward') if R.method('forward')[1] is not None else set()
    entry = {mn for c in R.mro if c in R.facts for mn, m in R.facts[c].methods.items()
             if m.kind == 'getter' or mn in OBSERVER_METHODS}
    obs_reach = A._reach(entry)
    for c in R.mro:
        for mn in sorted(R.facts[c].methods) if c in R.facts else ():
            if mn != '__init__' and not (mn.startswith('__') and mn.endswith('__') and mn != '__call__'):
                A.definite(mn)
    ctor = A.ctor_methods()
    # registration status after construction: replay the events in construction order
    reginfo = {}
    for fld, regs in A.regs.items():
        for kind, persistent, mn in regs:
            reginfo[(fld, mn)] = 'param' if kind == 'param' else ('pbuf' if persistent else 'nbuf')
    status = {}
    for ev, fld, mn in A.events:
        if ev == 'param':
            status[fld] = 'param'
        elif ev == 'reg':
            status[fld] = reginfo.get((fld, mn), 'pbuf')
        elif ev == 'del':
            status.pop(fld, None)
        elif ev == 'plain' and fld not in status:
            status[fld] = 'plain'       # assigning to a registered name keeps the registration
    late = set()
    for (fld, mn), k in reginfo.items():
        if mn not in ctor and status.get(fld, 'plain') == 'plain':
            status[fld] = k
            late.add(fld)
    fields = set(status) | set(A.assign) | {f for f in A.regs}
    rows = []
    for fld in sorted(fields):
        if fld.startswith('__') or fld == '<dynamic>':
            continue
        st = status.get(fld, 'plain')
        asg = A.assign.get(fld, [])
        read_in = {mn for mn in A.reads.get(fld, ()) if mn not in ('__init__', '__repr__', '__str__')}
        why = []
        if st in ('param', 'pbuf'):
            kind = st
            why.append('registered')
        else:
            # in-place updates count as accumulation on the observer paths only; elsewhere (option
            # methods, registration helpers) they are configuration the caller re-applies
            acc = sorted({mn for mn, a in asg if a and mn in obs_reach and not mn.endswith('.setter')})
            outside = sorted({mn for mn, a in asg})
            in_obs = [mn for mn in outside if mn in obs_reach and not mn.endswith('.setter')]
            if acc:
                kind = 'volatile'
                why.append('value depends on its previous value in ' + ','.join(acc))
            elif fld in fwd:
                kind = 'recomputed'
                why.append('overwritten on every path of forward')
            elif in_obs:
                kind = 'volatile'
                why.append('written on some paths only of ' + ','.join(in_obs))
            elif outside or fld in ext:
                kind = 'config'
                why.append('written by ' + ','.join(outside + sorted(ext.get(fld, ()))))
            else:
                kind = 'ctor'
                why.append('constructor only')
            if st == 'nbuf':
                why.append('non-persistent buffer')
        rows.append({'cls': cls.__name__, 'field': fld, 'kind': kind, 'read': bool(read_in),
                     'late': fld in late and st in ('param', 'pbuf'), 'nbuf': st == 'nbuf', 'why': '; '.join(why)})
    # a registration on another module is part of construction only when it happens on the paths
    # conversion runs: the constructor chain and the calculators' `register` hook
    construction = A._reach({'__init__', 'register'})
    for suf, persistent, mn in A.foreign:
        rows.append({'cls': cls.__name__, 'field': '*' + suf, 'kind': 'pbuf' if persistent else 'volatile',
                     'read': True, 'late': mn not in construction, 'nbuf': not persistent,
                     'why': 'buffer registered on another module in ' + mn +
                            ('' if mn in construction else ' (not a construction path: the key appears later)')})
    return rows


def extract(repo=None):
    """The whole table: list of row dicts, sorted by (class, field)."""
    import plinio
    pkg_root = os.path.dirname(plinio.__file__)
    ext = external_assignments(pkg_root)
    rows, seen = [], set()
    for mn in MODULES:
        mod = importlib.import_module(mn)
        for name, cls in sorted(vars(mod).items()):
            if inspect.isclass(cls) and cls.__module__ == mn and cls not in seen:
                seen.add(cls)
                if 'STE' in name or issubclass(cls, (Exception,)) or name in ('MPSType',):
                    continue    # autograd.Function helpers / enums hold no instance state
                rows += classify(cls, ext)
    names = {r['cls'] for r in rows}
    missing = [a for a in ANCHORED if a not in names]
    return rows, missing


def lean_source(rows):
    esc = lambda s: s.replace('\\', '\\\\').replace('"', '\\"')
    lines = ['import PlinioVerif.Model.Checkpoint',
             '/-! GENERATED by harness/fieldtable.py from the PLiNIO sources on every run of the C17 check.',
             'Do not edit.  One entry per (class, field): classification of where the field lives. -/',
             'namespace PlinioVerif.Gen.Fields', 'open PlinioVerif.Checkpoint', '',
             'def table : List FieldEntry := [']
    body = []
    for r in rows:
        body.append('  ⟨"%s", "%s", .%s, %s, %s⟩' % (esc(r['cls']), esc(r['field']), r['kind'],
                                                      'true' if r['read'] else 'false',
                                                      'true' if r['late'] else 'false'))
    lines.append(',\n'.join(body))
    lines += [']', '', 'end PlinioVerif.Gen.Fields', '']
    return '\n'.join(lines)


def regenerate(lean_dir):
    """(re)write lean/PlinioVerif/Gen/Fields.lean when its content changed; returns (rows, missing, changed)"""
    rows, missing = extract()
    path = os.path.join(lean_dir, 'PlinioVerif', 'Gen', 'Fields.lean')
    os.makedirs(os.path.dirname(path), exist_ok=True)
    new = lean_source(rows)
    old = open(path).read() if os.path.exists(path) else None
    if new != old:
        tmp = path + '.tmp%d' % os.getpid()
        with open(tmp, 'w') as fh:
            fh.write(new)
        os.replace(tmp, path)
    return rows, missing, new != old


def by_class(rows):
    out = {}
    for r in rows:
        out.setdefault(r['cls'], {})[r['field']] = r
    return out


if __name__ == '__main__':
    import sys
    sys.path.insert(0, os.environ.get('PLINIO_SRC', '/repo'))
    rows, missing = extract()
    for r in rows:
        print('%-28s %-28s %-10s read=%d late=%d  %s' % (r['cls'], r['field'], r['kind'], r['read'], r['late'], r['why']))
    print('missing anchored classes:', missing)
