"""autoconvert_layers=False: networks in which the user placed the PIT layers (C07, C09)."""
import copy
import random
import warnings

import torch
import torch.nn as nn


def auto_off_case(args):
    """(seed, leave_plain).  leave_plain: one middle convolution stays a plain nn.Conv2d fed by a
    PIT layer (known finding K11).  Worker function."""
    seed, leave_plain = args
    warnings.filterwarnings('ignore')
    torch.set_num_threads(1)
    import contextlib
    import io
    from plinio.methods import PIT
    from plinio.methods.pit.nn import PITConv2d, PITLinear
    from plinio.methods.pit.nn.features_masker import PITFeaturesMasker, PITFrozenFeaturesMasker
    from . import pitgen
    rng = random.Random(seed)
    torch.manual_seed(seed)
    n_conv = rng.randint(2, 3)
    chans = [3] + [rng.choice([3, 4, 5, 6]) for _ in range(n_conv)]
    with_bn = [rng.random() < .6 for _ in range(n_conv)]
    S = 6

    class Plain(nn.Module):
        def __init__(self):
            super().__init__()
            for i in range(n_conv):
                setattr(self, 'c%d' % i, nn.Conv2d(chans[i], chans[i + 1], 3, padding=1, bias=rng.random() < .7))
                if with_bn[i]:
                    setattr(self, 'b%d' % i, nn.BatchNorm2d(chans[i + 1]))
            self.fc = nn.Linear(chans[-1] * S * S, 3)

        def forward(self, x):
            for i in range(n_conv):
                x = getattr(self, 'c%d' % i)(x)
                if with_bn[i]:
                    x = getattr(self, 'b%d' % i)(x)
                x = torch.relu(x)
            return self.fc(torch.flatten(x, 1))
    out = {'seed': seed, 'leave_plain': leave_plain, 'chans': chans, 'with_bn': with_bn}
    with contextlib.redirect_stderr(io.StringIO()):
        try:
            plain = Plain().eval()
            pitgen.randomize_bn(plain, rng)
            user = copy.deepcopy(plain)
            skip = rng.randint(1, n_conv - 1) if leave_plain else None
            for i in range(n_conv):
                if i == skip:
                    continue
                # the layer's own `fold_bn` constructor option is independent of the option of the conversion,
                # which decides what is done with the BatchNorm that follows
                lf = rng.random() < .4
                out.setdefault('layer_fold', []).append(lf)
                setattr(user, 'c%d' % i, PITConv2d(getattr(user, 'c%d' % i), PITFeaturesMasker(chans[i + 1]), fold_bn=lf))
            user.fc = PITLinear(user.fc, PITFrozenFeaturesMasker(3))
            fold = rng.random() < .5
            out['fold_bn'] = fold
            x = torch.randn(2, 3, S, S)
            with torch.no_grad():
                y0 = plain(x)
                yu0 = user(x)
            pit = PIT(user, input_shape=(3, S, S), autoconvert_layers=False, fold_bn=fold).eval()
            with torch.no_grad():
                y1 = pit(x)
                user.eval()
                yu1 = user(x)
            d = float((yu0 - yu1).abs().max())
            out['user_output_changed'] = d if d > 2e-4 * max(1.0, float(yu0.abs().max())) else None
            with torch.no_grad():
                e0 = pit.export().eval()
                pitgen.copy_bn_stats(pit, e0)
                ye = e0(x)
            tol = 2e-4 * max(1.0, float(y0.abs().max()))
            out['import_diff'] = None if float((y0 - y1).abs().max()) <= tol else float((y0 - y1).abs().max())
            out['export0_diff'] = None if float((y0 - ye).abs().max()) <= tol else float((y0 - ye).abs().max())
            # prune every trainable masker
            with torch.no_grad():
                for _, p in pit.named_nas_parameters():
                    p.copy_(torch.tensor([rng.choice([0., 0., 1., .25, -2.]) for _ in range(p.numel())]))
                y2 = pit(x)
            try:
                with torch.no_grad():
                    e = pit.export().eval()
                    pitgen.copy_bn_stats(pit, e)
                    y3 = e(x)
                out['pruned_diff'] = None if (y2.shape == y3.shape and float((y2 - y3).abs().max()) <= tol) \
                    else ('shape' if y2.shape != y3.shape else float((y2 - y3).abs().max()))
                out['pruned'] = any(int(l.out_features_opt) < l.out_channels for _, l in pit.seed.named_modules()
                                    if isinstance(l, PITConv2d))
            except Exception as ex:
                out['pruned_error'] = '%s: %s' % (type(ex).__name__, str(ex)[:140])
        except Exception as ex:
            out['error'] = '%s: %s' % (type(ex).__name__, str(ex)[:160])
    return out
