"""Execution tie of the *semantic* network model (`pitStep` / `expStep` / `seedStep` of
Lemmas/PIT/NetSem.lean and OpenSeed.lean — the definitions the network-level theorems of C01, C07
and C09 quantify over) to the real code: channel-level grammar nets (every kernel 1, every spatial
size 1, any topology of the grammar) with small integer weights, BatchNorm statistics and inputs,
so that the real float32 outputs are exact integers and can be compared *exactly* with the model
instantiated at V = Int by `Drivers/PITSem.lean`."""
import random
import warnings

import torch
import torch.nn as nn

from . import pitgen

LIMIT = 1 << 22


def _ints(t):
    t = t.detach().reshape(-1)
    if not bool((t == t.round()).all()) or float(t.abs().max() if t.numel() else 0) >= LIMIT:
        raise OverflowError('non-integer or too large')
    return [int(v) for v in t]


def _lst(v):
    return '[' + ','.join(str(x) for x in v) + ']'


def _bn_fields(bn):
    if bn is None:
        return '-:-:-'
    assert bn.eps == 0. and bool((bn.running_var == 1).all())
    n = bn.num_features
    return '%s:%s:%s' % (_lst(_ints(bn.running_mean)), _lst(_ints(bn.weight) if bn.affine else [1] * n),
                         _lst(_ints(bn.bias) if bn.affine else [0] * n))


def sem_case(spec):
    import contextlib
    import io
    with contextlib.redirect_stderr(io.StringIO()):
        return _sem_case(spec)


def _sem_case(spec):
    warnings.filterwarnings('ignore')
    torch.set_num_threads(1)
    from plinio.methods import PIT
    from plinio.methods.pit.nn.features_masker import PITFrozenFeaturesMasker
    seed = spec['seed']
    rng = random.Random(seed)
    torch.manual_seed(seed)
    res = {'spec': spec, 'rows': []}
    dim = spec['dim']
    opts = dict(spec.get('opts') or {}, unit=True, tcat=False)
    prog, in_shapes = pitgen.gen_program(rng, dim, opts)
    net = pitgen.build_net(prog, len(in_shapes))
    pitgen.intify(net, rng)
    names, types, excl = pitgen.choose_exclusions(prog, rng, spec.get('excl_mode'))
    res['prog'] = pitgen.prog_summary(prog)
    res['excl'] = sorted(excl)
    net.eval()
    B = 3
    xs = [torch.randint(-3, 4, (B,) + s).float() for s in in_shapes]
    with torch.no_grad():
        y0 = pitgen.merge_out(net(*xs))
    shapes_rec = pitgen.shapes_of(net, in_shapes)
    kw = dict(fold_bn=bool(spec.get('fold_bn')), exclude_names=names, exclude_types=types)
    if len(in_shapes) == 1:
        kw['input_shape'] = in_shapes[0]
    else:
        kw['input_example'] = tuple(torch.zeros((1,) + s) for s in in_shapes)
    try:
        pit = PIT(net, **kw)
        pit.eval()
        with torch.no_grad():
            pit(*xs)
    except Exception as ex:
        res['construct_error'] = '%s: %s' % (type(ex).__name__, str(ex)[:160])
        return res
    layers = {int(n[1:]): l for n, l in pit.seed.named_modules()
              if hasattr(l, 'out_features_masker') and n.startswith('n') and n[1:].isdigit()}
    pitgen.set_masks(pit, rng, spec.get('style', 'mixed'))
    in_graph = {str(n.target) for n in pit.seed.graph.nodes if n.op == 'call_module'}
    try:
        with torch.no_grad():
            y1 = pitgen.merge_out(pit(*xs))
            e = pit.export().eval()
            pitgen.copy_bn_stats(pit, e)
            y2 = pitgen.merge_out(e(*xs))
    except Exception as ex:
        res['export_error'] = '%s: %s' % (type(ex).__name__, str(ex)[:200])
        return res
    alphas, layer_info, weights = [], {}, []
    for i in sorted(layers):
        m = layers[i].out_features_masker
        frozen = isinstance(m, PITFrozenFeaturesMasker)
        alphas.append('%d=%s' % (i, pitgen.frac_list(torch.ones_like(m.alpha) if frozen else m.alpha)))
    try:
        for i, ins in enumerate(prog):
            if ins[0] in ('conv', 'dw', 'lin'):
                l = pit.seed.get_submodule('n%d' % i)
                layer_info[i] = (1, int(l.bias is not None))
                w = l.weight.detach()
                rows = [_ints(w)] if ins[0] == 'dw' else [_ints(r) for r in w.reshape(w.shape[0], -1)]
                bn = None if getattr(l, 'fold_bn', False) else getattr(l, 'bn', None)
                weights.append('%d:[%s]:%s:%s' % (i, ','.join(_lst(r) for r in rows),
                                                  '-' if l.bias is None else _lst(_ints(l.bias)), _bn_fields(bn)))
            elif ins[0] == 'bn' and 'n%d' % i in in_graph:
                weights.append('%d:[]:-:%s' % (i, _bn_fields(pit.seed.get_submodule('n%d' % i))))
        relu = [i for i, ins in enumerate(prog) if ins[0] == 'relu']
        rendered = pitgen.render(prog, shapes_rec, excl, layer_info)
        if rendered is None:
            res['skipped'] = 'not-in-model'
            return res
        n_in = [i for i, ins in enumerate(prog) if ins[0] == 'input']
        for b in range(B):
            inputs = ';'.join('%d=%s' % (n, _lst(_ints(xs[prog[n][1]][b]))) for n in n_in)
            req = '%s|%s|%s|%s|%s' % (rendered, ';'.join(alphas), ';'.join(weights), _lst(relu), inputs)
            real = 'pit=%s exp=%s seed=%s' % (_lst(_ints(y1[b])), _lst(_ints(y2[b])), _lst(_ints(y0[b])))
            res['rows'].append({'request': req, 'real': real})
    except OverflowError:
        res['skipped'] = 'magnitude'
        res['rows'] = []
    res['pruned'] = any(bool((l.features_mask == 0).any()) for l in layers.values())
    res['standalone_bn'] = sum(1 for i, ins in enumerate(prog) if ins[0] == 'bn' and 'n%d' % i in in_graph)
    return res


def sem_specs(chk, n, styles=('mixed', 'mixed', 'min', 'open'), unsupported=False):
    rng = chk.rng
    out = []
    for i in range(n):
        opts = {'squeeze': rng.random() < .15, 'two_inputs': rng.random() < .15}
        if rng.random() < .25:
            opts['cat_tail'] = True
        if i % 9 == 4:
            opts['fixed_cat'] = True
        if i % 7 == 6:
            opts['two_outputs'] = True     # forward returns (logits, an intermediate activation)
        if i % 6 == 5:
            opts['reuse'] = True       # a layer (with its BatchNorm) invoked twice, on two different tensors
        if unsupported and i % 8 == 3:
            opts['unsupported'] = 'add_cat'
        out.append({'seed': rng.randint(0, 1 << 30), 'dim': 1 + i % 2, 'opts': opts, 'fold_bn': rng.random() < .4,
                    'excl_mode': rng.choice([None, None, 'names', 'types', 'both', 'lastlin'] if not opts.get('cat_tail')
                                            else ['types', 'lastlin', None]),
                    'style': styles[i % len(styles)]})
    return out


def run_sem(chk, specs):
    """[(result, row, {'sup','pit','exp','seed'} of the model)] for every row of every case."""
    from . import common
    results = common.pmap(sem_case, specs)
    rows = [(r, row) for r in results for row in r['rows']]
    answers = chk.driver('PITSem', [row['request'] for _, row in rows]) if rows else []
    out = []
    for (r, row), ans in zip(rows, answers):
        d = dict(kv.split('=', 1) for kv in ans.split()) if ans.startswith('sup=') else {'err': ans}
        real = dict(kv.split('=', 1) for kv in row['real'].split())
        out.append((r, row, real, d))
    return results, out


def sem_case_id(r, row):
    return {'kind': 'sem', 'spec': r['spec'], 'prog': r.get('prog'), 'request': row['request']}
