import PlinioVerif.Model.Proto
import PlinioVerif.Props.C01
import PlinioVerif.Props.C01Net
import PlinioVerif.Props.C04
import PlinioVerif.Props.C07
import PlinioVerif.Props.C08
import PlinioVerif.Props.C09
import PlinioVerif.Props.C15
