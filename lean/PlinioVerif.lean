import PlinioVerif.Props.T0
