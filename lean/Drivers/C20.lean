import PlinioVerif.Model.Proto
import PlinioVerif.Model.Reassign
/-! Line driver for the C20 correspondence.

`reassign best=[1,1] scores=[[0,3],[1,2]]`
  answers `asg=[1,1] ov=1 meets=0` (`-1` = unassigned; `ov` = some channel is within the
  top-`target` of two precisions; `meets` = every channel one precision and every count met).

`refine precs=[2,4,8] w=[3,4,1] table=[[3,4,1]:956,[2,5,1]:964,…]`
  answers `passed=[[…],…] accepted=[[…],…] best=[…] cost=<q> applied=[…]`: the count vectors
  handed to the cost model in order (quantizer's precision order), those that became best-so-far
  and the final best (ascending-precision order), and the vector handed to the reassignment;
  `err:key <v>` if a proposed vector is not in the table.  `refine-pinned` runs the loop as it
  was before the ordering repair. -/
open PlinioVerif PlinioVerif.Proto PlinioVerif.Reassign

def showAsg (a : Asg) : String :=
  showList (fun | some p => toString p | none => "-1") a

def showVec (v : List Nat) : String := showList toString v

def parseEntry? (t : String) : Option (List Nat × Rat) :=
  match t.splitOn ":" with
  | [v, c] => do
    let v ← parseList? parseNat? v
    let c ← parseRat? c
    pure (v, c)
  | _ => none

def lookupCost (table : List (List Nat × Rat)) (v : List Nat) : Option Rat :=
  (table.find? (·.1 == v)).map (·.2)

def handle (line : String) : String :=
  let toks := tokens line
  match toks.head? with
  | some "reassign" =>
    match (field? toks "best").bind (parseList? parseNat?),
          (field? toks "scores").bind (parseList2? parseInt?) with
    | some best, some scores =>
      if !(scores.all (·.length == nChannels scores)) || best.length != scores.length then "err:shape"
      else
        let a := reassign best scores
        s!"asg={showAsg a} ov={showBool (!noOverlap best scores)} meets={showBool (meets best a)}"
    | _, _ => "bad-request"
  | some "refine" | some "refine-pinned" =>
    match (field? toks "precs").bind (parseList? parseNat?),
          (field? toks "w").bind (parseList? parseNat?),
          (field? toks "table").bind (parseList? parseEntry?) with
    | some precs, some w, some table =>
      if precs.length != w.length then "err:shape" else
      let cost : List Nat → Rat := fun v => (lookupCost table v).getD 0
      let r := if toks.head? == some "refine" then refineLayer cost precs w else refineLayerPinned cost precs w
      match (w :: r.passed).find? (fun v => (lookupCost table v).isNone) with
      | some v => s!"err:key {showVec v}"
      | none =>
        s!"passed={showList showVec r.passed} accepted={showList showVec r.accepted} " ++
        s!"best={showVec r.best.vec} cost={showRat r.best.cost} applied={showVec r.applied}"
    | _, _, _ => "bad-request"
  | _ => "bad-request"

def main : IO Unit := runDriver handle
