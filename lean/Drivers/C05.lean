import PlinioVerif.Model.Proto
import PlinioVerif.Model.MPS
import PlinioVerif.Model.MPSDriver
/-! Line driver for the C05 correspondence (`mps …` requests: effective feature counts, what the
cost function is shown, hard-mode costs; `costfn …`: the bit-cost functions; `keys`: the spec-key
tables); formats are documented in `PlinioVerif/Model/MPSDriver.lean`. -/
open PlinioVerif PlinioVerif.Proto

def main : IO Unit := runDriver PlinioVerif.MPS.handle
