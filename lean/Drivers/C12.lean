import PlinioVerif.Model.Proto
import PlinioVerif.Model.CostDual
import PlinioVerif.Gen.Cost
/-! Line driver for C12: value and straight-through gradient of a registered cost function applied
to what a PIT layer hands over (`get_modified_vars`), through the *generated* cost model in the
`Dual` reading.

`cost spec=<CostSpec name> fn=<python function> kind=<conv1d|conv2d|linear> d=<0|1> C=<n> K=<n>
      cin=<q> groups=<q> kx=<q> ky=<q> out=[q,…] bias=<0|1> alpha=[…] beta=[…] gamma=[…]`
answers `ok=<0|1> v=<q> ga=[…] gb=[…] gg=[…]` (gradients w.r.t. every alpha / beta / gamma element). -/
open PlinioVerif PlinioVerif.Proto PlinioVerif.PIT

def mkSpec (kind : String) (d : Bool) (C K : Nat) (cin groups kx ky : Rat) (out : List Rat) (bias : Bool)
    (α β γ : Nat → Dual) : LSpec Dual :=
  let oe := outEffD d C α
  let ks : List Dual :=
    if kind = "conv1d" then [kEffD d K β γ] else if kind = "conv2d" then [⟨kx, 0⟩, ⟨ky, 0⟩] else []
  { (LSpec.empty : LSpec Dual) with
    in_channels := ⟨cin, 0⟩, out_channels := oe, in_features := ⟨cin, 0⟩, out_features := oe,
    groups := ⟨groups, 0⟩, kernel_size := ks, output_shape := out.map (⟨·, 0⟩), hasBias := bias }

/-- `fn …`: value and derivative of a registered cost function with respect to the effective
sizes / the precision share it is shown (what the MPS, PIT and SuperNet layers hand over as tensors) -/
def handleFn (toks : List String) : String :=
  let q (k : String) := (field? toks k).bind parseRat?
  let l (k : String) := (field? toks k).bind (parseList? parseRat?)
  match field? toks "spec", field? toks "fn", q "in", q "out", q "inf", q "outf", q "theta", q "wp", q "ip",
        q "groups", l "k", l "osh", (field? toks "bias").bind parseBool? with
  | some spec, some fn, some cin, some cout, some inf, some outf, some th, some wp, some ip, some g, some k,
    some osh, some bias =>
    match (Gen.registry (α := Dual)).find? (fun e => e.spec == spec && e.fn == fn) with
    | none => "err:unknown-function"
    | some e =>
      let mk (sel : Nat) : LSpec Dual :=
        { in_channels := ⟨cin, if sel = 0 then 1 else 0⟩, out_channels := ⟨cout, if sel = 1 then 1 else 0⟩,
          in_features := ⟨inf, if sel = 2 then 1 else 0⟩, out_features := ⟨outf, if sel = 3 then 1 else 0⟩,
          groups := ⟨g, 0⟩, w_precision := ⟨wp, 0⟩, in_precision := ⟨ip, 0⟩, a_precision := ⟨ip, 0⟩,
          w_theta_alpha := ⟨th, if sel = 4 then 1 else 0⟩, kernel_size := k.map (⟨·, 0⟩),
          output_shape := osh.map (⟨·, 0⟩), hasBias := bias, has_a_precision := false }
      let base := mk 9
      let ds := (List.range 5).map fun i => (e.val (mk i)).d
      s!"ok={showBool (e.ok base)} v={showRat (e.val base).v} d={showList showRat ds}"
  | _, _, _, _, _, _, _, _, _, _, _, _, _ => "bad-request"

def handle (line : String) : String :=
  if (tokens line).head? == some "fn" then handleFn (tokens line) else
  let toks := tokens line
  let q (k : String) := (field? toks k).bind parseRat?
  let n (k : String) := (field? toks k).bind parseNat?
  let l (k : String) := (field? toks k).bind (parseList? parseRat?)
  match toks.head?, field? toks "spec", field? toks "fn", field? toks "kind" with
  | some "cost", some spec, some fn, some kind =>
    match (field? toks "d").bind parseBool?, n "C", n "K", q "cin", q "groups", q "kx", q "ky", l "out",
          (field? toks "bias").bind parseBool?, l "alpha", l "beta", l "gamma" with
    | some d, some C, some K, some cin, some groups, some kx, some ky, some out, some bias,
      some al, some be, some ga =>
      match (Gen.registry (α := Dual)).find? (fun e => e.spec == spec && e.fn == fn) with
      | none => "err:unknown-function"
      | some e =>
        let α := ofList al
        let β := ofList be
        let γ := ofList ga
        let base := mkSpec kind d C K cin groups kx ky out bias (noSeed α) (noSeed β) (noSeed γ)
        let ok := e.ok base
        let v := (e.val base).v
        let gA := (List.range al.length).map fun i =>
          (e.val (mkSpec kind d C K cin groups kx ky out bias (seedAt α i) (noSeed β) (noSeed γ))).d
        let gB := (List.range be.length).map fun i =>
          (e.val (mkSpec kind d C K cin groups kx ky out bias (noSeed α) (seedAt β i) (noSeed γ))).d
        let gG := (List.range ga.length).map fun i =>
          (e.val (mkSpec kind d C K cin groups kx ky out bias (noSeed α) (noSeed β) (seedAt γ i))).d
        s!"ok={showBool ok} v={showRat v} ga={showList showRat gA} gb={showList showRat gB} gg={showList showRat gG}"
    | _, _, _, _, _, _, _, _, _, _, _, _ => "bad-request"
  | _, _, _, _ => "bad-request"

def main : IO Unit := runDriver handle
