import PlinioVerif.Model.Proto
import PlinioVerif.Model.MPS
import PlinioVerif.Model.MPSDriver
/-! Line driver for the C02 correspondence (`mps …` requests: wiring of quantizer objects, export
plan); request and answer formats are documented in `PlinioVerif/Model/MPSDriver.lean`. -/
open PlinioVerif PlinioVerif.Proto

def main : IO Unit := runDriver PlinioVerif.MPS.handle
