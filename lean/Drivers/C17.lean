import PlinioVerif.Model.Proto
import PlinioVerif.Model.Checkpoint
import PlinioVerif.Gen.Fields
/-! Line driver for the C17 correspondence.

`resume proto=<R|L> ops=[t,s:Class.field=3,m:0,o,...] pre=[o,o]`
(protocol R in its minimal form: persisted options are not re-applied on the fresh wrapper)
runs the history on the checkpoint model over the *generated* field table (`t` = training step that
changes every trainable field, `s:Class.field=v` = option call writing value id `v` (0 = constructor
default), `m:b` = mode switch, `o` = observer call (summary / str / export / cost / get_cost); `pre` =
observer calls made on the fresh wrapper before loading), resumes under protocol R or under the literal reading and answers

`keys=<ok|bad> ckpt=<eq|ne> diff=[Class.field,...] rec=<eq|ne> pers=<eq|ne> obs=<eq|ne>`

`ckpt` = the state_dict of the resumed wrapper right after loading is the checkpoint that was loaded
(`save_resume_eq_save`);

`diff` = non-recomputed fields whose value differs right after loading; `rec`/`pers`/`obs` = recomputed
fields / persisted fields / observation after one forward.

`table` answers the number of rows, `kind Class.field` the class of one row. -/
open PlinioVerif PlinioVerif.Proto PlinioVerif.Checkpoint

def tbl : List FieldEntry := Gen.Fields.table
def nF : Nat := tbl.length
def σG : Sig Nat := sigOf tbl

def idxOf (qual : String) : Option Nat :=
  tbl.findIdx? fun e => e.cls ++ "." ++ e.name == qual

def kindStr : FClass → String
  | .param => "param" | .pbuf => "pbuf" | .recomputed => "recomputed"
  | .config => "config" | .ctor => "ctor" | .volatile => "volatile"

def parseOp? (t : String) : Option (Op Nat Nat) :=
  if t = "t" then some (.train fun val f => val f + f + 1)
  else if t = "o" then some .observe
  else if t.startsWith "m:" then (parseBool? (t.drop 2).toString).map .mode
  else if t.startsWith "s:" then
    match (t.drop 2).toString.splitOn "=" with
    | [q, v] => do
      let i ← idxOf q
      let n ← v.toNat?
      pure (.setOpt i n)
    | _ => none
  else none

def initSt : MState Nat Nat := ⟨fun _ => 0, fun i => !(σG.late i), true⟩

def qualName (i : Nat) : String := match tbl[i]? with | some e => e.cls ++ "." ++ e.name | none => "?"

def handle (line : String) : String :=
  let toks := tokens line
  match toks.head? with
  | some "table" => toString nF
  | some "kind" =>
    match toks[1]? >>= idxOf with
    | some i => kindStr (σG.kind i) ++ (if σG.read i then " read" else " unread") ++ (if σG.late i then " late" else "")
    | none => "err:key"
  | some "resume" =>
    match field? toks "proto", (field? toks "ops").bind (parseList? parseOp?),
          ((field? toks "pre").getD "[]" |> parseList? parseOp?) with
    | some proto, some ops, some pre =>
      let s := run σG initSt ops
      let fresh := run σG initSt pre
      let t := if proto = "R" then resumeRmin σG fresh ops s else resumeL σG fresh s
      let all := List.range nF
      let sd := save σG s
      let target := if proto = "R" then run σG fresh (cfgMin σG ops) else { fresh with training := s.training }
      let keysOk := (missingKeys σG all sd target).isEmpty && (unexpectedKeys σG all sd target).isEmpty
      let diff := all.filter fun i => σG.kind i != .recomputed && t.val i != s.val i
      let sem := natSem nF
      let ft := forward σG sem 3 t
      let fs := forward σG sem 3 s
      let recEq := all.all fun i => σG.kind i != .recomputed || ft.val i == fs.val i
      let persEq := all.all fun i => !(σG.kind i).persisted || ft.val i == fs.val i
      let obsEq := obs σG sem 3 t == obs σG sem 3 s
      let ckptEq := all.all fun i => save σG t i == sd i
      let b := fun (x : Bool) => if x then "eq" else "ne"
      s!"keys={if keysOk then "ok" else "bad"} ckpt={b ckptEq} diff={showList qualName diff} rec={b recEq} pers={b persEq} obs={b obsEq}"
    | _, _, _ => "bad-request"
  | _ => "bad-request"

def main : IO Unit := runDriver handle
