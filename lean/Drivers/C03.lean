import PlinioVerif.Model.Proto
import PlinioVerif.Model.SuperNet
/-! Line driver for the C03 correspondence.

`export alpha=[<combiner>|q|q|…,…] mods=[m,…] nodes=[<node>,…]` with
`<node>` = `in|<k>|`, `mod|<target>|a+b`, `fn|<target>|a+b`, `meth|<target>|a`, `comb|<target>|a+b+c`,
`out||a` (arguments are node numbers) answers

`ok win=[<combiner>|k,…] nodes=[…surviving nodes, renumbered…] mods=[…surviving module names…]
 plain=<0|1> sim=<0|1> out=<hash> hyp=<0|1>`

(`plain`: no choice node left; `sim`: every surviving node has the value it has in the hard
evaluation of the SuperNet, for the structural-hash leaf semantics; `out`: that hash of the output)
or `err hyp=<0|1>` when the surgery raises.

`history st=[<combiner>|<gumbel>|<hard>|<arg-max of theta or ?>|q|q|…,…] ops=[a|<combiner>|q|…,h|<0|1>,t,f|<train>,e,…]`
runs the op sequence (alpha written / hard switched / temperature updated / forward pass / an earlier
`export()`) on the
combiner states and answers `win=[<combiner>|k,…] sampled=[<combiner>|k or ?,…] hard=[…]`: the branch
`export()` selects afterwards (arg-max of the *current* alpha), the position of the largest entry
of `theta_alpha` (`?` after Gumbel noise) and the hard flags.  `hyp`: the traced graph satisfies the hypotheses of the
C03 theorems (`WF`, `IOSane`, `WinInRange`, the last node is the `output`). -/
open PlinioVerif PlinioVerif.Proto PlinioVerif.SuperNet

def parseArgs? (s : String) : Option (List Nat) :=
  if s = "" then some [] else (s.splitOn "+").mapM (·.toNat?)

def parseNode? (t : String) : Option Node :=
  match t.splitOn "|" with
  | [k, tgt, as] => do
    let args ← parseArgs? as
    match k with
    | "in" => (tgt.toNat?).map fun n => Node.input n
    | "mod" => some (Node.leaf ⟨.module, tgt⟩ args)
    | "fn" => some (Node.leaf ⟨.function, tgt⟩ args)
    | "fni" => some (Node.leaf ⟨.impureFunction, tgt⟩ args)
    | "meth" => some (Node.leaf ⟨.method, tgt⟩ args)
    | "comb" => some (Node.combine tgt args)
    | "out" => some ⟨.output, args⟩
    | _ => none
  | _ => none

def parseAlpha? (t : String) : Option (String × List Rat) :=
  match t.splitOn "|" with
  | c :: qs => (qs.mapM parseRat?).map fun l => (c, l)
  | _ => none

def showArgs (g : Graph) (as : List Nat) : String := "+".intercalate (as.map fun a => toString (renumber g a))

def showNode (g : Graph) (nd : Node) : String :=
  match nd.op with
  | .input k => s!"in|{k}|"
  | .leaf ⟨.module, t⟩ => s!"mod|{t}|{showArgs g nd.args}"
  | .leaf ⟨.function, t⟩ => s!"fn|{t}|{showArgs g nd.args}"
  | .leaf ⟨.impureFunction, t⟩ => s!"fni|{t}|{showArgs g nd.args}"
  | .leaf ⟨.method, t⟩ => s!"meth|{t}|{showArgs g nd.args}"
  | .combine c => s!"comb|{c}|{showArgs g nd.args}"
  | .output => s!"out||{showArgs g nd.args}"
  | .erased => "erased"

def hashStr (s : String) : Nat := s.toList.foldl (fun h c => (h * 131 + c.toNat) % 2305843009213693951) 7

/-- structural hash as leaf semantics: two nodes get the same value iff they are the same
expression over the inputs (up to hash collisions) -/
def hashEnv : Env Nat where
  sem := fun t as =>
    let k := match t.kind with
      | .module => "mod" | .function => "fn" | .method => "meth" | .impureFunction => "fni"
    as.foldl (fun h a => (h * 1000003 + a) % 2305843009213693951) (hashStr (k ++ "|" ++ t.target))
  x := fun k => hashStr s!"in|{k}"
  d := 0

def combiners (g : Graph) : List String :=
  (g.filterMap fun nd => match nd.op with | .combine c => some c | _ => none).eraseDups

/-- `<combiner>|<gumbel>|<hard>|<sampled or ?>|q|q|…` -/
def parseCombSt? (t : String) : Option (String × CombSt) :=
  match t.splitOn "|" with
  | c :: g :: h :: smp :: qs => do
    let gb ← parseBool? g
    let hb ← parseBool? h
    let a ← qs.mapM parseRat?
    let sm ← if smp = "?" then some none else smp.toNat?.map some
    pure (c, ⟨a, sm, hb, gb⟩)
  | _ => none

/-- `a|<combiner>|q|…` (alpha written), `h|<0|1>` (hard), `t` (temperature), `f|<train>` (forward) -/
def parseHistOp? (t : String) : Option HistOp :=
  match t.splitOn "|" with
  | "a" :: c :: qs => (qs.mapM parseRat?).map fun a => HistOp.setAlpha c a
  | ["h", b] => (parseBool? b).map HistOp.setHard
  | ["t"] => some HistOp.setTemp
  | ["f", b] => (parseBool? b).map HistOp.forward
  | ["e"] => some HistOp.exported
  | _ => none

def handle (line : String) : String :=
  let toks := tokens line
  match toks.head? with
  | some "export" =>
    match (field? toks "alpha").bind (parseList? parseAlpha?),
          (field? toks "mods").bind (parseList? some),
          (field? toks "nodes").bind (parseList? parseNode?) with
    | some alpha, some mods, some g =>
      let win := winners alpha
      let hyp := s!"hyp={showBool (wfB g && ioSaneB g && winInRangeB win g && (Graph.nd g (g.length - 1)).op == Op.output)}"
      match exportGraph win g with
      | none => s!"err {hyp}"
      | some g' =>
        let ws := showList (fun c => s!"{c}|{win c}") (combiners g)
        let ns := showList (showNode g') (g'.filter Node.live)
        let ms := showList id (survivingModules mods g')
        let plain := !(g'.any Node.isCombine)
        let v := hardEval hashEnv win g
        let v' := hardEval hashEnv (fun _ => 0) g'
        let sim := (List.range g'.length).all fun i => !(g'.nd i).live || v.getD i 0 == v'.getD i 0
        s!"ok win={ws} nodes={ns} mods={ms} plain={showBool plain} sim={showBool sim} out={netOut hashEnv win g} {hyp}"
    | _, _, _ => "bad-request"
  | some "history" =>
    match (field? toks "st").bind (parseList? parseCombSt?),
          (field? toks "ops").bind (parseList? parseHistOp?) with
    | some st, some ops =>
      let st' := runHist st ops
      let w := exportWinners st'
      let ws := showList (fun p => s!"{p.1}|{w p.1}") st'
      let ss := showList (fun (p : String × CombSt) =>
        match p.2.sampled with | some k => s!"{p.1}|{k}" | none => s!"{p.1}|?") st'
      let hs := showList (fun (p : String × CombSt) => s!"{p.1}|{showBool p.2.hard}") st'
      s!"win={ws} sampled={ss} hard={hs}"
    | _, _ => "bad-request"
  | _ => "bad-request"

def main : IO Unit := runDriver handle
