import PlinioVerif.Model.Proto
import PlinioVerif.Model.CostNum
import PlinioVerif.Gen.Reg
import PlinioVerif.Model.RegInstance
/-! Line driver for the C19 correspondence (value reading `CostNum Rat` of the generated regularizers).

```
base    cost=<q> strength=<q>                      -> ok:<q> | err
duccio  ms=[[cost,target,strength],…] epoch=<q> n=<q>   -> ok:<q> | err
derived loss=<q> c0=<q> t=<q>                      -> ok:<q> | err
hist    targets=[q,…] loss=<q> strengths=[q,…]|none calls=[[epoch,n,cost,…],…]
                                                   -> [ok:<q>|err,…]   one entry per call, one object
```
-/
open PlinioVerif PlinioVerif.Proto

def ratField (toks : List String) (key : String) : Rat :=
  ((field? toks key).bind parseRat?).getD 0

def showRes (ok : Bool) (v : Rat) : String := if ok then s!"ok:{showRat v}" else "err"

def handle (line : String) : String :=
  let toks := tokens line
  match toks with
  | "base" :: rest =>
    let c := ratField rest "cost"; let s := ratField rest "strength"
    showRes (Gen.base_regularizer.call.ok c s) (Gen.base_regularizer.call.val c s)
  | "duccio" :: rest =>
    match (field? rest "ms").bind (parseList2? parseRat?) with
    | some ms =>
      let ms' : List (Rat × Rat × Rat) := ms.map fun m => (m.getD 0 0, m.getD 1 0, m.getD 2 0)
      let e := ratField rest "epoch"; let n := ratField rest "n"
      showRes (Gen.duccio.call.ok ms' e n) (Gen.duccio.call.val ms' e n)
    | none => "bad-request"
  | "derived" :: rest =>
    let l := ratField rest "loss"; let c := ratField rest "c0"; let t := ratField rest "t"
    showRes (Gen.duccio.derived_strength.ok l c t) (Gen.duccio.derived_strength.val l c t)
  | "hist" :: rest =>
    match (field? rest "targets").bind (parseList? parseRat?), (field? rest "calls").bind (parseList2? parseRat?) with
    | some ts, some calls =>
      let ss := (field? rest "strengths").bind (parseList? parseRat?)
      let inst : RegInst.Instance := ⟨ts, ratField rest "loss", ss⟩
      let cs : List RegInst.Call := calls.map fun l => ⟨l.drop 2, l.getD 0 0, l.getD 1 0⟩
      showList (fun o => match o with | some v => s!"ok:{showRat v}" | none => "err") (inst.runOk true cs)
    | _, _ => "bad-request"
  | _ => "bad-request"

def main : IO Unit := runDriver handle
