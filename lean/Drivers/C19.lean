import PlinioVerif.Model.Proto
import PlinioVerif.Model.CostNum
import PlinioVerif.Gen.Reg
/-! Line driver for the C19 correspondence (value reading `CostNum Rat` of the generated regularizers).

```
base    cost=<q> strength=<q>                      -> ok:<q> | err
duccio  ms=[[cost,target,strength],…] epoch=<q> n=<q>   -> ok:<q> | err
derived loss=<q> c0=<q> t=<q>                      -> ok:<q> | err
```
-/
open PlinioVerif PlinioVerif.Proto

def ratField (toks : List String) (key : String) : Rat :=
  ((field? toks key).bind parseRat?).getD 0

def showRes (ok : Bool) (v : Rat) : String := if ok then s!"ok:{showRat v}" else "err"

def handle (line : String) : String :=
  let toks := tokens line
  match toks with
  | "base" :: rest =>
    let c := ratField rest "cost"; let s := ratField rest "strength"
    showRes (Gen.base_regularizer.call.ok c s) (Gen.base_regularizer.call.val c s)
  | "duccio" :: rest =>
    match (field? rest "ms").bind (parseList2? parseRat?) with
    | some ms =>
      let ms' : List (Rat × Rat × Rat) := ms.map fun m => (m.getD 0 0, m.getD 1 0, m.getD 2 0)
      let e := ratField rest "epoch"; let n := ratField rest "n"
      showRes (Gen.duccio.call.ok ms' e n) (Gen.duccio.call.val ms' e n)
    | none => "bad-request"
  | "derived" :: rest =>
    let l := ratField rest "loss"; let c := ratField rest "c0"; let t := ratField rest "t"
    showRes (Gen.duccio.derived_strength.ok l c t) (Gen.duccio.derived_strength.val l c t)
  | _ => "bad-request"

def main : IO Unit := runDriver handle
